//! C06 — determinants are correct and the inverse functions really invert.
use vx::fr::{Deg, Fr};
use vx::lattice::*;
use vx::matx::*;
use vx::*;

fn arrx<const N: usize>(a: &[i64], base: &[i64]) -> A<X, N> { let mut m = [[qi(0); N]; N]; for i in 0..N { for j in 0..N { m[i][j] = qi((a[i * N + j] + base[(i * N + j) % base.len()]) as i128); } } m }
fn arrf(a: &[i64]) -> A<Fr, 4> { let mut m = [[Fr::int(0); 4]; 4]; for i in 0..4 { for j in 0..4 { m[i][j] = Fr::int(a[i * 4 + j] as i128); } } m }
fn arri(a: &[i64]) -> A<i128, 4> { let mut m = [[0i128; 4]; 4]; for i in 0..4 { for j in 0..4 { m[i][j] = a[i * 4 + j] as i128; } } m }

macro_rules! det_section { ($s:expr, $N:expr, $R:ident, $C:ident, $d:expr) => {{
    let s: &Section = $s; const N: usize = $N;
    // premise
    let dv = [[Deg::VAR; N]; N];
    match catch(|| (rm::$R::<Deg>::build(&dv).determinant(), cm::$C::<Deg>::build(&dv).determinant())) {
        Ok((a, b)) => { s.meta("measured_degree", json!([a.n + a.d, b.n + b.d])); if a.n.max(b.n) > $d || a.d + b.d != 0 { s.degrade("degree above lattice order"); } }
        Err(e) => s.degrade(&format!("{:?}", e)),
    }
    par_lattice(N * N, $d, |p| {
        let a = arrx::<N>(p, &[0]);
        let want = det(&a);
        let w: u64 = p.iter().sum::<i64>() as u64;
        let inp = || jmat(&a);
        let nz = want != qi(0);
        let (r, c) = (rm::$R::<X>::build(&a), cm::$C::<X>::build(&a));
        for (site, got) in [
            ("row determinant", s.call("det", inp, || r.determinant())),
            ("col determinant", s.call("det", inp, || c.determinant())),
            ("row transposed().determinant", s.call("det", inp, || r.transposed().determinant())),
            ("col transposed().determinant", s.call("det", inp, || c.transposed().determinant())),
            ("Cols::from(rows).determinant", s.call("det", inp, || cm::$C::<X>::from(r).determinant())),
            ("Rows::from(cols).determinant", s.call("det", inp, || rm::$R::<X>::from(c).determinant())),
        ] {
            s.eval(nz);
            if let Some(g) = got { if g != want { s.violation_w(&format!("Mat{} {}", N, site), "not-the-leibniz-expansion", json!({"M": inp(), "got": jx(g), "want": jx(want)}), w); } }
        }
        if nz && w == $d as u64 && s.wants_sample() { s.sample(json!({"M": inp(), "det": jx(want)})); }
    });
    s.meta("lattice", json!({"n": N * N, "order": $d, "points": lattice_count(N * N, $d).to_string()}));
}} }

macro_rules! detmul_section { ($s:expr, $N:expr, $R:ident, $C:ident, $d:expr) => {{
    let s: &Section = $s; const N: usize = $N;
    par_lattice(2 * N * N, $d, |p| {
        let (a, b) = (arrx::<N>(&p[..N * N], &[1, 0, 0, 2, 0]), arrx::<N>(&p[N * N..], &[0, 1, 3, 0]));
        let want = det(&a) * det(&b);
        let inp = || json!({"A": jmat(&a), "B": jmat(&b)});
        for (site, got) in [("row", s.call("detmul", inp, || (rm::$R::<X>::build(&a) * rm::$R::<X>::build(&b)).determinant())), ("col", s.call("detmul", inp, || (cm::$C::<X>::build(&a) * cm::$C::<X>::build(&b)).determinant()))] {
            s.eval(want != qi(0));
            if let Some(g) = got { if g != want { s.violation_w(&format!("Mat{}<{}> determinant of a product", N, site), "not-multiplicative", json!({"input": inp(), "got": jx(g), "want": jx(want)}), p.iter().sum::<i64>() as u64); } }
        }
    });
    s.meta(&format!("lattice N={}", N), json!({"n": 2 * N * N, "order": $d, "points": lattice_count(2 * N * N, $d).to_string()}));
}} }

fn main() {
    let rep = Report::start("C06", "exploration");
    let th = rep.thorough();
    let x = if th { 2 } else { 1 };

    let rd = "all points of L(N^2, D), D = N (measured degree) + extra: determinant() of both layouts, of the transpose and of the layout-converted matrix vs the Leibniz expansion generated from the signed permutations; non-trivial: det != 0";
    rep.section("determinant = Leibniz expansion, N=2", rd, true, true, |s| det_section!(s, 2, Mat2, Mat2, 2 + 2 * x));
    rep.section("determinant = Leibniz expansion, N=3", rd, true, true, |s| det_section!(s, 3, Mat3, Mat3, 3 + x));
    rep.section("determinant = Leibniz expansion, N=4", rd, true, true, |s| det_section!(s, 4, Mat4, Mat4, 4 + x));

    rep.section("determinant is multiplicative", "det(A*B) = det(A)det(B) on L(2N^2, D) around a non-singular base point: N=2: D=4 (the full degree), N=3: D=6 quick (full degree), N=4: D=4 quick / 6 thorough (the full degree 8 has 7.7e7 points and is implied by the two complete sections 'determinant = Leibniz' and C01 'matrix*matrix'); non-trivial: det(A)det(B) != 0", true, false, |s| {
        detmul_section!(s, 2, Mat2, Mat2, 4 + x);
        detmul_section!(s, 3, Mat3, Mat3, if th { 6 } else { 5 });
        detmul_section!(s, 4, Mat4, Mat4, if th { 6 } else { 4 });
        s.sample(json!({"law": "det(A*B) == det(A)*det(B)", "A": "base + lattice deviation", "layouts": ["row", "col"]}));
    });

    rep.section("reference adjugate is an adjugate", "M * adj_ref(M) = det_ref(M) * I on L(16,4) in exact rationals (validates the oracle used below, not vek); non-trivial: det != 0", true, true, |s| {
        par_lattice(16, 4, |p| {
            let a = arrx::<4>(p, &[0]);
            let (ad, d) = (adjugate(&a), det(&a));
            let prod = mmul(&a, &ad);
            s.eval(d != qi(0));
            for i in 0..4 { for j in 0..4 { let w = if i == j { d } else { qi(0) }; if prod[i][j] != w { s.rep.machinery_error(format!("reference adjugate wrong at {:?}", p)); } } }
        });
        s.sample(json!({"oracle": "adj(A)[i][j] = (-1)^(i+j) minor(j,i)", "checked": "A adj(A) = det(A) I"}));
    });

    rep.section("general 4x4 inverse: inv(M) * det(M) = adj(M) as a formal identity",
        "the real inverted()/invert() of both layouts run on formal fractions (no quotient is ever formed, so singular matrices are not skipped) at every point of L(16, D), D = 7 (measured cross-degree) quick / 8 thorough; each of the 16 entries n/d must satisfy n * det_ref = adj_ref * d; non-trivial: det != 0", true, true, |s| {
        let dv = [[Deg::VAR; 4]; 4];
        let mut cross = 0u32;
        for (lay, r) in [("row", catch(|| rm::Mat4::<Deg>::build(&dv).inverted().decode())), ("col", catch(|| cm::Mat4::<Deg>::build(&dv).inverted().decode()))] {
            match r { Ok(m) => { for row in m { for e in row { cross = cross.max(e.cross_degree(3, 4)); } } }
                      Err(e) => s.degrade(&format!("{}: {:?}", lay, e)) }
        }
        s.meta("measured_cross_degree", json!(cross));
        let d = if th { 8 } else { 7 };
        if cross > d { s.degrade("cross degree above lattice order"); }
        if cross == 0 {
            // the premise run failed: the code inspects values (a comparison on Deg/Fr panics), so it is not a rational function and
            // formal fractions cannot run it. Fall back to exact rationals on the non-singular lattice points (bounded, not complete).
            par_lattice(16, d, |p| {
                let ai = arri(p);
                let (dref, aref) = (det_i(&ai), adj_i(&ai));
                if dref == 0 { s.eval(false); return; }
                let a = arrx::<4>(p, &[0]);
                let inp = || json!(p);
                for (site, got) in [
                    ("row inverted", s.call("inv", inp, || rm::Mat4::<X>::build(&a).inverted().decode())),
                    ("col inverted", s.call("inv", inp, || cm::Mat4::<X>::build(&a).inverted().decode())),
                    ("row invert", s.call("inv", inp, || { let mut m = rm::Mat4::<X>::build(&a); m.invert(); m.decode() })),
                    ("col invert", s.call("inv", inp, || { let mut m = cm::Mat4::<X>::build(&a); m.invert(); m.decode() })),
                ] {
                    s.eval(true);
                    if let Some(g) = got { for i in 0..4 { for j in 0..4 { if g[i][j] != q(aref[i][j], dref) {
                        s.violation_w(&format!("Mat4 {}", site), "not-adjugate-over-determinant", json!({"M_row_major_flat": p, "entry": [i, j], "got": jx(g[i][j]), "want": format!("{}/{}", aref[i][j], dref)}), p.iter().sum::<i64>() as u64); } } } }
                }
            });
            s.meta("fallback", json!("exact rationals on non-singular lattice points (premise failed)"));
            return;
        }
        par_lattice(16, d, |p| {
            let ai = arri(p);
            let (dref, aref) = (det_i(&ai), adj_i(&ai));
            let f = arrf(p);
            let inp = || json!(p);
            for (site, got) in [
                ("row inverted", s.call("inv", inp, || rm::Mat4::<Fr>::build(&f).inverted().decode())),
                ("col inverted", s.call("inv", inp, || cm::Mat4::<Fr>::build(&f).inverted().decode())),
                ("row invert", s.call("inv", inp, || { let mut m = rm::Mat4::<Fr>::build(&f); m.invert(); m.decode() })),
                ("col invert", s.call("inv", inp, || { let mut m = cm::Mat4::<Fr>::build(&f); m.invert(); m.decode() })),
            ] {
                s.eval(dref != 0);
                if let Some(g) = got {
                    let mut bad = None;
                    for i in 0..4 { for j in 0..4 { match catch(|| g[i][j].eq_ratio(aref[i][j], dref)) { Ok(true) => {}, Ok(false) => { if bad.is_none() { bad = Some((i, j)); } }, Err(_) => s.unmodelled("overflow in cross multiplication") } } }
                    if let Some((i, j)) = bad { s.violation_w(&format!("Mat4 {}", site), "not-adjugate-over-determinant", json!({"M_row_major_flat": p, "entry": [i, j], "got": format!("{}/{}", g[i][j].n, g[i][j].d), "want": format!("{}/{}", aref[i][j], dref)}), p.iter().sum::<i64>() as u64); }
                }
            }
            if dref != 0 && s.wants_sample() && p.iter().sum::<i64>() == d as i64 { s.sample(json!({"M_row_major_flat": p, "det": dref.to_string(), "adj[0][0]": aref[0][0].to_string()})); }
        });
        s.meta("lattice", json!({"n": 16, "order": d, "points": lattice_count(16, d).to_string()}));
    });

    rep.section("general 4x4 inverse is two-sided (exact rationals)", "L(16, 3 quick / 4 thorough) translated to a non-singular base point: M * inverted(M) = inverted(M) * M = I for both layouts wherever det != 0, for M and for M scaled by 2^-20 and 2^20 (determinants far below / above the element type's epsilon); f64 and f32: inverted(M * 2^-k) is bit for bit inverted(M) * 2^k (k = 20, 8; power-of-two scaling is exact); non-trivial: all non-singular points", true, false, |s| {
        let base = [2i64, 0, 1, 0, 0, 3, 0, 1, 1, 0, 1, 0, 0, 1, 0, 2];
        s.require_classes(&["non-singular", "tiny-determinant(|det| < epsilon)", "huge-determinant", "float power-of-two scaling"]);
        par_lattice(16, if th { 4 } else { 3 }, |p| {
            let a0 = arrx::<4>(p, &base);
            if det(&a0) == qi(0) { s.eval(false); s.class("singular(skipped)"); return; }
            s.class("non-singular");
            let id = ident::<X, 4>();
            // the matrix itself and copies scaled by 2^-k and 2^k: the determinant scales by 2^(-4k), far below / above the
            // epsilon of the element type (2^-52) - "every matrix with non-zero determinant" includes those
            for k in [0i32, -20, 20] {
                let sc = if k >= 0 { qi(1i128 << k) } else { q(1, 1i128 << -k) };
                let mut a = a0; for i in 0..4 { for j in 0..4 { a[i][j] = a0[i][j] * sc; } }
                s.class(if k == 0 { "unit-scale" } else if k < 0 { "tiny-determinant(|det| < epsilon)" } else { "huge-determinant" });
                for (site, got) in [("row", s.call("inv", || jmat(&a), || { let m = rm::Mat4::<X>::build(&a); let i = m.inverted(); ((m * i).decode(), (i * m).decode()) })),
                                    ("col", s.call("inv", || jmat(&a), || { let m = cm::Mat4::<X>::build(&a); let i = m.inverted(); ((m * i).decode(), (i * m).decode()) }))] {
                    s.eval(true);
                    if let Some((l, r)) = got { if l != id || r != id { s.violation_w(&format!("Mat4<{}>::inverted", site), "not-a-two-sided-inverse", json!({"M": jmat(&a), "scaled_by_2^": k, "M*inv": jmat(&l), "inv*M": jmat(&r)}), p.iter().sum::<i64>() as u64 + k.unsigned_abs() as u64); } }
                }
            }
            let a = a0;
            // floats: scaling by a power of two is exact, so inverted(M * 2^-k) must equal inverted(M) * 2^k bit for bit
            {
                let f64m: A<f64, 4> = std::array::from_fn(|i| std::array::from_fn(|j| a[i][j].shadow()));
                let f32m: A<f32, 4> = std::array::from_fn(|i| std::array::from_fn(|j| a[i][j].shadow() as f32));
                let base64 = rm::Mat4::<f64>::build(&f64m).inverted().decode();
                let base32 = rm::Mat4::<f32>::build(&f32m).inverted().decode();
                for k in [20i32, 8] {
                    let (s64, s32) = (2f64.powi(-k), 2f32.powi(-k));
                    let m64: A<f64, 4> = std::array::from_fn(|i| std::array::from_fn(|j| f64m[i][j] * s64));
                    let m32: A<f32, 4> = std::array::from_fn(|i| std::array::from_fn(|j| f32m[i][j] * s32));
                    let (g64r, g64c) = (rm::Mat4::<f64>::build(&m64).inverted().decode(), cm::Mat4::<f64>::build(&m64).inverted().decode());
                    let (g32r, g32c) = (rm::Mat4::<f32>::build(&m32).inverted().decode(), cm::Mat4::<f32>::build(&m32).inverted().decode());
                    s.evals(4, 4); s.class("float power-of-two scaling");
                    let w64: A<f64, 4> = std::array::from_fn(|i| std::array::from_fn(|j| base64[i][j] / s64));
                    let w32: A<f32, 4> = std::array::from_fn(|i| std::array::from_fn(|j| base32[i][j] / s32));
                    let same64 = |g: &A<f64, 4>| (0..4).all(|i| (0..4).all(|j| g[i][j].to_bits() == w64[i][j].to_bits() || (g[i][j] == 0.0 && w64[i][j] == 0.0)));
                    let same32 = |g: &A<f32, 4>| (0..4).all(|i| (0..4).all(|j| g[i][j].to_bits() == w32[i][j].to_bits() || (g[i][j] == 0.0 && w32[i][j] == 0.0)));
                    if !same64(&g64r) || !same64(&g64c) { s.violation_w("Mat4<f64>::inverted", "inverse-of-a-power-of-two-scaled-matrix-is-not-the-scaled-inverse", json!({"M": jmat(&a), "scaled_by_2^": -k, "got_row0": format!("{:?}", g64r[0]), "want_row0": format!("{:?}", w64[0])}), p.iter().sum::<i64>() as u64); }
                    if !same32(&g32r) || !same32(&g32c) { s.violation_w("Mat4<f32>::inverted", "inverse-of-a-power-of-two-scaled-matrix-is-not-the-scaled-inverse", json!({"M": jmat(&a), "scaled_by_2^": -k, "got_row0": format!("{:?}", g32r[0]), "want_row0": format!("{:?}", w32[0])}), p.iter().sum::<i64>() as u64); }
                }
            }
            if s.wants_sample() { s.sample(json!({"M": jmat(&a), "law": "M*inv == I == inv*M"})); }
        });
    });

    rep.section("rigid and TRS fast inverses (exact rationals)",
        "M = T*R and M = T*R*S built from reference arrays: R = Rodrigues matrix for every rational unit axis (sign/permutation closure of 6 Pythagorean quadruples: 103 axes; quick: every 4th) x 12 rational circle points, T from {-2,0,3}^3 (quick: 5 of them), S from {1/2,1,2,-3}^3 (quick: 8 of them); inverted_affine_transform_no_scale / inverted_affine_transform (+ in-place twins) of both layouts must equal inverted() and multiply to I on both sides; negligible scale 2^-60 only exercised for 'no panic / no division by ~0' (the property excludes it); non-trivial: R != I", true, false, |s| {
        s.require_classes(&["rigid", "trs", "trs-negative-scale", "negligible-scale-branch"]);
        let axes = unit_axes(); let circ = circle_points();
        let tr_all: Vec<[X; 3]> = { let v = [qi(-2), qi(0), qi(3)]; let mut o = Vec::new(); for a in v { for b in v { for c in v { o.push([a, b, c]); } } } o };
        let sc_all: Vec<[X; 3]> = { let v = [q(1, 2), qi(1), qi(2), qi(-3)]; let mut o = Vec::new(); for a in v { for b in v { for c in v { o.push([a, b, c]); } } } o };
        let trs: Vec<[X; 3]> = if th { tr_all.clone() } else { vec![tr_all[0], tr_all[5], tr_all[13], tr_all[22], tr_all[26]] };
        let scs: Vec<[X; 3]> = if th { sc_all.clone() } else { vec![sc_all[0], sc_all[5], sc_all[21], sc_all[27], sc_all[38], sc_all[42], sc_all[57], sc_all[63]] };
        let id = ident::<X, 4>();
        let work: Vec<(usize, usize)> = (0..axes.len()).filter(|i| th || i % 4 == 0).flat_map(|i| (0..circ.len()).map(move |j| (i, j))).collect();
        use rayon::prelude::*;
        work.par_iter().for_each(|&(ai, ci)| {
            let r3 = rodrigues(&axes[ai], circ[ci].0, circ[ci].1);
            for t in &trs {
                // rigid
                let m = affine4(&r3, t);
                let nontriv = r3 != ident::<X, 3>();
                macro_rules! both { ($cls:expr, $m:expr, $fast:ident, $fast_inplace:ident, $name:expr) => {{
                    let m: A<X, 4> = $m;
                    for lay in ["row", "col"] {
                        s.eval(nontriv); s.class($cls);
                        let got = if lay == "row" { s.call($name, || jmat(&m), || { let mm = rm::Mat4::<X>::build(&m); let f = mm.$fast(); let mut g = mm; g.$fast_inplace(); (f.decode(), g.decode(), mm.inverted().decode(), (mm * f).decode(), (f * mm).decode()) }) }
                                  else { s.call($name, || jmat(&m), || { let mm = cm::Mat4::<X>::build(&m); let f = mm.$fast(); let mut g = mm; g.$fast_inplace(); (f.decode(), g.decode(), mm.inverted().decode(), (mm * f).decode(), (f * mm).decode()) }) };
                        if let Some((f, g, gen, l, r)) = got {
                            let site = format!("Mat4<{}>::{}", lay, $name);
                            if f != gen { s.violation(&site, "differs-from-general-inverse", json!({"M": jmat(&m), "got": jmat(&f), "want": jmat(&gen)})); }
                            else if l != id || r != id { s.violation(&site, "not-a-two-sided-inverse", json!({"M": jmat(&m)})); }
                            if g != f { s.violation(&site, "in-place-form-differs", json!({"M": jmat(&m)})); }
                        }
                    }
                }} }
                both!("rigid", m, inverted_affine_transform_no_scale, invert_affine_transform_no_scale, "inverted_affine_transform_no_scale");
                both!("rigid", m, inverted_affine_transform, invert_affine_transform, "inverted_affine_transform");
                for sc in &scs {
                    let mut l = r3; for i in 0..3 { for j in 0..3 { l[i][j] = r3[i][j] * sc[j]; } } // R*S: column j scaled
                    let m = affine4(&l, t);
                    both!(if sc.iter().any(|v| *v < qi(0)) { "trs-negative-scale" } else { "trs" }, m, inverted_affine_transform, invert_affine_transform, "inverted_affine_transform");
                }
            }
            // negligible scale: the documented branch must not divide by ~0 (result stays finite/exact; nothing else is asserted)
            let tiny = X::R(vx::Q::new(1, 1i128 << 60));
            let mut l = r3; for i in 0..3 { l[i][0] = r3[i][0] * tiny; }
            let m = affine4(&l, &[qi(1), qi(2), qi(3)]);
            s.eval(true); s.class("negligible-scale-branch");
            let _ = s.call("inverted_affine_transform(negligible scale)", || jmat(&m), || cm::Mat4::<X>::build(&m).inverted_affine_transform().decode());
            if s.wants_sample() && ai > 0 { let m = affine4(&r3, &trs[1]); s.sample(json!({"M = T*R": jmat(&m), "law": "inverted_affine_transform_no_scale(M) == inverted(M), M*inv == I"})); }
        });
    });

    rep.section("fast inverses, f64 tier", "64 angles in (-2pi,2pi) x 26 integer axes in {-1,0,1}^3 x 3 translations x 3 scale triples: the fast inverses times M within 256 eps * (max |entry| of M and of the inverse)^2 of I; non-trivial: all", true, false, |s| {
        for ai in 0..64 { let ang = -6.2 + ai as f64 * 0.1937;
            for ax in -1i32..=1 { for ay in -1i32..=1 { for az in -1i32..=1 { if (ax, ay, az) == (0, 0, 0) { continue; }
                let n = ((ax * ax + ay * ay + az * az) as f64).sqrt();
                let k = [ax as f64 / n, ay as f64 / n, az as f64 / n];
                let (c, sn) = (ang.cos(), ang.sin());
                let mut r = [[0.0f64; 3]; 3];
                for j in 0..3 { let mut e = [0.0; 3]; e[j] = 1.0; let kxe = [k[1] * e[2] - k[2] * e[1], k[2] * e[0] - k[0] * e[2], k[0] * e[1] - k[1] * e[0]]; let kd = k[j]; for i in 0..3 { r[i][j] = e[i] * c + kxe[i] * sn + k[i] * kd * (1.0 - c); } }
                for t in [[0.0, 0.0, 0.0], [1.5, -2.0, 3.0], [-100.0, 7.0, 0.25]] { for sc in [[1.0, 1.0, 1.0], [2.0, 0.5, 3.0], [-1.0, 4.0, 0.25]] {
                    let mut m = [[0.0f64; 4]; 4]; for i in 0..3 { for j in 0..3 { m[i][j] = r[i][j] * sc[j]; } m[i][3] = t[i]; } m[3][3] = 1.0;
                    let unit = sc == [1.0, 1.0, 1.0];
                    let chk = |name: &str, inv: A<f64, 4>| {
                        s.eval(true);
                        let big = m.iter().flatten().chain(inv.iter().flatten()).fold(1.0f64, |a, b| a.max(b.abs()));
                        let mut worst = 0.0f64;
                        for i in 0..4 { for j in 0..4 { let mut l = 0.0; let mut rr = 0.0; for kk in 0..4 { l += m[i][kk] * inv[kk][j]; rr += inv[i][kk] * m[kk][j]; } let w = if i == j { 1.0 } else { 0.0 }; worst = worst.max((l - w).abs()).max((rr - w).abs()); } }
                        if !(worst <= 256.0 * f64::EPSILON * big * big) { s.violation(&format!("Mat4<f64>::{}", name), "not-an-inverse-within-error-bound", json!({"angle": ang, "axis": [ax, ay, az], "t": t, "scale": sc, "residual": worst})); }
                    };
                    chk("inverted_affine_transform(col)", cm::Mat4::<f64>::build(&m).inverted_affine_transform().decode());
                    chk("inverted_affine_transform(row)", rm::Mat4::<f64>::build(&m).inverted_affine_transform().decode());
                    chk("inverted(col)", cm::Mat4::<f64>::build(&m).inverted().decode());
                    if unit { chk("inverted_affine_transform_no_scale(col)", cm::Mat4::<f64>::build(&m).inverted_affine_transform_no_scale().decode()); chk("inverted_affine_transform_no_scale(row)", rm::Mat4::<f64>::build(&m).inverted_affine_transform_no_scale().decode()); }
                } }
            } } }
        }
        s.sample(json!({"angle": -6.2, "axis": [1, -1, 0], "t": [1.5, -2.0, 3.0], "scale": [2.0, 0.5, 3.0]}));
    });
    std::process::exit(rep.finish());
}

// integer reference determinant / adjugate (i128) for the formal-fraction identity
fn det_i(a: &A<i128, 4>) -> i128 { let mut s = 0i128; for (p, sg) in signed_permutations(4) { let mut t = 1i128; for i in 0..4 { t *= a[i][p[i]]; } s += sg as i128 * t; } s }
fn adj_i(a: &A<i128, 4>) -> A<i128, 4> {
    let mut o = [[0i128; 4]; 4];
    for i in 0..4 { for j in 0..4 {
        // minor deleting row j, column i
        let rows: Vec<usize> = (0..4).filter(|&r| r != j).collect(); let cols: Vec<usize> = (0..4).filter(|&c| c != i).collect();
        let mut m = 0i128; for (p, sg) in signed_permutations(3) { let mut t = 1i128; for k in 0..3 { t *= a[rows[k]][cols[p[k]]]; } m += sg as i128 * t; }
        o[i][j] = if (i + j) % 2 == 0 { m } else { -m };
    } }
    o
}
