//! C07 — affine builders and Transform act on points as defined and chain in call order.
use stateright::{Checker, Model, Property};
use std::sync::atomic::{AtomicU64, Ordering::Relaxed};
use std::sync::Arc;
use vek::{Quaternion, Transform};
use vx::lattice::*;
use vx::matx::*;
use vx::q::angle_base_t;
use vx::*;

fn xi(v: i64) -> X { qi(v as i128) }

// ---- reference step semantics on points (the property's wording: apply the steps one after the other) ----
#[derive(Clone, Copy, Debug, PartialEq, Eq, Hash)]
enum Step { T2(i8, i8), T3(i8, i8, i8), S3(i8, i8, i8, i8), S2(i8, i8, i8), RX(u8, i8), RY(u8, i8), RZ(u8, i8), R3(u8, i8), ShX(i8), ShY(i8) }

/// angle bases are per-thread: register them in a fixed order so indices agree on every thread
fn bases() -> [u8; 2] { [angle_base_t(1, 2), angle_base_t(-1, 3)] }
fn tok(which: u8, k: i8) -> X { X::tok(bases()[which as usize], k as i128) }
fn sc(which: u8, k: i8) -> (X, X) { let (s, c) = tok(which, k).sin_cos_q(); (X::R(s), X::R(c)) }
const AXIS: [i128; 3] = [1, 2, 2]; // |axis| = 3

/// the textbook linear map of one step, applied to a point/direction (w = 1 / 0) in 3D
fn apply3(st: Step, p: [X; 3], w: X) -> [X; 3] {
    match st {
        Step::T2(a, b) => [p[0] + xi(a as i64) * w, p[1] + xi(b as i64) * w, p[2]],
        Step::T3(a, b, c) => [p[0] + xi(a as i64) * w, p[1] + xi(b as i64) * w, p[2] + xi(c as i64) * w],
        Step::S3(a, b, c, d) => [p[0] * q(a as i128, d as i128), p[1] * q(b as i128, d as i128), p[2] * q(c as i128, d as i128)],
        Step::RX(b, k) => { let (s, c) = sc(b, k); [p[0], c * p[1] - s * p[2], s * p[1] + c * p[2]] }
        Step::RY(b, k) => { let (s, c) = sc(b, k); [c * p[0] + s * p[2], p[1], c * p[2] - s * p[0]] }
        Step::RZ(b, k) => { let (s, c) = sc(b, k); [c * p[0] - s * p[1], s * p[0] + c * p[1], p[2]] }
        Step::R3(b, k) => { let (s, c) = sc(b, k); let ax = [q(AXIS[0], 3), q(AXIS[1], 3), q(AXIS[2], 3)]; mvec(&rodrigues(&ax, c, s), &p) }
        _ => unreachable!(),
    }
}
/// textbook 4x4 matrix of a step (translation in the last column, linear part from apply3 on the basis)
fn mat4_of(st: Step) -> A<X, 4> {
    let mut m = ident::<X, 4>();
    for j in 0..3 { let mut e = [qi(0); 3]; e[j] = qi(1); let c = apply3(st, e, qi(0)); for i in 0..3 { m[i][j] = c[i]; } }
    let t = apply3(st, [qi(0); 3], qi(1)); for i in 0..3 { m[i][3] = t[i]; }
    m
}
/// Mat3 steps: homogeneous 2D translation, 3D scaling and rotations of the 3x3 matrix
fn mat3_of(st: Step) -> A<X, 3> {
    match st {
        Step::T2(a, b) => { let mut m = ident::<X, 3>(); m[0][2] = xi(a as i64); m[1][2] = xi(b as i64); m }
        _ => { let mut m = ident::<X, 3>(); for j in 0..3 { let mut e = [qi(0); 3]; e[j] = qi(1); let c = apply3(st, e, qi(0)); for i in 0..3 { m[i][j] = c[i]; } } m }
    }
}
fn mat2_of(st: Step) -> A<X, 2> {
    match st {
        Step::S2(a, b, d) => [[q(a as i128, d as i128), qi(0)], [qi(0), q(b as i128, d as i128)]],
        Step::ShX(k) => [[qi(1), xi(k as i64)], [qi(0), qi(1)]], // x += k*y
        Step::ShY(k) => [[qi(1), qi(0)], [xi(k as i64), qi(1)]], // y += k*x
        Step::RZ(b, k) => { let (s, c) = sc(b, k); [[c, -s], [s, c]] }
        _ => unreachable!(),
    }
}
fn apply2(st: Step, p: [X; 2]) -> [X; 2] { mvec(&mat2_of(st), &p) }

const ACTS4: [Step; 11] = [Step::T2(3, -1), Step::T3(1, 2, 3), Step::T3(-2, 0, 5), Step::S3(2, 1, 3, 1), Step::S3(1, -3, 1, 2), Step::RX(0, 1), Step::RY(0, 1), Step::RZ(1, 2), Step::RX(1, -1), Step::RZ(0, 3), Step::R3(0, 1)];
const ACTS3: [Step; 8] = [Step::T2(3, -1), Step::T2(-2, 5), Step::S3(2, 1, 3, 1), Step::S3(1, -3, 1, 2), Step::RX(0, 1), Step::RY(1, 2), Step::RZ(0, 1), Step::R3(1, 1)];
const ACTS2: [Step; 7] = [Step::S2(2, 3, 1), Step::S2(-1, 1, 2), Step::ShX(2), Step::ShY(-3), Step::ShX(-1), Step::RZ(0, 1), Step::RZ(1, -2)];

#[derive(Clone, Debug, PartialEq, Eq, Hash)]
enum St {
    C4 { steps: Vec<Step>, model: A<X, 4>, r: rm::Mat4<X>, c: cm::Mat4<X> },
    C3 { steps: Vec<Step>, model: A<X, 3>, r: rm::Mat3<X>, c: cm::Mat3<X> },
    C2 { steps: Vec<Step>, model: A<X, 2>, r: rm::Mat2<X>, c: cm::Mat2<X> },
    Bad { class: &'static str, site: String, detail: String },
}

macro_rules! real_step4 { ($m:expr, $st:expr, $M:ident) => {{
    let m = $m; let _ = bases();
    // returning form and in-place twin
    let (ret, inpl): ($M<X>, $M<X>) = match $st {
        Step::T2(a, b) => { let v = Vec2 { x: xi(a as i64), y: xi(b as i64) }; let mut t = m; t.translate_2d(v); (m.translated_2d(v), t) }
        Step::T3(a, b, c) => { let v = Vec3 { x: xi(a as i64), y: xi(b as i64), z: xi(c as i64) }; let mut t = m; t.translate_3d(v); (m.translated_3d(v), t) }
        Step::S3(a, b, c, d) => { let v = Vec3 { x: q(a as i128, d as i128), y: q(b as i128, d as i128), z: q(c as i128, d as i128) }; let mut t = m; t.scale_3d(v); (m.scaled_3d(v), t) }
        Step::RX(b, k) => { let mut t = m; t.rotate_x(tok(b, k)); (m.rotated_x(tok(b, k)), t) }
        Step::RY(b, k) => { let mut t = m; t.rotate_y(tok(b, k)); (m.rotated_y(tok(b, k)), t) }
        Step::RZ(b, k) => { let mut t = m; t.rotate_z(tok(b, k)); (m.rotated_z(tok(b, k)), t) }
        Step::R3(b, k) => { let ax = Vec3 { x: xi(AXIS[0] as i64), y: xi(AXIS[1] as i64), z: xi(AXIS[2] as i64) }; let mut t = m; t.rotate_3d(tok(b, k), ax); (m.rotated_3d(tok(b, k), ax), t) }
        _ => unreachable!(),
    };
    (ret, inpl)
}} }
macro_rules! real_step3 { ($m:expr, $st:expr, $M:ident) => {{
    let m = $m; let _ = bases();
    let (ret, inpl): ($M<X>, $M<X>) = match $st {
        Step::T2(a, b) => { let v = Vec2 { x: xi(a as i64), y: xi(b as i64) }; let mut t = m; t.translate_2d(v); (m.translated_2d(v), t) }
        Step::S3(a, b, c, d) => { let v = Vec3 { x: q(a as i128, d as i128), y: q(b as i128, d as i128), z: q(c as i128, d as i128) }; let mut t = m; t.scale_3d(v); (m.scaled_3d(v), t) }
        Step::RX(b, k) => { let mut t = m; t.rotate_x(tok(b, k)); (m.rotated_x(tok(b, k)), t) }
        Step::RY(b, k) => { let mut t = m; t.rotate_y(tok(b, k)); (m.rotated_y(tok(b, k)), t) }
        Step::RZ(b, k) => { let mut t = m; t.rotate_z(tok(b, k)); (m.rotated_z(tok(b, k)), t) }
        Step::R3(b, k) => { let ax = Vec3 { x: xi(AXIS[0] as i64), y: xi(AXIS[1] as i64), z: xi(AXIS[2] as i64) }; let mut t = m; t.rotate_3d(tok(b, k), ax); (m.rotated_3d(tok(b, k), ax), t) }
        _ => unreachable!(),
    };
    (ret, inpl)
}} }
macro_rules! real_step2 { ($m:expr, $st:expr, $M:ident) => {{
    let m = $m; let _ = bases();
    let (ret, inpl): ($M<X>, $M<X>) = match $st {
        Step::S2(a, b, d) => { let v = Vec2 { x: q(a as i128, d as i128), y: q(b as i128, d as i128) }; let mut t = m; t.scale_2d(v); (m.scaled_2d(v), t) }
        Step::ShX(k) => { let mut t = m; t.shear_x(xi(k as i64)); (m.sheared_x(xi(k as i64)), t) }
        Step::ShY(k) => { let mut t = m; t.shear_y(xi(k as i64)); (m.sheared_y(xi(k as i64)), t) }
        Step::RZ(b, k) => { let mut t = m; t.rotate_z(tok(b, k)); (m.rotated_z(tok(b, k)), t) }
        _ => unreachable!(),
    };
    (ret, inpl)
}} }

fn probes3() -> [[X; 3]; 4] { [[qi(0), qi(0), qi(0)], [qi(1), qi(0), qi(0)], [qi(2), qi(-3), qi(5)], [q(1, 2), qi(7), qi(-1)]] }
fn probes2() -> [[X; 2]; 4] { [[qi(0), qi(0)], [qi(1), qi(0)], [qi(2), qi(-3)], [q(1, 2), qi(7)]] }

fn step(s: &St, a: Step) -> St {
    let bad = |class: &'static str, site: String, detail: String| St::Bad { class, site, detail };
    match s {
        St::C4 { steps, model, r, c } => {
            use rm::Mat4 as R4; use cm::Mat4 as C4;
            let (rr, ri) = real_step4!(*r, a, R4);
            let (cr, ci) = real_step4!(*c, a, C4);
            let name = format!("Mat4 {:?}", a);
            if ri != rr || ci != cr { return bad("in-place-form-differs-from-returning-form", name, String::new()); }
            let model2 = mmul(&mat4_of(a), model);
            let mut steps2 = steps.clone(); steps2.push(a);
            if rr.decode() != model2 { return bad("chained-builder-is-not-premultiplication-by-the-constructor", format!("{} <row>", name), format!("after {:?}: got {:?} want {:?}", steps2, rr.decode(), model2)); }
            if cr.decode() != model2 { return bad("chained-builder-is-not-premultiplication-by-the-constructor", format!("{} <col>", name), format!("after {:?}: got {:?} want {:?}", steps2, cr.decode(), model2)); }
            for p in probes3() {
                let mut w = p; for st in &steps2 { w = apply3(*st, w, qi(1)); }
                let mut wd = p; for st in &steps2 { wd = apply3(*st, wd, qi(0)); }
                let pv = Vec3 { x: p[0], y: p[1], z: p[2] };
                let (g1, g2) = (rr.mul_point(pv), cr.mul_point(pv));
                if dv3(&g1) != w || dv3(&g2) != w { return bad("chain-does-not-apply-steps-in-call-order", format!("{} mul_point", name), format!("steps {:?} point {:?}: got {:?}/{:?} want {:?}", steps2, p, g1, g2, w)); }
                let (d1, d2) = (rr.mul_direction(pv), cr.mul_direction(pv));
                if dv3(&d1) != wd || dv3(&d2) != wd { return bad("chain-does-not-apply-steps-in-call-order", format!("{} mul_direction", name), format!("steps {:?} direction {:?}: got {:?}/{:?} want {:?}", steps2, p, d1, d2, wd)); }
            }
            St::C4 { steps: steps2, model: model2, r: rr, c: cr }
        }
        St::C3 { steps, model, r, c } => {
            use rm::Mat3 as R3; use cm::Mat3 as C3;
            let (rr, ri) = real_step3!(*r, a, R3);
            let (cr, ci) = real_step3!(*c, a, C3);
            let name = format!("Mat3 {:?}", a);
            if ri != rr || ci != cr { return bad("in-place-form-differs-from-returning-form", name, String::new()); }
            let model2 = mmul(&mat3_of(a), model);
            let mut steps2 = steps.clone(); steps2.push(a);
            if rr.decode() != model2 || cr.decode() != model2 { return bad("chained-builder-is-not-premultiplication-by-the-constructor", name, format!("after {:?}: got {:?}/{:?} want {:?}", steps2, rr.decode(), cr.decode(), model2)); }
            for p in probes2() {
                // homogeneous 2D reading: point (x,y,1), direction (x,y,0), mapped by the whole 3x3 product
                let hp = mvec(&model2, &[p[0], p[1], qi(1)]); let hd = mvec(&model2, &[p[0], p[1], qi(0)]);
                let pv = Vec2 { x: p[0], y: p[1] };
                let (g1, g2) = (rr.mul_point_2d(pv), cr.mul_point_2d(pv));
                if dv2(&g1) != [hp[0], hp[1]] || dv2(&g2) != [hp[0], hp[1]] { return bad("mul_point_2d-is-not-the-w=1-product", name.clone(), format!("steps {:?} point {:?}", steps2, p)); }
                let (d1, d2) = (rr.mul_direction_2d(pv), cr.mul_direction_2d(pv));
                if dv2(&d1) != [hd[0], hd[1]] || dv2(&d2) != [hd[0], hd[1]] { return bad("mul_direction_2d-is-not-the-w=0-product", name.clone(), format!("steps {:?} direction {:?}", steps2, p)); }
            }
            for p in probes3() { // as a 3D linear map: steps applied one after the other (2D translations act as shears of z)
                let mut w = p; for st in &steps2 { w = mvec(&mat3_of(*st), &w); }
                let pv = Vec3 { x: p[0], y: p[1], z: p[2] };
                if dv3(&(rr * pv)) != w || dv3(&(cr * pv)) != w { return bad("chain-does-not-apply-steps-in-call-order", name.clone(), format!("steps {:?} vector {:?}", steps2, p)); }
            }
            St::C3 { steps: steps2, model: model2, r: rr, c: cr }
        }
        St::C2 { steps, model, r, c } => {
            use rm::Mat2 as R2; use cm::Mat2 as C2;
            let (rr, ri) = real_step2!(*r, a, R2);
            let (cr, ci) = real_step2!(*c, a, C2);
            let name = format!("Mat2 {:?}", a);
            if ri != rr || ci != cr { return bad("in-place-form-differs-from-returning-form", name, String::new()); }
            let model2 = mmul(&mat2_of(a), model);
            let mut steps2 = steps.clone(); steps2.push(a);
            if rr.decode() != model2 || cr.decode() != model2 { return bad("chained-builder-is-not-premultiplication-by-the-constructor", name, format!("after {:?}: got {:?}/{:?} want {:?}", steps2, rr.decode(), cr.decode(), model2)); }
            for p in probes2() {
                let mut w = p; for st in &steps2 { w = apply2(*st, w); }
                let pv = Vec2 { x: p[0], y: p[1] };
                if dv2(&(rr * pv)) != w || dv2(&(cr * pv)) != w { return bad("chain-does-not-apply-steps-in-call-order", name.clone(), format!("steps {:?} vector {:?}", steps2, p)); }
            }
            St::C2 { steps: steps2, model: model2, r: rr, c: cr }
        }
        St::Bad { .. } => s.clone(),
    }
}

struct ChainModel { transitions: Arc<AtomicU64>, depth: usize }
impl Model for ChainModel {
    type State = St;
    type Action = Step;
    fn init_states(&self) -> Vec<St> {
        vec![St::C4 { steps: vec![], model: ident::<X, 4>(), r: rm::Mat4::identity(), c: cm::Mat4::identity() },
             St::C3 { steps: vec![], model: ident::<X, 3>(), r: rm::Mat3::identity(), c: cm::Mat3::identity() },
             St::C2 { steps: vec![], model: ident::<X, 2>(), r: rm::Mat2::identity(), c: cm::Mat2::identity() }]
    }
    fn actions(&self, s: &St, acts: &mut Vec<Step>) {
        match s { St::C4 { steps, .. } if steps.len() < self.depth => acts.extend(ACTS4), St::C3 { steps, .. } if steps.len() < self.depth => acts.extend(ACTS3), St::C2 { steps, .. } if steps.len() < self.depth => acts.extend(ACTS2), _ => {} }
    }
    fn next_state(&self, s: &St, a: Step) -> Option<St> {
        self.transitions.fetch_add(1, Relaxed);
        Some(match catch(|| step(s, a)) { Ok(n) => n, Err(e) => St::Bad { class: "panic-or-unmodelled", site: format!("{:?}", a), detail: format!("{:?}", e) } })
    }
    fn properties(&self) -> Vec<Property<Self>> { vec![Property::always("real chained builders equal the model and apply steps in call order", |_, s| !matches!(s, St::Bad { .. }))] }
}

// =====================================================================================================
// audit round: builders and helpers on GENERAL (non-affine, singular, unit, zero) matrices, operand forms,
// opaque-symbol routing of the constructors, long chains, wider Transform alphabets
// =====================================================================================================

/// one builder call with exact parameters (translations / scalings / shears carry their vector, rotations an angle token)
#[derive(Clone, Copy, Debug, PartialEq)]
enum Op { T2([X; 2]), T3([X; 3]), S3([X; 3]), S2([X; 2]), ShX(X), ShY(X), RX(u8, i8), RY(u8, i8), RZ(u8, i8), R3(u8, i8) }
fn op_fn(op: Op) -> &'static str {
    match op { Op::T2(_) => "translated_2d", Op::T3(_) => "translated_3d", Op::S3(_) => "scaled_3d", Op::S2(_) => "scaled_2d", Op::ShX(_) => "sheared_x", Op::ShY(_) => "sheared_y",
        Op::RX(..) => "rotated_x", Op::RY(..) => "rotated_y", Op::RZ(..) => "rotated_z", Op::R3(..) => "rotated_3d" }
}
fn op_is_degenerate(op: Op) -> bool {
    let z = qi(0);
    match op { Op::T2(v) => v.iter().all(|x| *x == z), Op::T3(v) => v.iter().all(|x| *x == z), Op::S3(v) => v.iter().any(|x| *x == z), Op::S2(v) => v.iter().any(|x| *x == z), Op::ShX(k) | Op::ShY(k) => k == z, _ => false }
}
/// textbook matrices of one builder call (written out entry by entry; rotations from the step semantics above)
fn ref4(op: Op) -> A<X, 4> {
    let mut m = ident::<X, 4>();
    match op {
        Op::T2(v) => { m[0][3] = v[0]; m[1][3] = v[1]; }
        Op::T3(v) => { for i in 0..3 { m[i][3] = v[i]; } }
        Op::S3(v) => { for i in 0..3 { m[i][i] = v[i]; } }
        Op::RX(b, k) => m = mat4_of(Step::RX(b, k)), Op::RY(b, k) => m = mat4_of(Step::RY(b, k)), Op::RZ(b, k) => m = mat4_of(Step::RZ(b, k)), Op::R3(b, k) => m = mat4_of(Step::R3(b, k)),
        _ => unreachable!(),
    }
    m
}
fn ref3(op: Op) -> A<X, 3> {
    let mut m = ident::<X, 3>();
    match op {
        Op::T2(v) => { m[0][2] = v[0]; m[1][2] = v[1]; }
        Op::S3(v) => { for i in 0..3 { m[i][i] = v[i]; } }
        Op::RX(b, k) => m = mat3_of(Step::RX(b, k)), Op::RY(b, k) => m = mat3_of(Step::RY(b, k)), Op::RZ(b, k) => m = mat3_of(Step::RZ(b, k)), Op::R3(b, k) => m = mat3_of(Step::R3(b, k)),
        _ => unreachable!(),
    }
    m
}
fn ref2(op: Op) -> A<X, 2> {
    match op {
        Op::S2(v) => [[v[0], qi(0)], [qi(0), v[1]]],
        Op::ShX(k) => [[qi(1), k], [qi(0), qi(1)]],
        Op::ShY(k) => [[qi(1), qi(0)], [k, qi(1)]],
        Op::RZ(b, k) => mat2_of(Step::RZ(b, k)),
        _ => unreachable!(),
    }
}
/// (returning form, in-place twin applied to a copy of the same prior state, REAL constructor * REAL prior state)
macro_rules! real_op4 { ($m:expr, $op:expr, $L:ident) => {{
    let m: $L::Mat4<X> = $m; let _ = bases();
    match $op {
        Op::T2(v) => { let v = Vec2 { x: v[0], y: v[1] }; let mut t = m; t.translate_2d(v); (m.translated_2d(v), t, $L::Mat4::<X>::translation_2d(v) * m) }
        Op::T3(v) => { let v = Vec3 { x: v[0], y: v[1], z: v[2] }; let mut t = m; t.translate_3d(v); (m.translated_3d(v), t, $L::Mat4::<X>::translation_3d(v) * m) }
        Op::S3(v) => { let v = Vec3 { x: v[0], y: v[1], z: v[2] }; let mut t = m; t.scale_3d(v); (m.scaled_3d(v), t, $L::Mat4::<X>::scaling_3d(v) * m) }
        Op::RX(b, k) => { let a = tok(b, k); let mut t = m; t.rotate_x(a); (m.rotated_x(a), t, $L::Mat4::<X>::rotation_x(a) * m) }
        Op::RY(b, k) => { let a = tok(b, k); let mut t = m; t.rotate_y(a); (m.rotated_y(a), t, $L::Mat4::<X>::rotation_y(a) * m) }
        Op::RZ(b, k) => { let a = tok(b, k); let mut t = m; t.rotate_z(a); (m.rotated_z(a), t, $L::Mat4::<X>::rotation_z(a) * m) }
        Op::R3(b, k) => { let a = tok(b, k); let ax = Vec3 { x: xi(AXIS[0] as i64), y: xi(AXIS[1] as i64), z: xi(AXIS[2] as i64) }; let mut t = m; t.rotate_3d(a, ax); (m.rotated_3d(a, ax), t, $L::Mat4::<X>::rotation_3d(a, ax) * m) }
        _ => unreachable!(),
    }
}} }
macro_rules! real_op3 { ($m:expr, $op:expr, $L:ident) => {{
    let m: $L::Mat3<X> = $m; let _ = bases();
    match $op {
        Op::T2(v) => { let v = Vec2 { x: v[0], y: v[1] }; let mut t = m; t.translate_2d(v); (m.translated_2d(v), t, $L::Mat3::<X>::translation_2d(v) * m) }
        Op::S3(v) => { let v = Vec3 { x: v[0], y: v[1], z: v[2] }; let mut t = m; t.scale_3d(v); (m.scaled_3d(v), t, $L::Mat3::<X>::scaling_3d(v) * m) }
        Op::RX(b, k) => { let a = tok(b, k); let mut t = m; t.rotate_x(a); (m.rotated_x(a), t, $L::Mat3::<X>::rotation_x(a) * m) }
        Op::RY(b, k) => { let a = tok(b, k); let mut t = m; t.rotate_y(a); (m.rotated_y(a), t, $L::Mat3::<X>::rotation_y(a) * m) }
        Op::RZ(b, k) => { let a = tok(b, k); let mut t = m; t.rotate_z(a); (m.rotated_z(a), t, $L::Mat3::<X>::rotation_z(a) * m) }
        Op::R3(b, k) => { let a = tok(b, k); let ax = Vec3 { x: xi(AXIS[0] as i64), y: xi(AXIS[1] as i64), z: xi(AXIS[2] as i64) }; let mut t = m; t.rotate_3d(a, ax); (m.rotated_3d(a, ax), t, $L::Mat3::<X>::rotation_3d(a, ax) * m) }
        _ => unreachable!(),
    }
}} }
macro_rules! real_op2 { ($m:expr, $op:expr, $L:ident) => {{
    let m: $L::Mat2<X> = $m; let _ = bases();
    match $op {
        Op::S2(v) => { let v = Vec2 { x: v[0], y: v[1] }; let mut t = m; t.scale_2d(v); (m.scaled_2d(v), t, $L::Mat2::<X>::scaling_2d(v) * m) }
        Op::ShX(k) => { let mut t = m; t.shear_x(k); (m.sheared_x(k), t, $L::Mat2::<X>::shearing_x(k) * m) }
        Op::ShY(k) => { let mut t = m; t.shear_y(k); (m.sheared_y(k), t, $L::Mat2::<X>::shearing_y(k) * m) }
        Op::RZ(b, k) => { let a = tok(b, k); let mut t = m; t.rotate_z(a); (m.rotated_z(a), t, $L::Mat2::<X>::rotation_z(a) * m) }
        _ => unreachable!(),
    }
}} }

const W1: &str = "helper-is-not-the-w=1-product";
const W0: &str = "helper-is-not-the-w=0-product";
const MV: &str = "matrix-times-vector-is-not-the-product";
/// (helper name, violation class, decoded result, the homogeneous input vector the property prescribes);
/// the result is compared with the leading components of  reference_matrix * input
type HelperOut<const N: usize> = Vec<(&'static str, &'static str, Vec<X>, [X; N])>;
/// probe = (x, y, z, junk): the junk last coordinate is handed to the wide operand forms and must be ignored
macro_rules! helper4 { ($L:ident) => { |m: &$L::Mat4<X>, p: &[X; 4]| -> HelperOut<4> {
    let m = *m;
    let (a3, a4, a2) = (Vec3 { x: p[0], y: p[1], z: p[2] }, Vec4 { x: p[0], y: p[1], z: p[2], w: p[3] }, Vec2 { x: p[0], y: p[1] });
    let (pt, dr) = ([p[0], p[1], p[2], qi(1)], [p[0], p[1], p[2], qi(0)]);
    vec![("mul_point<Vec3>", W1, dv3(&m.mul_point(a3)).to_vec(), pt), ("mul_point<Vec4>", W1, dv4(&m.mul_point(a4)).to_vec(), pt),
         ("mul_point<Vec2>", W1, dv2(&m.mul_point(a2)).to_vec(), [p[0], p[1], qi(0), qi(1)]),
         ("mul_direction<Vec3>", W0, dv3(&m.mul_direction(a3)).to_vec(), dr), ("mul_direction<Vec4>", W0, dv4(&m.mul_direction(a4)).to_vec(), dr),
         ("mul_direction<Vec2>", W0, dv2(&m.mul_direction(a2)).to_vec(), [p[0], p[1], qi(0), qi(0)])]
} } }
/// probe = (x, y, junk)
macro_rules! helper3 { ($L:ident) => { |m: &$L::Mat3<X>, p: &[X; 3]| -> HelperOut<3> {
    let m = *m;
    let (a2, a3) = (Vec2 { x: p[0], y: p[1] }, Vec3 { x: p[0], y: p[1], z: p[2] });
    let (pt, dr) = ([p[0], p[1], qi(1)], [p[0], p[1], qi(0)]);
    vec![("mul_point_2d<Vec2>", W1, dv2(&m.mul_point_2d(a2)).to_vec(), pt), ("mul_point_2d<Vec3>", W1, dv3(&m.mul_point_2d(a3)).to_vec(), pt),
         ("mul_direction_2d<Vec2>", W0, dv2(&m.mul_direction_2d(a2)).to_vec(), dr), ("mul_direction_2d<Vec3>", W0, dv3(&m.mul_direction_2d(a3)).to_vec(), dr),
         ("mul<Vec3>", MV, dv3(&(m * a3)).to_vec(), *p)]
} } }
macro_rules! helper2 { ($L:ident) => { |m: &$L::Mat2<X>, p: &[X; 2]| -> HelperOut<2> {
    vec![("mul<Vec2>", MV, dv2(&(*m * Vec2 { x: p[0], y: p[1] })).to_vec(), *p)]
} } }

struct Gen<'a, M, const N: usize> {
    ty: String, ops: &'a [Op], refn: fn(Op) -> A<X, N>,
    real: &'a dyn Fn(M, Op) -> (M, M, M), helper: &'a dyn Fn(&M, &[X; N]) -> HelperOut<N>,
    probes: &'a [[X; N]], start: A<X, N>, start_weight: u64,
}
/// every call sequence over `ops` up to `maxlen`, starting from `g.start`: after every call the returning form is compared with
/// (1) textbook constructor * reference prior state, (2) the REAL constructor * the REAL prior state, (3) the in-place twin run on a
/// copy of the same (non-trivial) prior state; and the point/direction helpers on every reached matrix with the w=1 / w=0 products
fn gen_dfs<const N: usize, M: Copy + PartialEq + std::fmt::Debug + MatIO<X, N>>(s: &Section, g: &Gen<M, N>, maxlen: usize, state: M, model: &A<X, N>, steps: &mut Vec<Op>, n: &mut u64) {
    let wgt = g.start_weight + 1000 * steps.len() as u64;
    let inp = |steps: &Vec<Op>| json!({"start": jmat(&g.start), "calls": jd(steps)});
    for p in g.probes {
        match catch(|| (g.helper)(&state, p)) {
            Ok(list) => for (name, class, got, hom) in list {
                *n += 1;
                let want = mvec(model, &hom);
                if got[..] != want[..got.len()] { s.violation_w(&format!("{}::{} on a general matrix", g.ty, name), class, json!({"matrix": jmat(model), "reached_by": inp(steps), "operand": jxs(p), "got": jxs(&got), "want": jxs(&want[..got.len()])}), wgt); }
            },
            Err(Caught::Unmodelled(w)) => s.unmodelled(w),
            Err(Caught::Panic(m)) => s.violation_w(&format!("{} helpers on a general matrix", g.ty), "panic", json!({"reached_by": inp(steps), "operand": jxs(p), "panic": m}), wgt),
        }
    }
    if steps.len() >= maxlen { return; }
    for &op in g.ops {
        let site = format!("{}::{} on a general matrix", g.ty, op_fn(op));
        *n += 1;
        match catch(|| (g.real)(state, op)) {
            Ok((ret, inpl, ctm)) => {
                let model2 = mmul(&(g.refn)(op), model);
                steps.push(op);
                let mut ok = true;
                if ret.decode() != model2 { ok = false; s.violation_w(&site, "chained-builder-is-not-premultiplication-by-the-constructor", json!({"input": inp(steps), "got": jmat(&ret.decode()), "want": jmat(&model2)}), wgt); }
                if ret != ctm { ok = false; s.violation_w(&site, "returning-form-differs-from-real-constructor-times-self", json!({"input": inp(steps), "returning": jmat(&ret.decode()), "constructor*self": jmat(&ctm.decode())}), wgt); }
                if inpl != ret { ok = false; s.violation_w(&site, "in-place-form-differs-from-returning-form", json!({"input": inp(steps), "returning": jmat(&ret.decode()), "in_place": jmat(&inpl.decode())}), wgt); }
                if ok { gen_dfs(s, g, maxlen, ret, &model2, steps, n); }
                steps.pop();
            }
            Err(Caught::Unmodelled(w)) => s.unmodelled(w),
            Err(Caught::Panic(m)) => s.violation_w(&site, "panic", json!({"input": inp(steps), "op": jd(&op), "panic": m}), wgt),
        }
    }
}
fn units<const N: usize>() -> Vec<A<X, N>> { let mut v = Vec::new(); for i in 0..N { for j in 0..N { let mut m = zeros::<X, N>(); m[i][j] = qi(1); v.push(m); } } v }
fn gcd_us(a: usize, b: usize) -> usize { if b == 0 { a } else { gcd_us(b, a % b) } }

const ORDER_CLASS: &str = "scales-after-rotating(T*S*R)-instead-of-before(T*R*S)";
/// one Transform -> Mat4 conversion, both layouts, against position + R(scale . p); same sites/classes as the first Transform section
fn transform_case(s: &Section, pos: &[X; 3], quat: Quaternion<X>, r3: &A<X, 3>, sc: &[X; 3], probes: &[[X; 3]], weight: u64, nontrivial: bool) {
    let t = Transform { position: Vec3 { x: pos[0], y: pos[1], z: pos[2] }, orientation: quat, scale: Vec3 { x: sc[0], y: sc[1], z: sc[2] } };
    let inp = || json!({"position": jxs(pos), "orientation(x,y,z,w)": jxs(&[quat.x, quat.y, quat.z, quat.w]), "scale": jxs(sc)});
    for (lay, got) in [("row", s.call("from(Transform)", inp, || rm::Mat4::<X>::from(t).decode())), ("col", s.call("from(Transform)", inp, || cm::Mat4::<X>::from(t).decode()))] {
        s.eval(nontrivial);
        let Some(m) = got else { continue };
        if m[3] != [qi(0), qi(0), qi(0), qi(1)] { s.violation_w(&format!("Mat4<{}>::from(Transform)", lay), "last-row-is-not-(0,0,0,1)", json!({"input": inp(), "got": jmat(&m)}), weight); continue; }
        for p in probes {
            let sp = [sc[0] * p[0], sc[1] * p[1], sc[2] * p[2]];
            let rp = mvec(r3, &sp);
            let want = [pos[0] + rp[0], pos[1] + rp[1], pos[2] + rp[2], qi(1)];
            let g = mvec(&m, &[p[0], p[1], p[2], qi(1)]);
            if g != want {
                let rp2 = mvec(r3, p); let alt = [pos[0] + sc[0] * rp2[0], pos[1] + sc[1] * rp2[1], pos[2] + sc[2] * rp2[2], qi(1)];
                let class = if g == alt { ORDER_CLASS } else { "not-position+orientation*(scale.p)" };
                s.violation_w(&format!("Mat4<{}>::from(Transform)", lay), class, json!({"input": inp(), "p": jxs(p), "got": jxs(&g), "want": jxs(&want)}), weight);
                if class == ORDER_CLASS { continue; } else { break; }
            }
        }
    }
}

// =====================================================================================================
// second audit round: special values (tiny / huge / nearly-unit / nearly-affine) in exact arithmetic, and the same
// builders, twins and helpers instantiated for f32 and f64 with oracles computed EXACTLY from the floats' values
// =====================================================================================================

/// exact fixed-point integers for float oracles: 768-bit two's complement, unit 2^-400
const BW: usize = 12;
const BUNIT: i32 = 400;
#[derive(Clone, Copy, PartialEq, Eq, Debug)]
struct Big([u64; BW]);
impl Big {
    const ZERO: Big = Big([0; BW]);
    fn is_neg(&self) -> bool { self.0[BW - 1] >> 63 == 1 }
    fn neg(self) -> Big { let mut o = [0u64; BW]; let mut c = true; for i in 0..BW { let (v, c2) = (!self.0[i]).overflowing_add(c as u64); o[i] = v; c = c2; } Big(o) }
    fn add(self, b: Big) -> Big { let mut o = [0u64; BW]; let mut c = 0u128; for i in 0..BW { let t = self.0[i] as u128 + b.0[i] as u128 + c; o[i] = t as u64; c = t >> 64; } Big(o) }
    fn sub(self, b: Big) -> Big { self.add(b.neg()) }
    fn abs(self) -> Big { if self.is_neg() { self.neg() } else { self } }
    /// signed self <= b
    fn le(&self, b: &Big) -> bool {
        match (self.is_neg(), b.is_neg()) { (true, false) => true, (false, true) => false, _ => { for i in (0..BW).rev() { if self.0[i] != b.0[i] { return self.0[i] < b.0[i]; } } true } }
    }
    /// number of significant bits of a non-negative value
    fn bits(&self) -> u32 { for i in (0..BW).rev() { if self.0[i] != 0 { return 64 * i as u32 + 64 - self.0[i].leading_zeros(); } } 0 }
    /// non-negative self times k; None past the top of the window
    fn mul_u64(self, k: u64) -> Option<Big> { let mut o = [0u64; BW]; let mut c = 0u128; for i in 0..BW { let t = self.0[i] as u128 * k as u128 + c; o[i] = t as u64; c = t >> 64; } if c != 0 || o[BW - 1] >> 62 != 0 { None } else { Some(Big(o)) } }
    fn shl(self, n: u32) -> Option<Big> {
        if self.bits() + n > 64 * BW as u32 - 2 { return None; }
        let (l, b) = ((n / 64) as usize, n % 64); let mut o = [0u64; BW];
        for i in (l..BW).rev() { o[i] = self.0[i - l] << b; if b > 0 && i > l { o[i] |= self.0[i - l - 1] >> (64 - b); } }
        Some(Big(o))
    }
    /// exact right shift of a non-negative value: None if a set bit would be lost
    fn shr_exact(self, n: u32) -> Option<Big> {
        let (l, b) = ((n / 64) as usize, n % 64); if l >= BW { return if self == Big::ZERO { Some(self) } else { None }; }
        for i in 0..l { if self.0[i] != 0 { return None; } }
        if b > 0 && self.0[l] & ((1u64 << b) - 1) != 0 { return None; }
        let mut o = [0u64; BW];
        for i in 0..BW - l { o[i] = self.0[i + l] >> b; if b > 0 && i + l + 1 < BW { o[i] |= self.0[i + l + 1] << (64 - b); } }
        Some(Big(o))
    }
    fn pow2(e: i32) -> Big { bprod(&[1.0]).unwrap().shl_signed(e) }
    fn shl_signed(self, e: i32) -> Big { if e >= 0 { self.shl(e as u32).unwrap() } else { self.shr_exact((-e) as u32).unwrap() } }
}
/// finite v = (-1)^neg * mant * 2^e
fn fparts(v: f64) -> (bool, u64, i32) {
    let b = v.to_bits(); let (neg, ex, fr) = (b >> 63 == 1, ((b >> 52) & 0x7ff) as i32, b & ((1u64 << 52) - 1));
    if ex == 0 { (neg, fr, -1074) } else { (neg, fr | 1 << 52, ex - 1075) }
}
/// the exact product of finite floats (None outside the 2^-400 .. 2^366 window)
fn bprod(fs: &[f64]) -> Option<Big> {
    let mut acc = Big::ZERO; acc.0[0] = 1; let (mut e, mut neg) = (0i32, false);
    for &f in fs { if !f.is_finite() { return None; } let (n, m, ex) = fparts(f); if m == 0 { return Some(Big::ZERO); } let tz = m.trailing_zeros(); acc = acc.mul_u64(m >> tz)?; e += ex + tz as i32; neg ^= n; }
    let sh = e + BUNIT; let r = if sh >= 0 { acc.shl(sh as u32)? } else { acc.shr_exact((-sh) as u32)? };
    Some(if neg { r.neg() } else { r })
}
/// magnitude policy of the float oracles: every non-zero exact term and the sum of their absolute values must lie inside
/// [2^-115, 2^110] for f32 (p = 24) and [2^-300, 2^300] for f64 (p = 53), so no product underflows and no partial sum overflows
fn fwindow(p: u32) -> (Big, Big) { if p == 24 { (Big::pow2(-115), Big::pow2(110)) } else { (Big::pow2(-300), Big::pow2(300)) } }
/// Some(true) iff |got - sum(terms)| <= gamma_n * sum|terms| with gamma_n = n u / (1 - n u), u = 2^-p: the forward error bound of
/// ANY evaluation of the sum in which every term passes through at most n roundings (fused or not, any order); None = outside the policy window
fn terms_ok(terms: impl Iterator<Item = Option<Big>>, got: f64, n: u64, p: u32, win: &(Big, Big)) -> Option<bool> {
    let (mut sum, mut sabs) = (Big::ZERO, Big::ZERO);
    for t in terms { let t = t?; let a = t.abs(); if a != Big::ZERO && !win.0.le(&a) { return None; } sum = sum.add(t); sabs = sabs.add(a); }
    if !sabs.le(&win.1) { return None; }
    if !got.is_finite() { return Some(false); }
    let g = match bprod(&[got]) { Some(g) => g, None => return if got.abs() > 1.0 { Some(false) } else { None } };
    let d = g.sub(sum).abs();
    match (d.mul_u64((1u64 << p) - n), sabs.mul_u64(n)) { (Some(l), Some(r)) => Some(l.le(&r)), (None, Some(_)) => Some(false), _ => None }
}
fn dot_ok(a: &[f64], b: &[f64], got: f64, p: u32, win: &(Big, Big)) -> Option<bool> { terms_ok((0..a.len()).map(|k| bprod(&[a[k], b[k]])), got, a.len() as u64, p, win) }

trait Fl: Copy + 'static { const P: u32; const NAME: &'static str; fn wide(self) -> f64; fn narrow(v: f64) -> Self; }
impl Fl for f32 { const P: u32 = 24; const NAME: &'static str = "f32"; fn wide(self) -> f64 { self as f64 } fn narrow(v: f64) -> f32 { v as f32 } }
impl Fl for f64 { const P: u32 = 53; const NAME: &'static str = "f64"; fn wide(self) -> f64 { self } fn narrow(v: f64) -> f64 { v } }
fn widen<F: Fl, const N: usize>(a: &A<F, N>) -> A<f64, N> { let mut o = [[0.0; N]; N]; for i in 0..N { for j in 0..N { o[i][j] = a[i][j].wide(); } } o }
fn narrow<F: Fl, const N: usize>(a: &A<f64, N>) -> A<F, N> { let mut o = [[F::narrow(0.0); N]; N]; for i in 0..N { for j in 0..N { o[i][j] = F::narrow(a[i][j]); } } o }
fn bits_eq<const N: usize>(a: &A<f64, N>, b: &A<f64, N>) -> bool { (0..N).all(|i| (0..N).all(|j| a[i][j].to_bits() == b[i][j].to_bits())) }

/// one builder call on floats; parameters are stored as f64 and are exactly representable in the element type under test
#[derive(Clone, Copy, Debug, PartialEq)]
enum FOp { T2([f64; 2]), T3([f64; 3]), S3([f64; 3]), S2([f64; 2]), ShX(f64), ShY(f64), RX(f64), RY(f64), RZ(f64), R3(f64) }
fn fop_fn(op: FOp) -> &'static str {
    match op { FOp::T2(_) => "translated_2d", FOp::T3(_) => "translated_3d", FOp::S3(_) => "scaled_3d", FOp::S2(_) => "scaled_2d", FOp::ShX(_) => "sheared_x", FOp::ShY(_) => "sheared_y",
        FOp::RX(_) => "rotated_x", FOp::RY(_) => "rotated_y", FOp::RZ(_) => "rotated_z", FOp::R3(_) => "rotated_3d" }
}
fn fop_params(op: FOp) -> Vec<f64> { match op { FOp::T2(v) | FOp::S2(v) => v.to_vec(), FOp::T3(v) | FOp::S3(v) => v.to_vec(), FOp::ShX(k) | FOp::ShY(k) | FOp::RX(k) | FOp::RY(k) | FOp::RZ(k) | FOp::R3(k) => vec![k] } }
/// textbook matrix of a translation / scaling / shear call (None for rotations: there the decoded REAL constructor is the reference factor)
fn fop_ref<const N: usize>(op: FOp) -> Option<A<f64, N>> {
    let mut m = [[0.0; N]; N]; for i in 0..N { m[i][i] = 1.0; }
    match op {
        FOp::T2(v) => { m[0][N - 1] = v[0]; m[1][N - 1] = v[1]; }
        FOp::T3(v) => { for i in 0..3 { m[i][N - 1] = v[i]; } }
        FOp::S3(v) => { for i in 0..3 { m[i][i] = v[i]; } }
        FOp::S2(v) => { for i in 0..2 { m[i][i] = v[i]; } }
        FOp::ShX(k) => m[0][1] = k, FOp::ShY(k) => m[1][0] = k,
        _ => return None,
    }
    Some(m)
}
/// (returning form, in-place twin on a copy of the same prior state, REAL constructor * REAL prior state, the REAL constructor)
macro_rules! freal4 { ($F:ty, $L:ident) => { |m: $L::Mat4<$F>, op: FOp| { type M = $L::Mat4<$F>; let f = |v: f64| v as $F;
    match op {
        FOp::T2(v) => { let v = Vec2 { x: f(v[0]), y: f(v[1]) }; let mut t = m; t.translate_2d(v); let c = M::translation_2d(v); (m.translated_2d(v), t, c * m, c) }
        FOp::T3(v) => { let v = Vec3 { x: f(v[0]), y: f(v[1]), z: f(v[2]) }; let mut t = m; t.translate_3d(v); let c = M::translation_3d(v); (m.translated_3d(v), t, c * m, c) }
        FOp::S3(v) => { let v = Vec3 { x: f(v[0]), y: f(v[1]), z: f(v[2]) }; let mut t = m; t.scale_3d(v); let c = M::scaling_3d(v); (m.scaled_3d(v), t, c * m, c) }
        FOp::RX(a) => { let a = f(a); let mut t = m; t.rotate_x(a); let c = M::rotation_x(a); (m.rotated_x(a), t, c * m, c) }
        FOp::RY(a) => { let a = f(a); let mut t = m; t.rotate_y(a); let c = M::rotation_y(a); (m.rotated_y(a), t, c * m, c) }
        FOp::RZ(a) => { let a = f(a); let mut t = m; t.rotate_z(a); let c = M::rotation_z(a); (m.rotated_z(a), t, c * m, c) }
        FOp::R3(a) => { let (a, ax) = (f(a), Vec3 { x: f(1.0), y: f(2.0), z: f(2.0) }); let mut t = m; t.rotate_3d(a, ax); let c = M::rotation_3d(a, ax); (m.rotated_3d(a, ax), t, c * m, c) }
        _ => unreachable!(),
    } } } }
macro_rules! freal3 { ($F:ty, $L:ident) => { |m: $L::Mat3<$F>, op: FOp| { type M = $L::Mat3<$F>; let f = |v: f64| v as $F;
    match op {
        FOp::T2(v) => { let v = Vec2 { x: f(v[0]), y: f(v[1]) }; let mut t = m; t.translate_2d(v); let c = M::translation_2d(v); (m.translated_2d(v), t, c * m, c) }
        FOp::S3(v) => { let v = Vec3 { x: f(v[0]), y: f(v[1]), z: f(v[2]) }; let mut t = m; t.scale_3d(v); let c = M::scaling_3d(v); (m.scaled_3d(v), t, c * m, c) }
        FOp::RX(a) => { let a = f(a); let mut t = m; t.rotate_x(a); let c = M::rotation_x(a); (m.rotated_x(a), t, c * m, c) }
        FOp::RY(a) => { let a = f(a); let mut t = m; t.rotate_y(a); let c = M::rotation_y(a); (m.rotated_y(a), t, c * m, c) }
        FOp::RZ(a) => { let a = f(a); let mut t = m; t.rotate_z(a); let c = M::rotation_z(a); (m.rotated_z(a), t, c * m, c) }
        FOp::R3(a) => { let (a, ax) = (f(a), Vec3 { x: f(1.0), y: f(2.0), z: f(2.0) }); let mut t = m; t.rotate_3d(a, ax); let c = M::rotation_3d(a, ax); (m.rotated_3d(a, ax), t, c * m, c) }
        _ => unreachable!(),
    } } } }
macro_rules! freal2 { ($F:ty, $L:ident) => { |m: $L::Mat2<$F>, op: FOp| { type M = $L::Mat2<$F>; let f = |v: f64| v as $F;
    match op {
        FOp::S2(v) => { let v = Vec2 { x: f(v[0]), y: f(v[1]) }; let mut t = m; t.scale_2d(v); let c = M::scaling_2d(v); (m.scaled_2d(v), t, c * m, c) }
        FOp::ShX(k) => { let k = f(k); let mut t = m; t.shear_x(k); let c = M::shearing_x(k); (m.sheared_x(k), t, c * m, c) }
        FOp::ShY(k) => { let k = f(k); let mut t = m; t.shear_y(k); let c = M::shearing_y(k); (m.sheared_y(k), t, c * m, c) }
        FOp::RZ(a) => { let a = f(a); let mut t = m; t.rotate_z(a); let c = M::rotation_z(a); (m.rotated_z(a), t, c * m, c) }
        _ => unreachable!(),
    } } } }
type FHelperOut<const N: usize> = Vec<(&'static str, &'static str, Vec<f64>, [f64; N])>;
macro_rules! fhelper4 { ($F:ty, $L:ident) => { |m: &$L::Mat4<$F>, p: &[f64; 4]| -> FHelperOut<4> {
    let m = *m; let f = |v: f64| v as $F; let w = |v: &[$F]| v.iter().map(|x| *x as f64).collect::<Vec<f64>>();
    let (a3, a4, a2) = (Vec3 { x: f(p[0]), y: f(p[1]), z: f(p[2]) }, Vec4 { x: f(p[0]), y: f(p[1]), z: f(p[2]), w: f(p[3]) }, Vec2 { x: f(p[0]), y: f(p[1]) });
    let (pt, dr) = ([p[0], p[1], p[2], 1.0], [p[0], p[1], p[2], 0.0]);
    vec![("mul_point<Vec3>", W1, w(&dv3(&m.mul_point(a3))), pt), ("mul_point<Vec4>", W1, w(&dv4(&m.mul_point(a4))), pt), ("mul_point<Vec2>", W1, w(&dv2(&m.mul_point(a2))), [p[0], p[1], 0.0, 1.0]),
         ("mul_direction<Vec3>", W0, w(&dv3(&m.mul_direction(a3))), dr), ("mul_direction<Vec4>", W0, w(&dv4(&m.mul_direction(a4))), dr), ("mul_direction<Vec2>", W0, w(&dv2(&m.mul_direction(a2))), [p[0], p[1], 0.0, 0.0])]
} } }
macro_rules! fhelper3 { ($F:ty, $L:ident) => { |m: &$L::Mat3<$F>, p: &[f64; 3]| -> FHelperOut<3> {
    let m = *m; let f = |v: f64| v as $F; let w = |v: &[$F]| v.iter().map(|x| *x as f64).collect::<Vec<f64>>();
    let (a2, a3) = (Vec2 { x: f(p[0]), y: f(p[1]) }, Vec3 { x: f(p[0]), y: f(p[1]), z: f(p[2]) });
    let (pt, dr) = ([p[0], p[1], 1.0], [p[0], p[1], 0.0]);
    vec![("mul_point_2d<Vec2>", W1, w(&dv2(&m.mul_point_2d(a2))), pt), ("mul_point_2d<Vec3>", W1, w(&dv3(&m.mul_point_2d(a3))), pt),
         ("mul_direction_2d<Vec2>", W0, w(&dv2(&m.mul_direction_2d(a2))), dr), ("mul_direction_2d<Vec3>", W0, w(&dv3(&m.mul_direction_2d(a3))), dr),
         ("mul<Vec3>", MV, w(&dv3(&(m * a3))), *p)]
} } }
macro_rules! fhelper2 { ($F:ty, $L:ident) => { |m: &$L::Mat2<$F>, p: &[f64; 2]| -> FHelperOut<2> {
    let w = |v: &[$F]| v.iter().map(|x| *x as f64).collect::<Vec<f64>>();
    vec![("mul<Vec2>", MV, w(&dv2(&(*m * Vec2 { x: p[0] as $F, y: p[1] as $F }))), *p)]
} } }
const FBOUND: &str = "chained-builder-is-not-premultiplication-by-the-constructor (beyond the forward error bound)";
struct FGen<'a, M, const N: usize> {
    ty: String, fname: &'static str, p: u32, ops: &'a [FOp], probes: &'a [[f64; N]], start_name: &'static str, start: A<f64, N>, win: (Big, Big),
    real: &'a dyn Fn(M, FOp) -> (M, M, M, M), helper: &'a dyn Fn(&M, &[f64; N]) -> FHelperOut<N>, dec: &'a dyn Fn(&M) -> A<f64, N>,
}
/// float twin of gen_dfs: cnt = [entries checked against the exact oracle, entries outside the magnitude policy, transitions]
fn fgen_dfs<const N: usize, M: Copy>(s: &Section, g: &FGen<M, N>, maxlen: usize, state: M, steps: &mut Vec<FOp>, cnt: &mut [u64; 3]) {
    let a = (g.dec)(&state);
    let wgt = 1000 * steps.len() as u64;
    let inp = |steps: &Vec<FOp>| json!({"start": g.start_name, "start_matrix": jd(&g.start), "calls": jd(steps)});
    for p in g.probes {
        match catch(|| (g.helper)(&state, p)) {
            Ok(list) => for (name, class, got, hom) in list {
                for i in 0..got.len() {
                    match dot_ok(&a[i], &hom, got[i], g.p, &g.win) {
                        None => cnt[1] += 1, Some(true) => cnt[0] += 1,
                        Some(false) => { cnt[0] += 1; s.violation_w(&format!("{}::{}<{}>", g.ty, name, g.fname), class, json!({"matrix": jd(&a), "reached_by": inp(steps), "operand": jd(p), "lane": i, "got": jd(&got), "homogeneous_input": jd(&hom)}), wgt); break; }
                    }
                }
            },
            Err(e) => s.violation_w(&format!("{} helpers<{}>", g.ty, g.fname), "panic", json!({"reached_by": inp(steps), "operand": jd(p), "panic": jd(&e)}), wgt),
        }
    }
    if steps.len() >= maxlen { return; }
    for (oi, &op) in g.ops.iter().enumerate() {
        let site = format!("{}::{}<{}>", g.ty, fop_fn(op), g.fname);
        let w = wgt + oi as u64;
        cnt[2] += 1;
        match catch(|| (g.real)(state, op)) {
            Ok((ret, twin, ctm, ctor)) => {
                let (r, t, cmr, c) = ((g.dec)(&ret), (g.dec)(&twin), (g.dec)(&ctm), (g.dec)(&ctor));
                steps.push(op);
                let mut ok = true;
                if !bits_eq(&t, &r) { ok = false; s.violation_w(&site, "in-place-form-differs-from-returning-form", json!({"input": inp(steps), "returning": jd(&r), "in_place": jd(&t)}), w); }
                if !bits_eq(&cmr, &r) { ok = false; s.violation_w(&site, "returning-form-differs-from-real-constructor-times-self", json!({"input": inp(steps), "returning": jd(&r), "constructor*self": jd(&cmr)}), w); }
                let cref = match fop_ref::<N>(op) {
                    Some(tb) => { if !bits_eq(&c, &tb) { ok = false; s.violation_w(&format!("{}::{}<{}> constructor", g.ty, fop_fn(op), g.fname), "constructor-does-not-place-the-parameter-bits", json!({"op": jd(&op), "got": jd(&c), "want": jd(&tb)}), w); } tb }
                    None => c,
                };
                'e: for i in 0..N { for j in 0..N {
                    let col: [f64; N] = std::array::from_fn(|k| a[k][j]);
                    match dot_ok(&cref[i], &col, r[i][j], g.p, &g.win) {
                        None => cnt[1] += 1, Some(true) => cnt[0] += 1,
                        Some(false) => { cnt[0] += 1; ok = false; s.violation_w(&site, FBOUND, json!({"input": inp(steps), "prior": jd(&a), "constructor": jd(&cref), "entry": [i, j], "got": r[i][j], "returning": jd(&r)}), w); break 'e; }
                    }
                } }
                if ok { fgen_dfs(s, g, maxlen, ret, steps, cnt); }
                steps.pop();
            }
            Err(e) => s.violation_w(&site, "panic", json!({"input": inp(steps), "op": jd(&op), "panic": jd(&e)}), w),
        }
    }
}
/// terms (products of floats) of the entries of the rotation p -> p + 2w(u x p) + 2u x (u x p), u = (x,y,z), of a unit quaternion
fn quat_terms(q: &[f64; 4]) -> [[Vec<Vec<f64>>; 3]; 3] {
    let (x, y, z, w) = (q[0], q[1], q[2], q[3]);
    [[vec![vec![1.0], vec![-2.0, y, y], vec![-2.0, z, z]], vec![vec![2.0, x, y], vec![-2.0, z, w]], vec![vec![2.0, x, z], vec![2.0, y, w]]],
     [vec![vec![2.0, x, y], vec![2.0, z, w]], vec![vec![1.0], vec![-2.0, x, x], vec![-2.0, z, z]], vec![vec![2.0, y, z], vec![-2.0, x, w]]],
     [vec![vec![2.0, x, z], vec![-2.0, y, w]], vec![vec![2.0, y, z], vec![2.0, x, w]], vec![vec![1.0], vec![-2.0, x, x], vec![-2.0, y, y]]]]
}

fn main() {
    let rep = Report::start("C07", "model_checking");
    let extra = if rep.thorough() { 2 } else { 1 };
    let mut lk = json!({"states": 1, "transitions": 1, "traces_validated_against_impl": 1});

    rep.section("constructors act on points by their definitions (lattice, exact)",
        "L(6, 2+extra): translation vector t and point p (3+3 coordinates; Mat4 translation_3d/translation_2d, Mat3 translation_2d), scale vector and point (scaling_3d on Mat3/Mat4, scaling_2d on Mat2), shear factor and point (Mat2 shearing_x/y): decoded matrix applied with the reference product moves points by t / multiplies per axis / adds k times the other coordinate, leaves directions alone, and the real mul_point/mul_direction(_2d) equal the w=1 / w=0 products; both layouts; non-trivial: parameter and point non-zero", true, true, |s| {
        par_lattice(6, 2 + extra, |a| {
            let v: [X; 3] = [xi(a[0]) - qi(1), xi(a[1]), xi(a[2]) - qi(2)];
            let p: [X; 3] = [xi(a[3]), xi(a[4]) - qi(1), xi(a[5])];
            let nz = a[..3].iter().any(|&x| x != 0) && a[3..].iter().any(|&x| x != 0);
            let w = a.iter().sum::<i64>() as u64;
            let inp = || json!({"param": jxs(&v), "point": jxs(&p)});
            let (v3, v2, p3, p2) = (Vec3 { x: v[0], y: v[1], z: v[2] }, Vec2 { x: v[0], y: v[1] }, Vec3 { x: p[0], y: p[1], z: p[2] }, Vec2 { x: p[0], y: p[1] });
            macro_rules! chk { ($site:expr, $got:expr, $want:expr) => {{ s.eval(nz); if let Some(g) = $got { if g != $want { s.violation_w($site, "does-not-act-as-defined", json!({"input": inp(), "got": jd(&g), "want": jd(&$want)}), w); } } }} }
            macro_rules! mat4 { ($L:ident, $lay:expr) => {{
                let t3 = s.call("translation_3d", inp, || $L::Mat4::<X>::translation_3d(v3));
                if let Some(m) = t3 { let d = m.decode();
                    chk!(&format!("Mat4<{}>::translation_3d point", $lay), Some(mvec(&d, &[p[0], p[1], p[2], qi(1)])), [p[0] + v[0], p[1] + v[1], p[2] + v[2], qi(1)]);
                    chk!(&format!("Mat4<{}>::translation_3d direction", $lay), Some(mvec(&d, &[p[0], p[1], p[2], qi(0)])), [p[0], p[1], p[2], qi(0)]);
                    chk!(&format!("Mat4<{}>::mul_point", $lay), s.call("mul_point", inp, || dv3(&m.mul_point(p3))), [p[0] + v[0], p[1] + v[1], p[2] + v[2]]);
                    chk!(&format!("Mat4<{}>::mul_direction", $lay), s.call("mul_direction", inp, || dv3(&m.mul_direction(p3))), p);
                }
                if let Some(m) = s.call("translation_2d", inp, || $L::Mat4::<X>::translation_2d(v2)) { chk!(&format!("Mat4<{}>::translation_2d point", $lay), Some(mvec(&m.decode(), &[p[0], p[1], p[2], qi(1)])), [p[0] + v[0], p[1] + v[1], p[2], qi(1)]); }
                if let Some(m) = s.call("scaling_3d", inp, || $L::Mat4::<X>::scaling_3d(v3)) { chk!(&format!("Mat4<{}>::scaling_3d", $lay), Some(mvec(&m.decode(), &[p[0], p[1], p[2], qi(1)])), [p[0] * v[0], p[1] * v[1], p[2] * v[2], qi(1)]); }
                if let Some(m) = s.call("translation_2d", inp, || $L::Mat3::<X>::translation_2d(v2)) { let d = m.decode();
                    chk!(&format!("Mat3<{}>::translation_2d point", $lay), Some(mvec(&d, &[p[0], p[1], qi(1)])), [p[0] + v[0], p[1] + v[1], qi(1)]);
                    chk!(&format!("Mat3<{}>::translation_2d direction", $lay), Some(mvec(&d, &[p[0], p[1], qi(0)])), [p[0], p[1], qi(0)]);
                    chk!(&format!("Mat3<{}>::mul_point_2d", $lay), s.call("mul_point_2d", inp, || dv2(&m.mul_point_2d(p2))), [p[0] + v[0], p[1] + v[1]]);
                    chk!(&format!("Mat3<{}>::mul_direction_2d", $lay), s.call("mul_direction_2d", inp, || dv2(&m.mul_direction_2d(p2))), [p[0], p[1]]);
                }
                if let Some(m) = s.call("scaling_3d", inp, || $L::Mat3::<X>::scaling_3d(v3)) { chk!(&format!("Mat3<{}>::scaling_3d", $lay), Some(mvec(&m.decode(), &p)), [p[0] * v[0], p[1] * v[1], p[2] * v[2]]); }
                if let Some(m) = s.call("scaling_2d", inp, || $L::Mat2::<X>::scaling_2d(v2)) { chk!(&format!("Mat2<{}>::scaling_2d", $lay), Some(mvec(&m.decode(), &[p[0], p[1]])), [p[0] * v[0], p[1] * v[1]]); }
                if let Some(m) = s.call("shearing_x", inp, || $L::Mat2::<X>::shearing_x(v[0])) { chk!(&format!("Mat2<{}>::shearing_x", $lay), Some(mvec(&m.decode(), &[p[0], p[1]])), [p[0] + v[0] * p[1], p[1]]); }
                if let Some(m) = s.call("shearing_y", inp, || $L::Mat2::<X>::shearing_y(v[0])) { chk!(&format!("Mat2<{}>::shearing_y", $lay), Some(mvec(&m.decode(), &[p[0], p[1]])), [p[0], p[1] + v[0] * p[0]]); }
            }} }
            mat4!(rm, "row"); mat4!(cm, "col");
            if nz && s.wants_sample() && w == (2 + extra) as u64 { s.sample(json!({"input": inp(), "law": "translation_3d(v)*(p,1) = (p+v,1); *(p,0) = (p,0); scaling multiplies per axis; shearing_x adds k*y to x"})); }
        });
    });

    rep.section("builder chains: every program of chained *_ed calls (and in-place twins) on Mat4, Mat3, Mat2",
        "stateright BFS over chains (state = the call sequence, a reference matrix over exact rationals, the real row-major and column-major values); alphabets: Mat4 {translated_2d, translated_3d x2, scaled_3d x2, rotated_x x2, rotated_y, rotated_z x2, rotated_3d about (1,2,2)}, Mat3 {translated_2d x2, scaled_3d x2, rotated_x, rotated_y, rotated_z, rotated_3d}, Mat2 {scaled_2d x2, sheared_x x2, sheared_y, rotated_z x2}, rotation angles are exact angle tokens; every chain up to length 4 (quick) / 5 (thorough); each transition applies the real returning form and the real in-place twin to both layouts, pre-multiplies the model by the textbook constructor, and compares: fields of both layouts = model, and for four probe points the real mul_point / mul_direction / M*v equals applying the recorded steps to the point ONE AFTER THE OTHER in call order; non-trivial: all", true, false, |s| {
        let depth = if s.thorough() { 5 } else { 4 };
        let mut counts = Vec::new();
        for _run in 0..2 {
            let tr = Arc::new(AtomicU64::new(0));
            let ck = ChainModel { transitions: tr.clone(), depth }.checker().threads(16).spawn_bfs().join();
            let (us, t, md) = (ck.unique_state_count() as u64, tr.load(Relaxed), ck.max_depth());
            if let Some(path) = ck.discoveries().into_values().next() {
                let acts: Vec<String> = path.clone().into_actions().iter().map(|a| format!("{:?}", a)).collect();
                if let St::Bad { class, site, detail } = path.last_state().clone() { s.violation_w(&site, class, json!({"chain": acts, "what": detail}), acts.len() as u64); }
                s.evals(t.max(1), t.max(1)); lk = json!({"states": us.max(1), "transitions": t.max(1), "traces_validated_against_impl": t.max(1)});
                return;
            }
            counts.push((us, t, md));
        }
        if (counts[0].0, counts[0].1) != (counts[1].0, counts[1].1) { s.rep.machinery_error(format!("counts differ between runs {:?}", counts)); }
        let (us, t, md) = counts[0];
        let expect: u64 = [11u64, 8, 7].iter().map(|k| (0..=depth as u32).map(|d| k.pow(d)).sum::<u64>()).sum();
        if us != expect { s.rep.machinery_error(format!("{} states, expected {} chains", us, expect)); }
        s.evals(t, t);
        s.meta("chains", json!({"max_length": depth, "states(chains)": us, "transitions": t, "max_depth": md, "complete_to_the_bound": true}));
        lk = json!({"states": us, "transitions": t, "traces_validated_against_impl": t, "max_depth": md,
            "explanation": "a state is a chain of builder calls; every transition executes the real *_ed call and its in-place twin on both layouts and compares with the reference product and with step-by-step application to probe points"});
        s.sample(json!({"chain": ["T3(1,2,3)", "RX(base0,k1)", "S3(2,1,3)"], "law": "identity().translated_3d(t).rotated_x(a).scaled_3d(s).mul_point(p) == scale(rotate_x(translate(p)))"}));
        s.sample(json!({"chain": ["ShX(2)", "RZ(base0,1)", "S2(-1/2,1/2)"], "matrix": "Mat2"}));
    });

    rep.section("Mat4::from(Transform) is p -> position + orientation*(scale . p)",
        "positions {(0,0,0),(1,-2,3)} x every rational unit quaternion (cos(h), axis*sin(h)) for 9 unit axes x 6 rational half-angles (+ identity) x scales {(1,1,1),(2,2,2),(2,1,1),(1,-3,1/2),(3,2,5)}: the decoded matrix (both layouts) applied to 5 probe points equals position + R(orientation)(scale . p) with R from Rodrigues' formula; Transform::default() converts to the identity matrix; non-trivial: non-identity orientation", true, false, |s| {
        s.require_classes(&["uniform-scale", "non-uniform-scale", "axis-aligned-rotation", "oblique-rotation"]);
        let axes: Vec<[X; 3]> = { let u = unit_axes(); vec![u[0], u[2], u[4], u[6], u[9], u[14], u[30], u[55], u[80]] };
        let circ = circle_points();
        let positions = [[qi(0), qi(0), qi(0)], [qi(1), qi(-2), qi(3)]];
        let scales = [[qi(1), qi(1), qi(1)], [qi(2), qi(2), qi(2)], [qi(2), qi(1), qi(1)], [qi(1), qi(-3), q(1, 2)], [qi(3), qi(2), qi(5)]];
        let probes = [[qi(1), qi(0), qi(0)], [qi(0), qi(1), qi(0)], [qi(0), qi(0), qi(1)], [qi(1), qi(2), qi(3)], [qi(0), qi(0), qi(0)]];
        let d = Transform::<X, X, X>::default();
        s.eval(true);
        if cm::Mat4::<X>::from(d).decode() != ident::<X, 4>() || rm::Mat4::<X>::from(d).decode() != ident::<X, 4>() { s.violation("Mat4::from(Transform::default())", "not-the-identity-map", json!({})); }
        for ax in &axes { for (ci, &(ch, sh)) in circ.iter().enumerate().take(7) {
            // half-angle (ch, sh): the rotation angle has cos = ch^2 - sh^2, sin = 2 ch sh
            let (c, sn) = (ch * ch - sh * sh, qi(2) * ch * sh);
            let r3 = rodrigues(ax, c, sn);
            let quat = Quaternion { x: ax[0] * sh, y: ax[1] * sh, z: ax[2] * sh, w: ch };
            let axis_aligned = r3.iter().flatten().all(|e| *e == qi(0) || *e == qi(1) || *e == qi(-1));
            for pos in &positions { for sc in &scales {
                let t = Transform { position: Vec3 { x: pos[0], y: pos[1], z: pos[2] }, orientation: quat, scale: Vec3 { x: sc[0], y: sc[1], z: sc[2] } };
                let uniform = sc[0] == sc[1] && sc[1] == sc[2];
                s.class(if uniform { "uniform-scale" } else { "non-uniform-scale" }); s.class(if axis_aligned { "axis-aligned-rotation" } else { "oblique-rotation" });
                for (lay, got) in [("row", s.call("from(Transform)", || json!({}), || rm::Mat4::<X>::from(t).decode())), ("col", s.call("from(Transform)", || json!({}), || cm::Mat4::<X>::from(t).decode()))] {
                    s.eval(ci != 1);
                    let Some(m) = got else { continue };
                    for p in &probes {
                        let sp = [sc[0] * p[0], sc[1] * p[1], sc[2] * p[2]];
                        let rp = mvec(&r3, &sp);
                        let want = [pos[0] + rp[0], pos[1] + rp[1], pos[2] + rp[2], qi(1)];
                        let g = mvec(&m, &[p[0], p[1], p[2], qi(1)]);
                        if g != want {
                            // which map did the code compute? rotate, then scale, then translate
                            let rp2 = mvec(&r3, p); let alt = [pos[0] + sc[0] * rp2[0], pos[1] + sc[1] * rp2[1], pos[2] + sc[2] * rp2[2], qi(1)];
                            let class = if g == alt { "scales-after-rotating(T*S*R)-instead-of-before(T*R*S)" } else { "not-position+orientation*(scale.p)" };
                            s.violation_w(&format!("Mat4<{}>::from(Transform)", lay), class, json!({"position": jxs(pos), "orientation(x,y,z,w)": jxs(&[quat.x, quat.y, quat.z, quat.w]), "scale": jxs(sc), "p": jxs(p), "got": jxs(&g), "want": jxs(&want)}), (ci as u64) * 10 + if pos[0] == qi(0) { 0 } else { 5 });
                            break;
                        }
                    }
                }
            } }
        } }
        s.sample(json!({"position": [1, -2, 3], "orientation": "90 degrees about z", "scale": [2, 1, 1], "p": [1, 0, 0], "want": "position + R(scale.p) = (1,0,3)"}));
    });
    // ------------------------------------------------------------------------------------------------
    // audit round
    // ------------------------------------------------------------------------------------------------
    rep.section("constructors are pure routing of their parameters (opaque symbols; boundary values of primitive element types)",
        "every translation/scaling/shear constructor of Mat4/Mat3/Mat2 (both layouts) run on OPAQUE symbols (no arithmetic exists on them; Zero and One are distinguished symbols) for all 2^3 zero/non-zero patterns of the parameters: every entry of the result is Zero, One or the parameter the textbook matrix has there. The constructors only require T: Zero + One, so by parametricity the only thing they can observe about a parameter is is_zero(), hence this decides the entries for every element type and every value; spot-confirmed bit for bit on f64 {NaN, -0.0, +-inf, subnormal, MIN_POSITIVE, MAX} and i32 {MIN, MAX, -1}; non-trivial: at least one non-zero parameter", true, true, |s| {
        use vx::term::Sym;
        s.require_classes(&["all-parameters-zero", "mixed-zero-pattern", "no-parameter-zero"]);
        let (z, o) = (Sym(0), Sym(1));
        for pat in 0..8u8 {
            let p: Vec<Sym> = (0..3).map(|i| if pat >> i & 1 == 1 { Sym(0) } else { Sym(10 + i as u16) }).collect();
            s.class(match pat { 7 => "all-parameters-zero", 0 => "no-parameter-zero", _ => "mixed-zero-pattern" });
            let (v3s, v2s) = (Vec3 { x: p[0], y: p[1], z: p[2] }, Vec2 { x: p[0], y: p[1] });
            macro_rules! chk { ($site:expr, $got:expr, $want:expr) => {{ s.eval(pat != 7); if let Some(g) = s.call($site, || json!({"params": jd(&p)}), || $got.decode()) { let w = $want; if g != w { s.violation_w($site, "constructor-entry-is-not-zero/one/parameter-as-defined", json!({"params": jd(&p), "got": jd(&g), "want": jd(&w)}), pat as u64); } } }} }
            macro_rules! lay { ($L:ident, $lay:expr) => {{
                chk!(&format!("Mat4<{}>::translation_3d <Sym>", $lay), $L::Mat4::<Sym>::translation_3d(v3s), [[o, z, z, p[0]], [z, o, z, p[1]], [z, z, o, p[2]], [z, z, z, o]]);
                chk!(&format!("Mat4<{}>::translation_2d <Sym>", $lay), $L::Mat4::<Sym>::translation_2d(v2s), [[o, z, z, p[0]], [z, o, z, p[1]], [z, z, o, z], [z, z, z, o]]);
                chk!(&format!("Mat4<{}>::scaling_3d <Sym>", $lay), $L::Mat4::<Sym>::scaling_3d(v3s), [[p[0], z, z, z], [z, p[1], z, z], [z, z, p[2], z], [z, z, z, o]]);
                chk!(&format!("Mat3<{}>::translation_2d <Sym>", $lay), $L::Mat3::<Sym>::translation_2d(v2s), [[o, z, p[0]], [z, o, p[1]], [z, z, o]]);
                chk!(&format!("Mat3<{}>::scaling_3d <Sym>", $lay), $L::Mat3::<Sym>::scaling_3d(v3s), [[p[0], z, z], [z, p[1], z], [z, z, p[2]]]);
                chk!(&format!("Mat2<{}>::scaling_2d <Sym>", $lay), $L::Mat2::<Sym>::scaling_2d(v2s), [[p[0], z], [z, p[1]]]);
                chk!(&format!("Mat2<{}>::shearing_x <Sym>", $lay), $L::Mat2::<Sym>::shearing_x(p[0]), [[o, p[0]], [z, o]]);
                chk!(&format!("Mat2<{}>::shearing_y <Sym>", $lay), $L::Mat2::<Sym>::shearing_y(p[0]), [[o, z], [p[0], o]]);
            }} }
            lay!(rm, "row"); lay!(cm, "col");
        }
        // primitive element types: the parameters land bit for bit where the textbook matrix has them
        let fs = [f64::NAN, -0.0, f64::INFINITY, f64::NEG_INFINITY, 5e-324, f64::MIN_POSITIVE, f64::MAX, -f64::MAX, 1.5];
        let is = [i32::MIN, i32::MAX, -1, 0, 7];
        for r in 0..fs.len() {
            let f = [fs[r], fs[(r + 1) % fs.len()], fs[(r + 4) % fs.len()]];
            let b = |m: Vec<Vec<f64>>| -> Vec<Vec<u64>> { m.iter().map(|r| r.iter().map(|x| x.to_bits()).collect()).collect() };
            macro_rules! chkf { ($site:expr, $got:expr, $want:expr) => {{ s.eval(true); let g: Vec<Vec<f64>> = $got.decode().iter().map(|r| r.to_vec()).collect(); let w: Vec<Vec<f64>> = $want.iter().map(|r| r.to_vec()).collect(); if b(g.clone()) != b(w.clone()) { s.violation_w($site, "constructor-does-not-place-the-parameter-bits", json!({"params": jd(&f), "got": jd(&g), "want": jd(&w)}), r as u64); } }} }
            macro_rules! layf { ($L:ident, $lay:expr) => {{
                chkf!(&format!("Mat4<{}>::translation_3d <f64>", $lay), $L::Mat4::<f64>::translation_3d(Vec3 { x: f[0], y: f[1], z: f[2] }), [[1., 0., 0., f[0]], [0., 1., 0., f[1]], [0., 0., 1., f[2]], [0., 0., 0., 1.]]);
                chkf!(&format!("Mat4<{}>::translation_2d <f64>", $lay), $L::Mat4::<f64>::translation_2d(Vec2 { x: f[0], y: f[1] }), [[1., 0., 0., f[0]], [0., 1., 0., f[1]], [0., 0., 1., 0.], [0., 0., 0., 1.]]);
                chkf!(&format!("Mat4<{}>::scaling_3d <f64>", $lay), $L::Mat4::<f64>::scaling_3d(Vec3 { x: f[0], y: f[1], z: f[2] }), [[f[0], 0., 0., 0.], [0., f[1], 0., 0.], [0., 0., f[2], 0.], [0., 0., 0., 1.]]);
                chkf!(&format!("Mat3<{}>::translation_2d <f64>", $lay), $L::Mat3::<f64>::translation_2d(Vec2 { x: f[0], y: f[1] }), [[1., 0., f[0]], [0., 1., f[1]], [0., 0., 1.]]);
                chkf!(&format!("Mat3<{}>::scaling_3d <f64>", $lay), $L::Mat3::<f64>::scaling_3d(Vec3 { x: f[0], y: f[1], z: f[2] }), [[f[0], 0., 0.], [0., f[1], 0.], [0., 0., f[2]]]);
                chkf!(&format!("Mat2<{}>::scaling_2d <f64>", $lay), $L::Mat2::<f64>::scaling_2d(Vec2 { x: f[0], y: f[1] }), [[f[0], 0.], [0., f[1]]]);
                chkf!(&format!("Mat2<{}>::shearing_x <f64>", $lay), $L::Mat2::<f64>::shearing_x(f[0]), [[1., f[0]], [0., 1.]]);
                chkf!(&format!("Mat2<{}>::shearing_y <f64>", $lay), $L::Mat2::<f64>::shearing_y(f[0]), [[1., 0.], [f[0], 1.]]);
            }} }
            layf!(rm, "row"); layf!(cm, "col");
        }
        for r in 0..is.len() {
            let i = [is[r], is[(r + 1) % is.len()], is[(r + 2) % is.len()]];
            macro_rules! chki { ($site:expr, $got:expr, $want:expr) => {{ s.eval(true); let g = $got.decode(); if g != $want { s.violation_w($site, "constructor-does-not-place-the-parameter-bits", json!({"params": jd(&i), "got": jd(&g)}), r as u64); } }} }
            macro_rules! layi { ($L:ident, $lay:expr) => {{
                chki!(&format!("Mat4<{}>::translation_3d <i32>", $lay), $L::Mat4::<i32>::translation_3d(Vec3 { x: i[0], y: i[1], z: i[2] }), [[1, 0, 0, i[0]], [0, 1, 0, i[1]], [0, 0, 1, i[2]], [0, 0, 0, 1]]);
                chki!(&format!("Mat4<{}>::scaling_3d <i32>", $lay), $L::Mat4::<i32>::scaling_3d(Vec3 { x: i[0], y: i[1], z: i[2] }), [[i[0], 0, 0, 0], [0, i[1], 0, 0], [0, 0, i[2], 0], [0, 0, 0, 1]]);
                chki!(&format!("Mat3<{}>::translation_2d <i32>", $lay), $L::Mat3::<i32>::translation_2d(Vec2 { x: i[0], y: i[1] }), [[1, 0, i[0]], [0, 1, i[1]], [0, 0, 1]]);
                chki!(&format!("Mat2<{}>::shearing_x <i32>", $lay), $L::Mat2::<i32>::shearing_x(i[0]), [[1, i[0]], [0, 1]]);
                chki!(&format!("Mat2<{}>::shearing_y <i32>", $lay), $L::Mat2::<i32>::shearing_y(i[0]), [[1, 0], [i[0], 1]]);
            }} }
            layi!(rm, "row"); layi!(cm, "col");
        }
        s.sample(json!({"call": "Mat4::<Sym>::translation_3d(Vec3 { s10, s0(Zero), s12 })", "want": "[[One,Zero,Zero,s10],[Zero,One,Zero,Zero],[Zero,Zero,One,s12],[Zero,Zero,Zero,One]]"}));
    });

    rep.section("builders and point/direction helpers on GENERAL matrices (projective, singular, unit, zero prior states)",
        "prior states: Mat4 {dense with last row (1,-2,3,4), singular with row2 = row0 + row1 and last row (3,0,-1,2), the 16 unit matrices E_ij, zero}, Mat3 and Mat2 likewise (bottom row never (0,..,0,1)); calls: Mat4 {translated_2d x2, translated_3d x4 (zero, integer, with a zero lane, fractional), scaled_3d x4 (unit, with a zero lane, negative/fractional, all zero), rotated_x/y/z/3d}, Mat3 {translated_2d x3, scaled_3d x4, rotated_x/y/z/3d}, Mat2 {scaled_2d x3, sheared_x x3, sheared_y x3, rotated_z x2}; every call sequence up to length 2 (quick) / 4 (thorough) from the dense and singular states, every single call from the unit and zero states; both layouts. After every call: returning form = textbook constructor * reference prior state (independent oracle), = REAL constructor * REAL prior state (the statement read literally), = in-place twin run on a copy of the same non-trivial prior state. On every reached matrix: mul_point / mul_direction for operand types Vec3, Vec4 (junk w that must be ignored; all four result lanes compared) and Vec2, mul_point_2d / mul_direction_2d for Vec2 and Vec3 (junk z; all three lanes), M * v: equal to the leading lanes of reference matrix * (p,1) resp. (p,0); non-trivial: every transition and helper evaluation on a non-zero prior state", true, false, |s| {
        s.require_classes(&["projective-start", "singular-start", "unit-start", "zero-start", "degenerate-parameter", "call-sequences"]);
        let maxlen = if s.thorough() { 4 } else { 2 };
        let h = |a: i128, b: i128| q(a, b);
        let i = |a: i128| qi(a);
        let ops4 = [Op::T2([i(3), i(-1)]), Op::T2([h(-1, 2), i(4)]), Op::T3([i(0), i(0), i(0)]), Op::T3([i(1), i(2), i(3)]), Op::T3([i(-2), i(0), i(5)]), Op::T3([h(1, 2), i(-7), h(1, 3)]),
            Op::S3([i(1), i(1), i(1)]), Op::S3([i(0), i(1), i(-1)]), Op::S3([i(2), i(-3), h(1, 2)]), Op::S3([i(0), i(0), i(0)]), Op::RX(0, 1), Op::RY(1, 2), Op::RZ(0, -3), Op::R3(1, 1)];
        let ops3 = [Op::T2([i(0), i(0)]), Op::T2([i(3), i(-1)]), Op::T2([h(-1, 2), i(4)]), Op::S3([i(1), i(1), i(1)]), Op::S3([i(0), i(1), i(-1)]), Op::S3([i(2), i(-3), h(1, 2)]), Op::S3([i(0), i(0), i(0)]), Op::RX(0, 1), Op::RY(1, 2), Op::RZ(0, -3), Op::R3(1, 1)];
        let ops2 = [Op::S2([i(1), i(1)]), Op::S2([i(0), i(-2)]), Op::S2([i(3), h(1, 2)]), Op::ShX(i(0)), Op::ShX(i(2)), Op::ShX(h(-1, 2)), Op::ShY(i(0)), Op::ShY(i(-3)), Op::ShY(h(1, 3)), Op::RZ(0, 1), Op::RZ(1, -2)];
        let dense4: A<X, 4> = [[i(2), i(-1), i(3), i(5)], [i(0), i(4), i(1), i(-2)], [i(7), i(1), i(-3), h(1, 2)], [i(1), i(-2), i(3), i(4)]];
        let sing4: A<X, 4> = [[i(1), i(2), i(3), i(4)], [i(0), i(1), i(-1), i(2)], [i(1), i(3), i(2), i(6)], [i(3), i(0), i(-1), i(2)]];
        let dense3: A<X, 3> = [[i(2), i(-1), i(3)], [i(0), i(4), i(1)], [i(7), h(1, 2), i(-3)]];
        let sing3: A<X, 3> = [[i(1), i(2), i(3)], [i(0), i(1), i(-1)], [i(1), i(3), i(2)]];
        let dense2: A<X, 2> = [[i(2), i(-1)], [i(3), i(5)]];
        let sing2: A<X, 2> = [[i(1), i(2)], [i(-2), i(-4)]];
        let probes4 = [[i(0), i(0), i(0), i(7)], [i(1), i(0), i(0), i(0)], [i(0), i(1), i(0), i(-1)], [i(0), i(0), i(1), i(1)], [i(2), i(-3), i(5), i(7)], [h(1, 2), i(7), i(-1), h(-2, 3)]];
        let probes3 = [[i(0), i(0), i(7)], [i(1), i(0), i(0)], [i(0), i(1), i(-1)], [i(2), i(-3), i(5)], [h(1, 2), i(7), h(-2, 3)]];
        let probes2 = [[i(0), i(0)], [i(1), i(0)], [i(0), i(1)], [i(2), i(-3)], [h(1, 2), i(7)]];
        for op in ops4.iter().chain(&ops3).chain(&ops2) { if op_is_degenerate(*op) { s.class("degenerate-parameter"); } }
        let mut n = 0u64; let mut nz = 0u64;
        macro_rules! run { ($N:expr, $Mat:ident, $dense:expr, $sing:expr, $ops:expr, $probes:expr, $refn:ident, $real:ident, $helper:ident, $name:expr) => {{
            let mut starts: Vec<(&'static str, A<X, $N>, usize)> = vec![("projective-start", $dense, maxlen), ("singular-start", $sing, maxlen), ("zero-start", zeros::<X, $N>(), 1)];
            for u in units::<$N>() { starts.push(("unit-start", u, 1)); }
            for (k, (cls, st, len)) in starts.iter().enumerate() {
                s.class(cls); if *len >= 2 { s.class("call-sequences"); }
                let before = n;
                { let g = Gen::<rm::$Mat<X>, $N> { ty: format!("{}<row>", $name), ops: &$ops, refn: $refn, real: &|m, op| $real!(m, op, rm), helper: &$helper!(rm), probes: &$probes, start: *st, start_weight: k as u64 };
                  gen_dfs(s, &g, *len, <rm::$Mat<X> as MatIO<X, $N>>::build(st), st, &mut Vec::new(), &mut n); }
                { let g = Gen::<cm::$Mat<X>, $N> { ty: format!("{}<col>", $name), ops: &$ops, refn: $refn, real: &|m, op| $real!(m, op, cm), helper: &$helper!(cm), probes: &$probes, start: *st, start_weight: k as u64 };
                  gen_dfs(s, &g, *len, <cm::$Mat<X> as MatIO<X, $N>>::build(st), st, &mut Vec::new(), &mut n); }
                if *cls != "zero-start" { nz += n - before; }
            }
        }} }
        run!(4, Mat4, dense4, sing4, ops4, probes4, ref4, real_op4, helper4, "Mat4");
        run!(3, Mat3, dense3, sing3, ops3, probes3, ref3, real_op3, helper3, "Mat3");
        run!(2, Mat2, dense2, sing2, ops2, probes2, ref2, real_op2, helper2, "Mat2");
        s.evals(n, nz);
        s.meta("sequences", json!({"max_length_from_dense_states": maxlen, "transitions_and_helper_evaluations": n}));
        s.sample(json!({"start": "Mat4 with last row (1,-2,3,4)", "call": "translated_3d((1,2,3))", "law": "result = translation_3d((1,2,3)) * start: row i gains v_i * (last row), not just the last column"}));
        s.sample(json!({"matrix": "Mat4 with last row (1,-2,3,4)", "call": "mul_point(Vec4 { 2,-3,5, w: 7 })", "law": "= M * (2,-3,5,1), all four lanes, no division by the resulting w"}));
    });

    rep.section("operand forms of the constructors and builders (V: Into<VecN>)",
        "parameters {(1,2,3), (-2,0,5), (1/2,-7,1/3)}: translation_3d / scaling_3d (Mat4, Mat3) called with Vec4 (extra lane 9 ignored), tuple, array, Extent3, a bare scalar (broadcast) and - translation only - Vec2 (z = 0); translation_2d (Mat4, Mat3) and scaling_2d (Mat2) with Vec3 / Vec4 (extra lanes ignored), tuple, array, Extent2, scalar; translated_3d / translate_3d / scaled_3d / scale_3d / translated_2d / translate_2d / scaled_2d / scale_2d with tuple and Vec4 operands on a dense projective prior state; each compared with the textbook matrix of the vector the operand denotes (independent oracle); both layouts; non-trivial: all", true, false, |s| {
        use vek::{Extent2, Extent3};
        let i = |a: i128| qi(a);
        let vs = [[i(1), i(2), i(3)], [i(-2), i(0), i(5)], [q(1, 2), i(-7), q(1, 3)]];
        let dense4: A<X, 4> = [[i(2), i(-1), i(3), i(5)], [i(0), i(4), i(1), i(-2)], [i(7), i(1), i(-3), q(1, 2)], [i(1), i(-2), i(3), i(4)]];
        let dense3: A<X, 3> = [[i(2), i(-1), i(3)], [i(0), i(4), i(1)], [i(7), q(1, 2), i(-3)]];
        let dense2: A<X, 2> = [[i(2), i(-1)], [i(3), i(5)]];
        for (vi, v) in vs.iter().enumerate() {
            let (a, b, c, junk) = (v[0], v[1], v[2], i(9));
            macro_rules! chk { ($site:expr, $form:expr, $got:expr, $want:expr) => {{
                s.eval(true); let site = format!("{}<{}>", $site, $form);
                if let Some(g) = s.call(&site, || json!({"v": jxs(v)}), || $got.decode()) { let w = $want; if g != w { s.violation_w(&site, "operand-form-is-not-the-vector-it-denotes", json!({"v": jxs(v), "got": jmat(&g), "want": jmat(&w)}), vi as u64); } }
            }} }
            macro_rules! lay { ($L:ident, $lay:expr, $b4:ident, $b3:ident, $b2:ident) => {{
                let (t3, s3, t2) = (ref4(Op::T3(*v)), ref4(Op::S3(*v)), ref4(Op::T2([a, b])));
                let site = format!("Mat4<{}>::translation_3d", $lay);
                chk!(site, "Vec4", $L::Mat4::<X>::translation_3d(Vec4 { x: a, y: b, z: c, w: junk }), t3);
                chk!(site, "tuple", $L::Mat4::<X>::translation_3d((a, b, c)), t3);
                chk!(site, "array", $L::Mat4::<X>::translation_3d([a, b, c]), t3);
                chk!(site, "Extent3", $L::Mat4::<X>::translation_3d(Extent3 { w: a, h: b, d: c }), t3);
                chk!(site, "Vec2", $L::Mat4::<X>::translation_3d(Vec2 { x: a, y: b }), ref4(Op::T3([a, b, i(0)])));
                chk!(site, "scalar", $L::Mat4::<X>::translation_3d(a), ref4(Op::T3([a, a, a])));
                let site = format!("Mat4<{}>::scaling_3d", $lay);
                chk!(site, "Vec4", $L::Mat4::<X>::scaling_3d(Vec4 { x: a, y: b, z: c, w: junk }), s3);
                chk!(site, "tuple", $L::Mat4::<X>::scaling_3d((a, b, c)), s3);
                chk!(site, "array", $L::Mat4::<X>::scaling_3d([a, b, c]), s3);
                chk!(site, "Extent3", $L::Mat4::<X>::scaling_3d(Extent3 { w: a, h: b, d: c }), s3);
                chk!(site, "scalar", $L::Mat4::<X>::scaling_3d(c), ref4(Op::S3([c, c, c])));
                let site = format!("Mat4<{}>::translation_2d", $lay);
                chk!(site, "Vec3", $L::Mat4::<X>::translation_2d(Vec3 { x: a, y: b, z: junk }), t2);
                chk!(site, "Vec4", $L::Mat4::<X>::translation_2d(Vec4 { x: a, y: b, z: junk, w: junk }), t2);
                chk!(site, "tuple", $L::Mat4::<X>::translation_2d((a, b)), t2);
                chk!(site, "array", $L::Mat4::<X>::translation_2d([a, b]), t2);
                chk!(site, "Extent2", $L::Mat4::<X>::translation_2d(Extent2 { w: a, h: b }), t2);
                chk!(site, "scalar", $L::Mat4::<X>::translation_2d(b), ref4(Op::T2([b, b])));
                let m4 = $b4(&dense4);
                chk!(format!("Mat4<{}>::translated_3d", $lay), "tuple", m4.translated_3d((a, b, c)), mmul(&t3, &dense4));
                chk!(format!("Mat4<{}>::translate_3d", $lay), "Vec4", { let mut t = m4; t.translate_3d(Vec4 { x: a, y: b, z: c, w: junk }); t }, mmul(&t3, &dense4));
                chk!(format!("Mat4<{}>::scaled_3d", $lay), "Vec4", m4.scaled_3d(Vec4 { x: a, y: b, z: c, w: junk }), mmul(&s3, &dense4));
                chk!(format!("Mat4<{}>::scale_3d", $lay), "scalar", { let mut t = m4; t.scale_3d(b); t }, mmul(&ref4(Op::S3([b, b, b])), &dense4));
                chk!(format!("Mat4<{}>::translated_2d", $lay), "Vec3", m4.translated_2d(Vec3 { x: a, y: b, z: junk }), mmul(&t2, &dense4));
                chk!(format!("Mat4<{}>::translate_2d", $lay), "tuple", { let mut t = m4; t.translate_2d((a, b)); t }, mmul(&t2, &dense4));
                let (t23, s33) = (ref3(Op::T2([a, b])), ref3(Op::S3(*v)));
                let site = format!("Mat3<{}>::translation_2d", $lay);
                chk!(site, "Vec3", $L::Mat3::<X>::translation_2d(Vec3 { x: a, y: b, z: junk }), t23);
                chk!(site, "Vec4", $L::Mat3::<X>::translation_2d(Vec4 { x: a, y: b, z: junk, w: junk }), t23);
                chk!(site, "tuple", $L::Mat3::<X>::translation_2d((a, b)), t23);
                chk!(site, "array", $L::Mat3::<X>::translation_2d([a, b]), t23);
                chk!(site, "Extent2", $L::Mat3::<X>::translation_2d(Extent2 { w: a, h: b }), t23);
                chk!(site, "scalar", $L::Mat3::<X>::translation_2d(c), ref3(Op::T2([c, c])));
                let site = format!("Mat3<{}>::scaling_3d", $lay);
                chk!(site, "Vec4", $L::Mat3::<X>::scaling_3d(Vec4 { x: a, y: b, z: c, w: junk }), s33);
                chk!(site, "tuple", $L::Mat3::<X>::scaling_3d((a, b, c)), s33);
                chk!(site, "array", $L::Mat3::<X>::scaling_3d([a, b, c]), s33);
                chk!(site, "Extent3", $L::Mat3::<X>::scaling_3d(Extent3 { w: a, h: b, d: c }), s33);
                chk!(site, "scalar", $L::Mat3::<X>::scaling_3d(a), ref3(Op::S3([a, a, a])));
                let m3 = $b3(&dense3);
                chk!(format!("Mat3<{}>::translated_2d", $lay), "Vec4", m3.translated_2d(Vec4 { x: a, y: b, z: junk, w: junk }), mmul(&t23, &dense3));
                chk!(format!("Mat3<{}>::translate_2d", $lay), "array", { let mut t = m3; t.translate_2d([a, b]); t }, mmul(&t23, &dense3));
                chk!(format!("Mat3<{}>::scaled_3d", $lay), "tuple", m3.scaled_3d((a, b, c)), mmul(&s33, &dense3));
                chk!(format!("Mat3<{}>::scale_3d", $lay), "Extent3", { let mut t = m3; t.scale_3d(Extent3 { w: a, h: b, d: c }); t }, mmul(&s33, &dense3));
                let s22 = ref2(Op::S2([a, b]));
                let site = format!("Mat2<{}>::scaling_2d", $lay);
                chk!(site, "Vec3", $L::Mat2::<X>::scaling_2d(Vec3 { x: a, y: b, z: junk }), s22);
                chk!(site, "Vec4", $L::Mat2::<X>::scaling_2d(Vec4 { x: a, y: b, z: junk, w: junk }), s22);
                chk!(site, "tuple", $L::Mat2::<X>::scaling_2d((a, b)), s22);
                chk!(site, "array", $L::Mat2::<X>::scaling_2d([a, b]), s22);
                chk!(site, "Extent2", $L::Mat2::<X>::scaling_2d(Extent2 { w: a, h: b }), s22);
                chk!(site, "scalar", $L::Mat2::<X>::scaling_2d(c), ref2(Op::S2([c, c])));
                let m2 = $b2(&dense2);
                chk!(format!("Mat2<{}>::scaled_2d", $lay), "tuple", m2.scaled_2d((a, b)), mmul(&s22, &dense2));
                chk!(format!("Mat2<{}>::scale_2d", $lay), "Vec3", { let mut t = m2; t.scale_2d(Vec3 { x: a, y: b, z: junk }); t }, mmul(&s22, &dense2));
            }} }
            lay!(rm, "row", r4, r3, r2); lay!(cm, "col", c4, c3, c2);
        }
        s.sample(json!({"call": "Mat4::translation_3d(Vec4 { 1, 2, 3, w: 9 })", "want": "the translation by (1,2,3); the fourth lane is ignored"}));
    });

    rep.section("long builder chains (deterministic strided walks through each alphabet)",
        "the quantifier's long chains, enumerated instead of sampled: for each of the three alphabets of the BFS section (k = 11 / 8 / 7 calls) and every start offset r, the chain a[(r + i*d) mod k], i < L, with stride d in {1, k-1} and L = 10 (quick) / every stride coprime to k and L = 16 (thorough); each call goes through the same transition function as the BFS (returning form and in-place twin on both layouts, reference product, step-by-step application to the probe points in call order); non-trivial: all", true, false, |s| {
        let len = if s.thorough() { 16 } else { 10 };
        let inits = ChainModel { transitions: Arc::new(AtomicU64::new(0)), depth: 0 }.init_states();
        let alph: [&[Step]; 3] = [&ACTS4, &ACTS3, &ACTS2];
        let mut jobs: Vec<(usize, Vec<Step>)> = Vec::new();
        for (ai, acts) in alph.iter().enumerate() {
            let k = acts.len();
            for d in 1..k {
                if gcd_us(d, k) != 1 || (!s.thorough() && d != 1 && d != k - 1) { continue; }
                for r in 0..k { jobs.push((ai, (0..len).map(|i| acts[(r + i * d) % k]).collect())); }
            }
        }
        use rayon::prelude::*;
        let done = AtomicU64::new(0);
        jobs.par_iter().for_each(|(ai, chain)| {
            let mut st = inits[*ai].clone();
            for (i, a) in chain.iter().enumerate() {
                s.eval(true);
                match catch(|| step(&st, *a)) {
                    Ok(nx) => st = nx,
                    Err(Caught::Unmodelled(w)) => { s.unmodelled(w); return; }
                    Err(Caught::Panic(m)) => { s.violation_w(&format!("{:?}", a), "panic", json!({"chain": jd(&chain[..=i].to_vec()), "panic": m}), i as u64); return; }
                }
                if let St::Bad { class, site, detail } = &st { s.violation_w(site, class, json!({"chain": jd(&chain[..=i].to_vec()), "what": detail}), i as u64 + 1); return; }
            }
            done.fetch_add(1, Relaxed);
        });
        s.meta("chains", json!({"length": len, "chains": jobs.len(), "completed_without_unmodelled_arithmetic": done.load(Relaxed)}));
        if done.load(Relaxed) * 2 < jobs.len() as u64 { s.rep.machinery_error(format!("only {} of {} long chains stayed inside exact arithmetic", done.load(Relaxed), jobs.len())); }
        s.sample(json!({"alphabet": "Mat4", "chain": format!("{:?}", jobs[0].1)}));
    });

    rep.section("floats: a translation of any magnitude leaves directions alone (f32, f64, Mat4 and Mat3, both layouts)",
        "linear parts L built with the real builders (identity; scaled_3d(2,3,1/2); rotated_z(0.7) then scaled_3d; rotated_x(1.1) then rotated_y(-0.4)) x translations t in {0, (1e4,-2e4,5e3), (1e8,-2e8,5e7), (2^60,2^61,-2^59)} applied with the real translated_3d (Mat3: translated_2d) x 5 directions: mul_direction (mul_direction_2d) of the translated matrix must equal, as numbers, that of the untranslated one (the translation column only ever meets w = 0, an exact zero), and mul_point must be L*p + t within 4 ulp of the largest term; a rewrite that lets the translation enter the sum and subtracts it again loses the direction; non-trivial: t != 0", true, false, |s| {
        s.require_classes(&["huge translation", "zero translation"]);
        macro_rules! dirs { ($F:ty, $L:ident, $lay:literal) => {{
            type M4 = $L::Mat4<$F>; type M3 = $L::Mat3<$F>;
            let lin4: Vec<(&str, M4)> = vec![("identity", M4::identity()), ("scale", M4::identity().scaled_3d(Vec3 { x: 2.0, y: 3.0, z: 0.5 })),
                ("rotz*scale", M4::identity().rotated_z(0.7).scaled_3d(Vec3 { x: 2.0, y: 3.0, z: 0.5 })), ("rotx*roty", M4::identity().rotated_x(1.1).rotated_y(-0.4))];
            let ts: [[$F; 3]; 4] = [[0.0, 0.0, 0.0], [1e4, -2e4, 5e3], [1e8, -2e8, 5e7], [1152921504606846976.0, 2305843009213693952.0, -576460752303423488.0]];
            let ds: [[$F; 3]; 5] = [[1.0, 2.0, 3.0], [0.1, -0.3, 0.7], [1e-3, 0.0, 5.0], [-4.0, 0.25, 0.0], [1e3, 1e3, -1e3]];
            for (ln, l) in &lin4 { for t in &ts { for d in &ds {
                let m = l.translated_3d(Vec3 { x: t[0], y: t[1], z: t[2] });
                let (dv, big) = (Vec3 { x: d[0], y: d[1], z: d[2] }, t[0] != 0.0);
                s.eval(big); s.class(if big { "huge translation" } else { "zero translation" });
                let (got, want) = (m.mul_direction(dv), l.mul_direction(dv));
                if !(got.x == want.x && got.y == want.y && got.z == want.z) { s.violation_w(&format!("Mat4<{}>::mul_direction<{}>", $lay, stringify!($F)), "translation-changes-a-direction", json!({"linear_part": ln, "translation": [t[0] as f64, t[1] as f64, t[2] as f64], "direction": [d[0] as f64, d[1] as f64, d[2] as f64], "got": [got.x as f64, got.y as f64, got.z as f64], "want": [want.x as f64, want.y as f64, want.z as f64]}), (t[0].abs() > 1e5) as u64); }
                let (gp, lp) = (m.mul_point(dv), l.mul_point(dv));
                for (g, (w0, tt)) in [gp.x, gp.y, gp.z].into_iter().zip([(lp.x, t[0]), (lp.y, t[1]), (lp.z, t[2])]) {
                    let (want, tol) = (w0 as f64 + tt as f64, 4.0 * <$F>::EPSILON as f64 * (w0.abs() as f64).max(tt.abs() as f64).max(1.0));
                    if !((g as f64 - want).abs() <= tol) { s.violation_w(&format!("Mat4<{}>::mul_point<{}>", $lay, stringify!($F)), "point-not-moved-by-the-translation", json!({"linear_part": ln, "translation": [t[0] as f64, t[1] as f64, t[2] as f64], "point": [d[0] as f64, d[1] as f64, d[2] as f64], "got": g as f64, "want": want}), 1); }
                }
            } } }
            let lin3: Vec<(&str, M3)> = vec![("identity", M3::identity()), ("rotz*scale", M3::identity().rotated_z(0.7).scaled_3d(Vec3 { x: 2.0, y: 3.0, z: 1.0 }))];
            for (ln, l) in &lin3 { for t in &ts { for d in &ds {
                let m = l.translated_2d(Vec2 { x: t[0], y: t[1] });
                let dv = Vec2 { x: d[0], y: d[1] };
                s.eval(t[0] != 0.0);
                let (got, want) = (m.mul_direction_2d(dv), l.mul_direction_2d(dv));
                if !(got.x == want.x && got.y == want.y) { s.violation_w(&format!("Mat3<{}>::mul_direction_2d<{}>", $lay, stringify!($F)), "translation-changes-a-direction", json!({"linear_part": ln, "translation": [t[0] as f64, t[1] as f64], "direction": [d[0] as f64, d[1] as f64], "got": [got.x as f64, got.y as f64], "want": [want.x as f64, want.y as f64]}), (t[0].abs() > 1e5) as u64); }
            } } }
        }} }
        dirs!(f32, rm, "row"); dirs!(f32, cm, "col"); dirs!(f64, rm, "row"); dirs!(f64, cm, "col");
        s.sample(json!({"matrix": "identity.rotated_z(0.7).scaled_3d((2,3,1/2)).translated_3d((1e8,-2e8,5e7))", "direction": [1, 2, 3], "law": "mul_direction == the same without the translation, exactly"}));
    });

    rep.section("Transform: wider alphabets (every rational axis, negative-w quaternions, zero / negative / huge / tiny scales), Default fields and float defaults",
        "positions {0, (1,-2,3), (-1/2,1000,0)} x unit quaternions (cos h, axis sin h) for every 4th (quick) / every one (thorough) of the 103 rational unit axes x all 12 rational half-angles (incl. w < 0 and w = -1) x scales {(1,1,1), (-1,-1,-1), (0,0,0), (1/3,1/3,1/3), (0,1,1), (2,0,-1), (1,-3,1/2), (1000,1/1000,1), (-2,-2,3)}: the decoded matrix (both layouts) has last row (0,0,0,1) and maps 6 probe points (incl. negative and fractional) to position + R(orientation)(scale . p); where the known T*S*R order finding applies, every probe must still equal the T*S*R map exactly (same site|class as the first Transform section); Transform::default() has position 0, orientation (0,0,0,1), scale 1 field by field for <X,X,X>, <i32,f32,u8>, <f64,f64,f64> and converts to the exact identity in f32 and f64, both layouts; non-trivial: non-identity orientation", true, false, |s| {
        s.require_classes(&["uniform-scale", "non-uniform-scale", "zero-scale-lane", "negative-scale-lane", "huge-or-tiny-scale", "negative-w-quaternion", "axis-aligned-rotation", "oblique-rotation"]);
        let all = unit_axes();
        let axes: Vec<[X; 3]> = if s.thorough() { all } else { all.into_iter().step_by(4).collect() };
        let circ = circle_points();
        let positions = [[qi(0), qi(0), qi(0)], [qi(1), qi(-2), qi(3)], [q(-1, 2), qi(1000), qi(0)]];
        let scales = [[qi(1), qi(1), qi(1)], [qi(-1), qi(-1), qi(-1)], [qi(0), qi(0), qi(0)], [q(1, 3), q(1, 3), q(1, 3)], [qi(0), qi(1), qi(1)], [qi(2), qi(0), qi(-1)], [qi(1), qi(-3), q(1, 2)], [qi(1000), q(1, 1000), qi(1)], [qi(-2), qi(-2), qi(3)]];
        let probes = [[qi(1), qi(0), qi(0)], [qi(0), qi(1), qi(0)], [qi(0), qi(0), qi(1)], [qi(1), qi(2), qi(3)], [qi(0), qi(0), qi(0)], [q(-1, 2), qi(7), qi(-4)]];
        use rayon::prelude::*;
        axes.par_iter().enumerate().for_each(|(ai, ax)| {
            let mut cls: std::collections::BTreeMap<&'static str, u64> = Default::default();
            for (ci, &(ch, sh)) in circ.iter().enumerate() {
                let (c, sn) = (ch * ch - sh * sh, qi(2) * ch * sh);
                let r3 = rodrigues(ax, c, sn);
                let quat = Quaternion { x: ax[0] * sh, y: ax[1] * sh, z: ax[2] * sh, w: ch };
                let axis_aligned = r3.iter().flatten().all(|e| *e == qi(0) || *e == qi(1) || *e == qi(-1));
                for (pi, pos) in positions.iter().enumerate() { for sc in &scales {
                    let uniform = sc[0] == sc[1] && sc[1] == sc[2];
                    *cls.entry(if uniform { "uniform-scale" } else { "non-uniform-scale" }).or_insert(0) += 1;
                    *cls.entry(if axis_aligned { "axis-aligned-rotation" } else { "oblique-rotation" }).or_insert(0) += 1;
                    if sc.iter().any(|x| *x == qi(0)) { *cls.entry("zero-scale-lane").or_insert(0) += 1; }
                    if sc.iter().any(|x| *x < qi(0)) { *cls.entry("negative-scale-lane").or_insert(0) += 1; }
                    if sc.iter().any(|x| *x >= qi(1000)) { *cls.entry("huge-or-tiny-scale").or_insert(0) += 1; }
                    if ch < qi(0) { *cls.entry("negative-w-quaternion").or_insert(0) += 1; }
                    transform_case(s, pos, quat, &r3, sc, &probes, (ci as u64) * 10 + (pi as u64) * 5 + 1000 * (ai as u64).min(1), c != qi(1));
                } }
            }
            for (k, v) in cls { s.class_n(k, v); }
        });
        // Default, field by field, for several element-type combinations; float conversions of the default are exactly the identity
        s.eval(true);
        let d = Transform::<X, X, X>::default();
        if dv3(&d.position) != [qi(0); 3] || [d.orientation.x, d.orientation.y, d.orientation.z, d.orientation.w] != [qi(0), qi(0), qi(0), qi(1)] || dv3(&d.scale) != [qi(1); 3] { s.violation("Transform::<X,X,X>::default()", "fields-are-not-zero-position/identity-orientation/unit-scale", json!({"got": jd(&d)})); }
        s.eval(true);
        let d = Transform::<i32, f32, u8>::default();
        if dv3(&d.position) != [0i32; 3] || [d.orientation.x, d.orientation.y, d.orientation.z, d.orientation.w] != [0f32, 0., 0., 1.] || dv3(&d.scale) != [1u8; 3] { s.violation("Transform::<i32,f32,u8>::default()", "fields-are-not-zero-position/identity-orientation/unit-scale", json!({"got": jd(&d)})); }
        s.eval(true);
        let d = Transform::<f64, f64, f64>::default();
        if dv3(&d.position) != [0f64; 3] || [d.orientation.x, d.orientation.y, d.orientation.z, d.orientation.w] != [0f64, 0., 0., 1.] || dv3(&d.scale) != [1f64; 3] { s.violation("Transform::<f64,f64,f64>::default()", "fields-are-not-zero-position/identity-orientation/unit-scale", json!({"got": jd(&d)})); }
        s.eval(true);
        if rm::Mat4::<f64>::from(d).decode() != ident::<f64, 4>() || cm::Mat4::<f64>::from(d).decode() != ident::<f64, 4>() { s.violation("Mat4::<f64>::from(Transform::default())", "not-the-identity-map", json!({})); }
        s.eval(true);
        let d = Transform::<f32, f32, f32>::default();
        if rm::Mat4::<f32>::from(d).decode() != ident::<f32, 4>() || cm::Mat4::<f32>::from(d).decode() != ident::<f32, 4>() { s.violation("Mat4::<f32>::from(Transform::default())", "not-the-identity-map", json!({})); }
        s.sample(json!({"position": [0, 0, 0], "orientation": "(0,0,0,-1) (w = -1, the identity rotation)", "scale": [2, 0, -1], "want": "p -> (2 p.x, 0, -p.z)"}));
    });

    // ------------------------------------------------------------------------------------------------
    // second audit round
    // ------------------------------------------------------------------------------------------------
    rep.section("special values in exact arithmetic: tiny / huge / nearly-unit / equal-lane parameters on identity, nearly-affine, nearly-identity and rescaled prior states",
        "X::epsilon() is 2^-52, so every parameter below is chosen on the far side of any epsilon / approximate-equality guard a builder, twin or helper could contain. Prior states: Mat4 {identity, dense with last row (2^-54, 0, -3*2^-54, 1) [nearly affine], dense with last row (0,0,0,1+2^-54), identity + 2^-54 in every entry, dense / 2^12, dense * 2^12}, Mat3 / Mat2 likewise; calls: translations {tiny (all lanes < 2^-51), huge (2^30), single non-zero lane, equal lanes}, scalings {uniform 2 / -1, (1+2^-54, 1, 1-2^-54), (2^-54, 2^30, -1), two equal lanes}, shears {1, -1, 2^-54, -2^30}, rotations; every single call from every state, both layouts, through the same transition function as the general-matrix section (textbook constructor * reference state, REAL constructor * REAL state, in-place twin), and the point/direction helpers for all operand types on every reached matrix with probes {tiny, huge, unit, ordinary} (junk extra lane); Transform -> Mat4 with tiny / huge positions and tiny / nearly-unit / huge scales on 3 axes x 12 half-angles; non-trivial: all", true, false, |s| {
        s.require_classes(&["identity-start", "nearly-affine-start", "nearly-identity-start", "rescaled-start", "tiny-parameter", "huge-parameter", "nearly-unit-scale", "uniform-scale", "single-lane-parameter", "unit-shear", "transform-tiny-position", "transform-tiny-scale", "transform-nearly-unit-scale"]);
        let i = |a: i128| qi(a);
        let t = q(1, 1i128 << 54); let hg = qi(1i128 << 30); let one = qi(1);
        let ops4 = [Op::T3([t, -(t * i(3)), t * i(5)]), Op::T3([hg * i(3), -hg, hg]), Op::T3([i(0), i(0), i(7)]), Op::T3([i(5), i(0), i(0)]), Op::T3([i(4), i(4), i(4)]),
            Op::T2([t, -(t * i(3))]), Op::T2([hg, -hg]), Op::T2([i(0), i(5)]), Op::T2([i(6), i(6)]),
            Op::S3([i(2), i(2), i(2)]), Op::S3([i(-1), i(-1), i(-1)]), Op::S3([one + t, one, one - t]), Op::S3([t, hg, i(-1)]), Op::S3([i(3), i(3), i(1)]), Op::S3([t, t, t]),
            Op::RX(0, 1), Op::RY(1, 2), Op::RZ(0, -3), Op::R3(1, 1)];
        let ops3 = [Op::T2([t, -(t * i(3))]), Op::T2([hg, -hg]), Op::T2([i(0), i(5)]), Op::T2([i(6), i(6)]),
            Op::S3([i(2), i(2), i(2)]), Op::S3([i(-1), i(-1), i(-1)]), Op::S3([one + t, one, one - t]), Op::S3([t, hg, i(-1)]), Op::S3([i(3), i(3), i(1)]), Op::S3([t, t, t]),
            Op::RX(0, 1), Op::RY(1, 2), Op::RZ(0, -3), Op::R3(1, 1)];
        let ops2 = [Op::S2([i(2), i(2)]), Op::S2([i(-1), i(-1)]), Op::S2([one + t, one - t]), Op::S2([t, hg]), Op::ShX(i(1)), Op::ShX(i(-1)), Op::ShX(t), Op::ShX(-hg), Op::ShY(i(1)), Op::ShY(i(-1)), Op::ShY(-t), Op::ShY(hg), Op::RZ(0, 1), Op::RZ(1, -2)];
        let dense4: A<X, 4> = [[i(2), i(-1), i(3), i(5)], [i(0), i(4), i(1), i(-2)], [i(7), i(1), i(-3), q(1, 2)], [i(1), i(-2), i(3), i(4)]];
        let dense3: A<X, 3> = [[i(2), i(-1), i(3)], [i(0), i(4), i(1)], [i(7), q(1, 2), i(-3)]];
        let dense2: A<X, 2> = [[i(2), i(-1)], [i(3), i(5)]];
        fn scaled<const N: usize>(m: &A<X, N>, k: X) -> A<X, N> { let mut o = *m; for r in o.iter_mut() { for e in r.iter_mut() { *e = *e * k; } } o }
        fn near_ident<const N: usize>(e: X) -> A<X, N> { let mut o = [[e; N]; N]; for d in 0..N { o[d][d] = qi(1) + e; } o }
        let (sm, lg) = (q(1, 1 << 12), qi(1 << 12));
        let mut na4 = dense4; na4[3] = [t, i(0), -(t * i(3)), one];
        let mut nb4 = dense4; nb4[3] = [i(0), i(0), i(0), one + t];
        let mut na3 = dense3; na3[2] = [t, -(t * i(3)), one];
        let mut nb3 = dense3; nb3[2] = [i(0), i(0), one + t];
        let na2: A<X, 2> = [[one, t], [i(0), one + t]];
        let starts4 = [("identity-start", ident::<X, 4>()), ("nearly-affine-start", na4), ("nearly-affine-start", nb4), ("nearly-identity-start", near_ident::<4>(t)), ("rescaled-start", scaled(&dense4, sm)), ("rescaled-start", scaled(&dense4, lg))];
        let starts3 = [("identity-start", ident::<X, 3>()), ("nearly-affine-start", na3), ("nearly-affine-start", nb3), ("nearly-identity-start", near_ident::<3>(t)), ("rescaled-start", scaled(&dense3, sm)), ("rescaled-start", scaled(&dense3, lg))];
        let starts2 = [("identity-start", ident::<X, 2>()), ("nearly-affine-start", na2), ("nearly-identity-start", near_ident::<2>(t)), ("rescaled-start", scaled(&dense2, sm)), ("rescaled-start", scaled(&dense2, lg))];
        let probes4 = [[t, -(t * i(3)), t * i(5), i(7)], [hg, hg * i(3), -hg, i(0)], [i(1), i(0), i(0), i(1)], [i(0), i(0), i(1), i(0)], [i(2), i(-3), i(5), i(-1)], [i(0), i(0), i(0), i(1)]];
        let probes3 = [[t, -(t * i(3)), i(7)], [hg, hg * i(3), i(0)], [i(1), i(0), i(1)], [i(0), i(1), i(0)], [i(2), i(-3), i(5)], [i(0), i(0), i(1)]];
        let probes2 = [[t, -(t * i(3))], [hg, hg * i(3)], [i(1), i(0)], [i(0), i(1)], [i(2), i(-3)]];
        let small = |x: &X| *x != i(0) && *x < q(1, 1i128 << 52) && -*x < q(1, 1i128 << 52);
        for op in ops4.iter().chain(&ops3).chain(&ops2) {
            let ps: Vec<X> = match *op { Op::T2(v) | Op::S2(v) => v.to_vec(), Op::T3(v) | Op::S3(v) => v.to_vec(), Op::ShX(k) | Op::ShY(k) => vec![k], _ => vec![] };
            if ps.iter().any(small) { s.class("tiny-parameter"); }
            if ps.iter().any(|x| *x >= hg || -*x >= hg) { s.class("huge-parameter"); }
            if matches!(op, Op::S3(_) | Op::S2(_)) && ps.iter().any(|x| *x != one && small(&(*x - one))) { s.class("nearly-unit-scale"); }
            if matches!(op, Op::S3(_) | Op::S2(_)) && ps.iter().all(|x| *x == ps[0]) { s.class("uniform-scale"); }
            if matches!(op, Op::T3(_) | Op::T2(_)) && ps.iter().filter(|x| **x != i(0)).count() == 1 { s.class("single-lane-parameter"); }
            if matches!(op, Op::ShX(_) | Op::ShY(_)) && (ps[0] == one || ps[0] == -one) { s.class("unit-shear"); }
        }
        let mut n = 0u64;
        // (a) the helpers with ALL probes (tiny and huge included) on the special states themselves, (b) every single call from them, the helpers
        // on the reached matrices with the ordinary probes (three tiny factors would leave the i128 rationals of the exact element type)
        macro_rules! run { ($N:expr, $Mat:ident, $starts:expr, $ops:expr, $probes:expr, $refn:ident, $real:ident, $helper:ident, $name:expr) => {{
            let ordinary: Vec<[X; $N]> = $probes[2..].to_vec();
            for (k, (cls, st)) in $starts.iter().enumerate() {
                s.class(cls);
                for (len, pr) in [(0usize, &$probes[..]), (1usize, &ordinary[..])] {
                    { let g = Gen::<rm::$Mat<X>, $N> { ty: format!("{}<row>", $name), ops: &$ops, refn: $refn, real: &|m, op| $real!(m, op, rm), helper: &$helper!(rm), probes: pr, start: *st, start_weight: k as u64 };
                      gen_dfs(s, &g, len, <rm::$Mat<X> as MatIO<X, $N>>::build(st), st, &mut Vec::new(), &mut n); }
                    { let g = Gen::<cm::$Mat<X>, $N> { ty: format!("{}<col>", $name), ops: &$ops, refn: $refn, real: &|m, op| $real!(m, op, cm), helper: &$helper!(cm), probes: pr, start: *st, start_weight: k as u64 };
                      gen_dfs(s, &g, len, <cm::$Mat<X> as MatIO<X, $N>>::build(st), st, &mut Vec::new(), &mut n); }
                }
            }
        }} }
        run!(4, Mat4, starts4, ops4, probes4, ref4, real_op4, helper4, "Mat4");
        run!(3, Mat3, starts3, ops3, probes3, ref3, real_op3, helper3, "Mat3");
        run!(2, Mat2, starts2, ops2, probes2, ref2, real_op2, helper2, "Mat2");
        s.evals(n, n);
        s.meta("transitions_and_helper_evaluations", json!(n));
        // Transform with tiny / huge positions and tiny / nearly-unit / huge scales
        let all = unit_axes(); let axes = [all[0], all[14], all[55]];
        let circ = circle_points();
        let positions = [[i(0), i(0), i(0)], [t, -(t * i(3)), t * i(5)], [hg, -hg, hg * i(3)]];
        let scales = [[t, t, t], [one + t, one + t, one + t], [hg, hg, hg], [one + t, one, one - t], [t, one, hg]];
        let probes = [[i(1), i(0), i(0)], [i(0), i(1), i(0)], [i(0), i(0), i(1)], [i(1), i(2), i(3)], [i(0), i(0), i(0)], [q(-1, 2), i(7), i(-4)]];
        for (ai, ax) in axes.iter().enumerate() { for (ci, &(ch, sh)) in circ.iter().enumerate() {
            let (c, sn) = (ch * ch - sh * sh, qi(2) * ch * sh);
            let r3 = rodrigues(ax, c, sn);
            let quat = Quaternion { x: ax[0] * sh, y: ax[1] * sh, z: ax[2] * sh, w: ch };
            for (pi, pos) in positions.iter().enumerate() { for (si, sc) in scales.iter().enumerate() {
                if pi == 1 { s.class("transform-tiny-position"); }
                if si == 0 { s.class("transform-tiny-scale"); }
                if si == 1 || si == 3 { s.class("transform-nearly-unit-scale"); }
                transform_case(s, pos, quat, &r3, sc, &probes, (ci as u64) * 10 + (pi as u64) * 5 + 1000 * (ai as u64).min(1), c != qi(1));
            } }
        } }
        s.sample(json!({"start": "Mat4 dense with last row (2^-54, 0, -3*2^-54, 1)", "call": "translated_3d((3*2^30, -2^30, 2^30))", "law": "row i gains v_i * (last row): entry [0][0] changes by 3*2^-24 - an 'affine enough' shortcut that only touches the last column is visible"}));
        s.sample(json!({"start": "identity", "call": "translate_3d((2^-54, -3*2^-54, 5*2^-54))", "law": "the last column becomes exactly the tiny vector (no 'negligible translation' early return in the twin)"}));
    });

    rep.section("floats: builders, in-place twins, constructors and point/direction helpers on f32 and f64 against oracles computed exactly from the floats",
        "element types f32 and f64 x both layouts x Mat4 / Mat3 / Mat2. Prior states: identity, dense projective, dense * 2^-20, dense * 2^30, nearly affine (last row (2^-30, 0, -2^-35, 1) and (0,..,0, 1+8u)), affine with a 2^40 translation column, singular. Calls: translations {0, ordinary, tiny 2^-60, huge 2^40, mixed tiny/1/huge, single lane}, scalings {1, uniform 2 / -1, nearly unit (1+8u, 1, 1-8u), (2^-60, 2^40, -1), zero lanes, all zero, ordinary}, shears {0, 1, -1, 2^-60, 2^40, 1/2, -3}, rotations about x/y/z by {0.7, 2^-60, -2.5, 0, 7.5 (more than a full turn), 2^40} and about (1,2,2) by {1.1, 2^-60}; every call from every state, every 2-call sequence from the identity and the dense state (thorough: every 2-call sequence from every state). After every call: in-place twin == returning form and returning form == REAL constructor * REAL prior state bit for bit (the statement read literally); the REAL translation/scaling/shear constructor holds exactly 0 / 1 / the parameter bits; every entry of the returning form lies within gamma_N * sum|c_ik m_kj| of the EXACT value sum c_ik m_kj (c = textbook constructor of the parameters, for rotations the decoded real constructor; m = the decoded real prior state; exact 768-bit fixed point; gamma_N = N u/(1-N u), the forward bound of any evaluation order, fused or not). On every reached matrix: mul_point / mul_direction (Vec3, Vec4 with junk w, Vec2), mul_point_2d / mul_direction_2d (Vec2, Vec3 with junk z), M*v with probes {ordinary, unit, tiny 2^-30, huge 2^20, mixed}: each lane within gamma_N * sum|m_ik h_k| of the exact sum m_ik h_k, h = (p,1) / (p,0) - for directions the translation column contributes 0 to the bound, so nothing of it may leak. Entries whose exact terms leave the magnitude policy window are counted, not asserted; non-trivial: all", true, false, |s| {
        s.require_classes(&["f32", "f64", "tiny-parameter", "huge-parameter", "nearly-unit-scale", "tiny-angle", "zero-angle", "angle-beyond-a-full-turn", "nearly-affine-start", "huge-translation-start", "identity-start", "call-sequences"]);
        let (ty, hg) = (2f64.powi(-60), 2f64.powi(40));
        let cnt_tot = std::sync::Mutex::new([0u64; 3]);
        macro_rules! runf { ($F:ty) => {{
            let p = <$F as Fl>::P; s.class(<$F as Fl>::NAME);
            let e8 = 2f64.powi(3 - p as i32); let (n1, n1m) = (1.0 + e8, 1.0 - e8);
            let angles = [0.7, ty, -2.5, 0.0, 7.5, hg];
            let mut ops4 = vec![FOp::T3([0.0, 0.0, 0.0]), FOp::T3([1.0, 2.0, 3.0]), FOp::T3([ty, -3.0 * ty, 5.0 * ty]), FOp::T3([3.0 * hg, -hg, 2.0 * hg]), FOp::T3([ty, 1.0, hg]), FOp::T3([0.0, 0.0, 7.0]), FOp::T3([-2.5, 0.375, 0.0]),
                FOp::T2([3.0, -1.0]), FOp::T2([ty, -ty]), FOp::T2([hg, 3.0 * hg]), FOp::T2([0.0, 5.0])];
            let s3 = [FOp::S3([1.0, 1.0, 1.0]), FOp::S3([2.0, 2.0, 2.0]), FOp::S3([-1.0, -1.0, -1.0]), FOp::S3([n1, 1.0, n1m]), FOp::S3([ty, hg, -1.0]), FOp::S3([0.0, 1.0, -1.0]), FOp::S3([0.0, 0.0, 0.0]), FOp::S3([3.0, 0.5, -0.25])];
            ops4.extend(s3);
            let mut ops3 = vec![FOp::T2([0.0, 0.0]), FOp::T2([3.0, -1.0]), FOp::T2([ty, -ty]), FOp::T2([hg, 3.0 * hg]), FOp::T2([0.0, 5.0]), FOp::T2([ty, hg])];
            ops3.extend(s3);
            for a in angles { ops4.extend([FOp::RX(a), FOp::RY(a), FOp::RZ(a)]); ops3.extend([FOp::RX(a), FOp::RY(a), FOp::RZ(a)]); }
            for a in [1.1, ty] { ops4.push(FOp::R3(a)); ops3.push(FOp::R3(a)); }
            let mut ops2 = vec![FOp::S2([1.0, 1.0]), FOp::S2([2.0, 2.0]), FOp::S2([-1.0, -1.0]), FOp::S2([n1, n1m]), FOp::S2([ty, hg]), FOp::S2([0.0, -2.0]), FOp::S2([3.0, 0.5])];
            for k in [0.0, 1.0, -1.0, ty, hg, 0.5, -3.0] { ops2.push(FOp::ShX(k)); ops2.push(FOp::ShY(-k)); }
            for a in angles { ops2.push(FOp::RZ(a)); }
            for op in ops4.iter().chain(&ops3).chain(&ops2) {
                let ps = fop_params(*op);
                if fop_ref::<4>(*op).is_some() && ps.iter().any(|v| (*v as $F) as f64 != *v) { s.rep.machinery_error(format!("{:?} is not representable in {}", op, <$F as Fl>::NAME)); }
                let rot = matches!(op, FOp::RX(_) | FOp::RY(_) | FOp::RZ(_) | FOp::R3(_));
                if rot { if ps[0] == 0.0 { s.class("zero-angle"); } else if ps[0].abs() < 1e-15 { s.class("tiny-angle"); } else if ps[0].abs() > 6.3 { s.class("angle-beyond-a-full-turn"); } }
                else { if ps.iter().any(|v| *v != 0.0 && v.abs() < 1e-15) { s.class("tiny-parameter"); } if ps.iter().any(|v| v.abs() > 1e10) { s.class("huge-parameter"); }
                    if matches!(op, FOp::S3(_) | FOp::S2(_)) && ps.iter().any(|v| *v != 1.0 && (*v - 1.0).abs() < 1e-5) { s.class("nearly-unit-scale"); } }
            }
            let dense4: A<f64, 4> = [[2.0, -1.0, 3.0, 5.0], [0.0, 4.0, 1.0, -2.0], [7.0, 1.0, -3.0, 0.5], [1.0, -2.0, 3.0, 4.0]];
            let sing4: A<f64, 4> = [[1.0, 2.0, 3.0, 4.0], [0.0, 1.0, -1.0, 2.0], [1.0, 3.0, 2.0, 6.0], [3.0, 0.0, -1.0, 2.0]];
            let dense3: A<f64, 3> = [[2.0, -1.0, 3.0], [0.0, 4.0, 1.0], [7.0, 0.5, -3.0]];
            let sing3: A<f64, 3> = [[1.0, 2.0, 3.0], [0.0, 1.0, -1.0], [1.0, 3.0, 2.0]];
            let dense2: A<f64, 2> = [[2.0, -1.0], [3.0, 5.0]];
            fn sc<const N: usize>(m: &A<f64, N>, k: f64) -> A<f64, N> { let mut o = *m; for r in o.iter_mut() { for e in r.iter_mut() { *e *= k; } } o }
            fn id<const N: usize>() -> A<f64, N> { let mut o = [[0.0; N]; N]; for d in 0..N { o[d][d] = 1.0; } o }
            let (tiny_s, huge_s) = (2f64.powi(-20), 2f64.powi(30));
            let mut na4 = dense4; na4[3] = [2f64.powi(-30), 0.0, -(2f64.powi(-35)), 1.0];
            let mut nb4 = dense4; nb4[3] = [0.0, 0.0, 0.0, n1];
            let mut ht4 = dense4; ht4[3] = [0.0, 0.0, 0.0, 1.0]; ht4[0][3] = 3.0 * hg; ht4[1][3] = -hg; ht4[2][3] = 0.25 * hg;
            let mut na3 = dense3; na3[2] = [2f64.powi(-30), -(2f64.powi(-35)), 1.0];
            let mut nb3 = dense3; nb3[2] = [0.0, 0.0, n1];
            let mut ht3 = dense3; ht3[2] = [0.0, 0.0, 1.0]; ht3[0][2] = 3.0 * hg; ht3[1][2] = -hg;
            let two = if s.thorough() { 2 } else { 1 };
            let starts4: Vec<(&'static str, A<f64, 4>, usize)> = vec![("identity-start", id::<4>(), 2), ("dense-projective-start", dense4, 2), ("rescaled-start", sc(&dense4, tiny_s), two), ("rescaled-start", sc(&dense4, huge_s), two),
                ("nearly-affine-start", na4, two), ("nearly-affine-start", nb4, two), ("huge-translation-start", ht4, two), ("singular-start", sing4, two)];
            let starts3: Vec<(&'static str, A<f64, 3>, usize)> = vec![("identity-start", id::<3>(), 2), ("dense-projective-start", dense3, 2), ("rescaled-start", sc(&dense3, tiny_s), two), ("rescaled-start", sc(&dense3, huge_s), two),
                ("nearly-affine-start", na3, two), ("nearly-affine-start", nb3, two), ("huge-translation-start", ht3, two), ("singular-start", sing3, two)];
            let starts2: Vec<(&'static str, A<f64, 2>, usize)> = vec![("identity-start", id::<2>(), 2), ("dense-projective-start", dense2, 2), ("rescaled-start", sc(&dense2, tiny_s), two), ("rescaled-start", sc(&dense2, huge_s), two),
                ("nearly-affine-start", [[n1, ty], [-ty, n1m]], two), ("singular-start", [[1.0, 2.0], [-2.0, -4.0]], two)];
            let (pt, ph) = (2f64.powi(-30), 2f64.powi(20));
            let probes4 = [[0.0, 0.0, 0.0, 7.0], [1.0, 0.0, 0.0, 0.0], [0.0, 1.0, 0.0, -1.0], [0.0, 0.0, 1.0, 1.0], [2.0, -3.0, 5.0, 7.0], [0.5, 7.0, -1.0, -0.75], [pt, -3.0 * pt, 5.0 * pt, 1.0], [ph, 3.0 * ph, -ph, 0.0], [1.0, pt, -ph, 3.0]];
            let probes3 = [[0.0, 0.0, 7.0], [1.0, 0.0, 0.0], [0.0, 1.0, -1.0], [2.0, -3.0, 5.0], [0.5, 7.0, -0.75], [pt, -3.0 * pt, 1.0], [ph, 3.0 * ph, 0.0], [pt, -ph, 3.0]];
            let probes2 = [[0.0, 0.0], [1.0, 0.0], [0.0, 1.0], [2.0, -3.0], [0.5, 7.0], [pt, -3.0 * pt], [ph, 3.0 * ph], [pt, -ph]];
            let mut cnt = [0u64; 3];
            macro_rules! go { ($N:expr, $Mat:ident, $starts:expr, $ops:expr, $probes:expr, $real:ident, $helper:ident, $name:expr, $L:ident, $lay:literal) => {{
                for (cls, st, len) in $starts.iter() {
                    s.class(cls); if *len >= 2 { s.class("call-sequences"); }
                    let g = FGen::<$L::$Mat<$F>, $N> { ty: format!("{}<{}>", $name, $lay), fname: <$F as Fl>::NAME, p, ops: &$ops, probes: &$probes, start_name: cls, start: *st, win: fwindow(p),
                        real: &$real!($F, $L), helper: &$helper!($F, $L), dec: &|m: &$L::$Mat<$F>| widen::<$F, $N>(&m.decode()) };
                    fgen_dfs(s, &g, *len, <$L::$Mat<$F> as MatIO<$F, $N>>::build(&narrow::<$F, $N>(st)), &mut Vec::new(), &mut cnt);
                }
            }} }
            go!(4, Mat4, starts4, ops4, probes4, freal4, fhelper4, "Mat4", rm, "row"); go!(4, Mat4, starts4, ops4, probes4, freal4, fhelper4, "Mat4", cm, "col");
            go!(3, Mat3, starts3, ops3, probes3, freal3, fhelper3, "Mat3", rm, "row"); go!(3, Mat3, starts3, ops3, probes3, freal3, fhelper3, "Mat3", cm, "col");
            go!(2, Mat2, starts2, ops2, probes2, freal2, fhelper2, "Mat2", rm, "row"); go!(2, Mat2, starts2, ops2, probes2, freal2, fhelper2, "Mat2", cm, "col");
            let mut t = cnt_tot.lock().unwrap(); for k in 0..3 { t[k] += cnt[k]; }
        }} }
        rayon::scope(|sc| { sc.spawn(|_| runf!(f32)); sc.spawn(|_| runf!(f64)); });
        let c = *cnt_tot.lock().unwrap();
        s.evals(c[0] + c[2], c[0] + c[2]);
        s.meta("float_oracle", json!({"entries_checked_against_the_exact_value": c[0], "entries_outside_the_magnitude_policy_window(not asserted)": c[1], "transitions": c[2]}));
        if c[1] * 4 > c[0] { s.rep.machinery_error(format!("float section: {} of {} entries fell outside the magnitude policy window", c[1], c[0] + c[1])); }
        s.sample(json!({"type": "f64", "start": "identity", "call": "rotated_z(2^-60)", "law": "entry [1][0] = sin(2^-60) * 1 within gamma_4 * 2^-60 - returning self for a 'negligible' angle is visible"}));
        s.sample(json!({"type": "f32", "start": "dense, last row (2^-30, 0, -2^-35, 1)", "call": "translated_3d((3*2^40, -2^40, 2^41))", "law": "entry [0][0] = 2 + 3*2^40*2^-30 = 3074 exactly"}));
    });

    rep.section("floats: Mat4::from(Transform) on f32 and f64 with nearly-identity, half-turn and general unit quaternions",
        "f32 and f64 x both layouts: orientations {identity, -identity, (0,0,2^-30,1), (2^-30,-2^-31,2^-32,1), (0,0,2^-30,-1) [w rounds to +-1 although the rotation is not the identity], the three half turns (w = 0, one non-zero lane), (1/2,1/2,1/2,1/2), (.36,.48,.64,.48), (.6,0,0,.8), (0,.8,0,-.6), (0,0,r,r) with r = sqrt(1/2)} x positions {0, (1,-2,3), tiny 2^-60, huge 2^30} x uniform scales {1, 2, -1, 1+8u, 2^-20, 2^20} and - for the identity, -identity and half-turn orientations, where rotating and scaling commute - non-uniform scales {(2,1/2,-3), (2^-20,1,2^20)}: last row is exactly (0,0,0,1), the last column is the position, and every entry [i][j] of the 3x3 block lies within gamma_8 * |scale_j| * sum|terms| of the EXACT value of scale_j * R_ij, R = the rotation p -> p + 2w(u x p) + 2u x (u x p) of the quaternion evaluated exactly on the floats (at most 8 roundings per term in any usual evaluation order); non-trivial: non-identity orientation", true, false, |s| {
        s.require_classes(&["nearly-identity-quaternion", "half-turn", "general-quaternion", "tiny-position", "huge-position", "tiny-scale", "nearly-unit-scale"]);
        let mut skipped = 0u64;
        macro_rules! ftr { ($F:ty, $L:ident, $lay:literal) => {{
            let p = <$F as Fl>::P; let win = fwindow(p); let f = |v: f64| v as $F;
            let e8 = 2f64.powi(3 - p as i32);
            let (a, b, c) = (2f64.powi(-30), 2f64.powi(-31), 2f64.powi(-32));
            let r = (std::f64::consts::FRAC_1_SQRT_2 as $F) as f64;
            let nar = |v: f64| ((v as $F) as f64);
            let quats: Vec<(&'static str, [f64; 4], bool)> = vec![("identity", [0.0, 0.0, 0.0, 1.0], true), ("identity", [0.0, 0.0, 0.0, -1.0], true),
                ("nearly-identity-quaternion", [0.0, 0.0, a, 1.0], false), ("nearly-identity-quaternion", [a, -b, c, 1.0], false), ("nearly-identity-quaternion", [0.0, 0.0, a, -1.0], false),
                ("half-turn", [1.0, 0.0, 0.0, 0.0], true), ("half-turn", [0.0, 1.0, 0.0, 0.0], true), ("half-turn", [0.0, 0.0, 1.0, 0.0], true),
                ("general-quaternion", [0.5, 0.5, 0.5, 0.5], false), ("general-quaternion", [nar(0.36), nar(0.48), nar(0.64), nar(0.48)], false), ("general-quaternion", [nar(0.6), 0.0, 0.0, nar(0.8)], false),
                ("general-quaternion", [0.0, nar(0.8), 0.0, nar(-0.6)], false), ("general-quaternion", [0.0, 0.0, r, r], false)];
            let (ty, hg) = (2f64.powi(-60), 2f64.powi(30));
            let positions = [[0.0, 0.0, 0.0], [1.0, -2.0, 3.0], [ty, -3.0 * ty, 5.0 * ty], [hg, -hg, 3.0 * hg]];
            let uni = [1.0, 2.0, -1.0, 1.0 + e8, 2f64.powi(-20), 2f64.powi(20)];
            let mut scales: Vec<([f64; 3], bool)> = uni.iter().map(|k| ([*k; 3], true)).collect();
            scales.push(([2.0, 0.5, -3.0], false)); scales.push(([2f64.powi(-20), 1.0, 2f64.powi(20)], false));
            for (qc, q, commutes) in &quats { let rt = quat_terms(q); for (pi, pos) in positions.iter().enumerate() { for (si, (sc, uniform)) in scales.iter().enumerate() {
                if !*uniform && !*commutes { continue; }
                s.class(qc); s.eval(*qc != "identity");
                if pi == 2 { s.class("tiny-position"); } if pi == 3 { s.class("huge-position"); } if si == 4 { s.class("tiny-scale"); } if si == 3 { s.class("nearly-unit-scale"); }
                let t = Transform { position: Vec3 { x: f(pos[0]), y: f(pos[1]), z: f(pos[2]) }, orientation: Quaternion { x: f(q[0]), y: f(q[1]), z: f(q[2]), w: f(q[3]) }, scale: Vec3 { x: f(sc[0]), y: f(sc[1]), z: f(sc[2]) } };
                let site = format!("Mat4<{}>::from(Transform)<{}>", $lay, <$F as Fl>::NAME);
                let inp = || json!({"position": jd(pos), "orientation(x,y,z,w)": jd(q), "scale": jd(sc)});
                let Some(m) = s.call(&site, inp, || widen::<$F, 4>(&$L::Mat4::<$F>::from(t).decode())) else { continue };
                let wgt = (pi + si) as u64;
                if (0..4).any(|j| m[3][j].to_bits() != [0.0f64, 0.0, 0.0, 1.0][j].to_bits() && !(j < 3 && m[3][j] == 0.0)) { s.violation_w(&site, "last-row-is-not-(0,0,0,1)", json!({"input": inp(), "got": jd(&m)}), wgt); continue; }
                'e: for i in 0..3 {
                    match terms_ok([bprod(&[pos[i]])].into_iter(), m[i][3], 1, p, &win) { Some(false) => { s.violation_w(&site, "last-column-is-not-the-position", json!({"input": inp(), "got": jd(&m)}), wgt); break 'e; } None => skipped += 1, _ => {} }
                    for j in 0..3 {
                        let terms = rt[i][j].iter().map(|tm| { let mut v = tm.clone(); v.push(sc[j]); bprod(&v) });
                        match terms_ok(terms, m[i][j], 8, p, &win) { Some(false) => { s.violation_w(&site, "not-position+orientation*(scale.p) (beyond the forward error bound)", json!({"input": inp(), "entry": [i, j], "got": jd(&m)}), wgt); break 'e; } None => skipped += 1, _ => {} }
                    }
                }
            } } }
        }} }
        ftr!(f32, rm, "row"); ftr!(f32, cm, "col"); ftr!(f64, rm, "row"); ftr!(f64, cm, "col");
        s.meta("entries_outside_the_magnitude_policy_window(not asserted)", json!(skipped));
        s.sample(json!({"type": "f64", "orientation(x,y,z,w)": [0, 0, "2^-30", 1], "scale": [2, 2, 2], "law": "entry [1][0] = 2 * (2xy + 2zw) = 2^-28 exactly; w == 1 does not mean the rotation is the identity"}));
    });

    std::process::exit(rep.finish_with(lk));
}
