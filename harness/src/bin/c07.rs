//! C07 — affine builders and Transform act on points as defined and chain in call order.
use stateright::{Checker, Model, Property};
use std::sync::atomic::{AtomicU64, Ordering::Relaxed};
use std::sync::Arc;
use vek::{Quaternion, Transform};
use vx::lattice::*;
use vx::matx::*;
use vx::q::angle_base_t;
use vx::*;

fn xi(v: i64) -> X { qi(v as i128) }

// ---- reference step semantics on points (the property's wording: apply the steps one after the other) ----
#[derive(Clone, Copy, Debug, PartialEq, Eq, Hash)]
enum Step { T2(i8, i8), T3(i8, i8, i8), S3(i8, i8, i8, i8), S2(i8, i8, i8), RX(u8, i8), RY(u8, i8), RZ(u8, i8), R3(u8, i8), ShX(i8), ShY(i8) }

/// angle bases are per-thread: register them in a fixed order so indices agree on every thread
fn bases() -> [u8; 2] { [angle_base_t(1, 2), angle_base_t(-1, 3)] }
fn tok(which: u8, k: i8) -> X { X::tok(bases()[which as usize], k as i128) }
fn sc(which: u8, k: i8) -> (X, X) { let (s, c) = tok(which, k).sin_cos_q(); (X::R(s), X::R(c)) }
const AXIS: [i128; 3] = [1, 2, 2]; // |axis| = 3

/// the textbook linear map of one step, applied to a point/direction (w = 1 / 0) in 3D
fn apply3(st: Step, p: [X; 3], w: X) -> [X; 3] {
    match st {
        Step::T2(a, b) => [p[0] + xi(a as i64) * w, p[1] + xi(b as i64) * w, p[2]],
        Step::T3(a, b, c) => [p[0] + xi(a as i64) * w, p[1] + xi(b as i64) * w, p[2] + xi(c as i64) * w],
        Step::S3(a, b, c, d) => [p[0] * q(a as i128, d as i128), p[1] * q(b as i128, d as i128), p[2] * q(c as i128, d as i128)],
        Step::RX(b, k) => { let (s, c) = sc(b, k); [p[0], c * p[1] - s * p[2], s * p[1] + c * p[2]] }
        Step::RY(b, k) => { let (s, c) = sc(b, k); [c * p[0] + s * p[2], p[1], c * p[2] - s * p[0]] }
        Step::RZ(b, k) => { let (s, c) = sc(b, k); [c * p[0] - s * p[1], s * p[0] + c * p[1], p[2]] }
        Step::R3(b, k) => { let (s, c) = sc(b, k); let ax = [q(AXIS[0], 3), q(AXIS[1], 3), q(AXIS[2], 3)]; mvec(&rodrigues(&ax, c, s), &p) }
        _ => unreachable!(),
    }
}
/// textbook 4x4 matrix of a step (translation in the last column, linear part from apply3 on the basis)
fn mat4_of(st: Step) -> A<X, 4> {
    let mut m = ident::<X, 4>();
    for j in 0..3 { let mut e = [qi(0); 3]; e[j] = qi(1); let c = apply3(st, e, qi(0)); for i in 0..3 { m[i][j] = c[i]; } }
    let t = apply3(st, [qi(0); 3], qi(1)); for i in 0..3 { m[i][3] = t[i]; }
    m
}
/// Mat3 steps: homogeneous 2D translation, 3D scaling and rotations of the 3x3 matrix
fn mat3_of(st: Step) -> A<X, 3> {
    match st {
        Step::T2(a, b) => { let mut m = ident::<X, 3>(); m[0][2] = xi(a as i64); m[1][2] = xi(b as i64); m }
        _ => { let mut m = ident::<X, 3>(); for j in 0..3 { let mut e = [qi(0); 3]; e[j] = qi(1); let c = apply3(st, e, qi(0)); for i in 0..3 { m[i][j] = c[i]; } } m }
    }
}
fn mat2_of(st: Step) -> A<X, 2> {
    match st {
        Step::S2(a, b, d) => [[q(a as i128, d as i128), qi(0)], [qi(0), q(b as i128, d as i128)]],
        Step::ShX(k) => [[qi(1), xi(k as i64)], [qi(0), qi(1)]], // x += k*y
        Step::ShY(k) => [[qi(1), qi(0)], [xi(k as i64), qi(1)]], // y += k*x
        Step::RZ(b, k) => { let (s, c) = sc(b, k); [[c, -s], [s, c]] }
        _ => unreachable!(),
    }
}
fn apply2(st: Step, p: [X; 2]) -> [X; 2] { mvec(&mat2_of(st), &p) }

const ACTS4: [Step; 11] = [Step::T2(3, -1), Step::T3(1, 2, 3), Step::T3(-2, 0, 5), Step::S3(2, 1, 3, 1), Step::S3(1, -3, 1, 2), Step::RX(0, 1), Step::RY(0, 1), Step::RZ(1, 2), Step::RX(1, -1), Step::RZ(0, 3), Step::R3(0, 1)];
const ACTS3: [Step; 8] = [Step::T2(3, -1), Step::T2(-2, 5), Step::S3(2, 1, 3, 1), Step::S3(1, -3, 1, 2), Step::RX(0, 1), Step::RY(1, 2), Step::RZ(0, 1), Step::R3(1, 1)];
const ACTS2: [Step; 7] = [Step::S2(2, 3, 1), Step::S2(-1, 1, 2), Step::ShX(2), Step::ShY(-3), Step::ShX(-1), Step::RZ(0, 1), Step::RZ(1, -2)];

#[derive(Clone, Debug, PartialEq, Eq, Hash)]
enum St {
    C4 { steps: Vec<Step>, model: A<X, 4>, r: rm::Mat4<X>, c: cm::Mat4<X> },
    C3 { steps: Vec<Step>, model: A<X, 3>, r: rm::Mat3<X>, c: cm::Mat3<X> },
    C2 { steps: Vec<Step>, model: A<X, 2>, r: rm::Mat2<X>, c: cm::Mat2<X> },
    Bad { class: &'static str, site: String, detail: String },
}

macro_rules! real_step4 { ($m:expr, $st:expr, $M:ident) => {{
    let m = $m; let _ = bases();
    // returning form and in-place twin
    let (ret, inpl): ($M<X>, $M<X>) = match $st {
        Step::T2(a, b) => { let v = Vec2 { x: xi(a as i64), y: xi(b as i64) }; let mut t = m; t.translate_2d(v); (m.translated_2d(v), t) }
        Step::T3(a, b, c) => { let v = Vec3 { x: xi(a as i64), y: xi(b as i64), z: xi(c as i64) }; let mut t = m; t.translate_3d(v); (m.translated_3d(v), t) }
        Step::S3(a, b, c, d) => { let v = Vec3 { x: q(a as i128, d as i128), y: q(b as i128, d as i128), z: q(c as i128, d as i128) }; let mut t = m; t.scale_3d(v); (m.scaled_3d(v), t) }
        Step::RX(b, k) => { let mut t = m; t.rotate_x(tok(b, k)); (m.rotated_x(tok(b, k)), t) }
        Step::RY(b, k) => { let mut t = m; t.rotate_y(tok(b, k)); (m.rotated_y(tok(b, k)), t) }
        Step::RZ(b, k) => { let mut t = m; t.rotate_z(tok(b, k)); (m.rotated_z(tok(b, k)), t) }
        Step::R3(b, k) => { let ax = Vec3 { x: xi(AXIS[0] as i64), y: xi(AXIS[1] as i64), z: xi(AXIS[2] as i64) }; let mut t = m; t.rotate_3d(tok(b, k), ax); (m.rotated_3d(tok(b, k), ax), t) }
        _ => unreachable!(),
    };
    (ret, inpl)
}} }
macro_rules! real_step3 { ($m:expr, $st:expr, $M:ident) => {{
    let m = $m; let _ = bases();
    let (ret, inpl): ($M<X>, $M<X>) = match $st {
        Step::T2(a, b) => { let v = Vec2 { x: xi(a as i64), y: xi(b as i64) }; let mut t = m; t.translate_2d(v); (m.translated_2d(v), t) }
        Step::S3(a, b, c, d) => { let v = Vec3 { x: q(a as i128, d as i128), y: q(b as i128, d as i128), z: q(c as i128, d as i128) }; let mut t = m; t.scale_3d(v); (m.scaled_3d(v), t) }
        Step::RX(b, k) => { let mut t = m; t.rotate_x(tok(b, k)); (m.rotated_x(tok(b, k)), t) }
        Step::RY(b, k) => { let mut t = m; t.rotate_y(tok(b, k)); (m.rotated_y(tok(b, k)), t) }
        Step::RZ(b, k) => { let mut t = m; t.rotate_z(tok(b, k)); (m.rotated_z(tok(b, k)), t) }
        Step::R3(b, k) => { let ax = Vec3 { x: xi(AXIS[0] as i64), y: xi(AXIS[1] as i64), z: xi(AXIS[2] as i64) }; let mut t = m; t.rotate_3d(tok(b, k), ax); (m.rotated_3d(tok(b, k), ax), t) }
        _ => unreachable!(),
    };
    (ret, inpl)
}} }
macro_rules! real_step2 { ($m:expr, $st:expr, $M:ident) => {{
    let m = $m; let _ = bases();
    let (ret, inpl): ($M<X>, $M<X>) = match $st {
        Step::S2(a, b, d) => { let v = Vec2 { x: q(a as i128, d as i128), y: q(b as i128, d as i128) }; let mut t = m; t.scale_2d(v); (m.scaled_2d(v), t) }
        Step::ShX(k) => { let mut t = m; t.shear_x(xi(k as i64)); (m.sheared_x(xi(k as i64)), t) }
        Step::ShY(k) => { let mut t = m; t.shear_y(xi(k as i64)); (m.sheared_y(xi(k as i64)), t) }
        Step::RZ(b, k) => { let mut t = m; t.rotate_z(tok(b, k)); (m.rotated_z(tok(b, k)), t) }
        _ => unreachable!(),
    };
    (ret, inpl)
}} }

fn probes3() -> [[X; 3]; 4] { [[qi(0), qi(0), qi(0)], [qi(1), qi(0), qi(0)], [qi(2), qi(-3), qi(5)], [q(1, 2), qi(7), qi(-1)]] }
fn probes2() -> [[X; 2]; 4] { [[qi(0), qi(0)], [qi(1), qi(0)], [qi(2), qi(-3)], [q(1, 2), qi(7)]] }

fn step(s: &St, a: Step) -> St {
    let bad = |class: &'static str, site: String, detail: String| St::Bad { class, site, detail };
    match s {
        St::C4 { steps, model, r, c } => {
            use rm::Mat4 as R4; use cm::Mat4 as C4;
            let (rr, ri) = real_step4!(*r, a, R4);
            let (cr, ci) = real_step4!(*c, a, C4);
            let name = format!("Mat4 {:?}", a);
            if ri != rr || ci != cr { return bad("in-place-form-differs-from-returning-form", name, String::new()); }
            let model2 = mmul(&mat4_of(a), model);
            let mut steps2 = steps.clone(); steps2.push(a);
            if rr.decode() != model2 { return bad("chained-builder-is-not-premultiplication-by-the-constructor", format!("{} <row>", name), format!("after {:?}: got {:?} want {:?}", steps2, rr.decode(), model2)); }
            if cr.decode() != model2 { return bad("chained-builder-is-not-premultiplication-by-the-constructor", format!("{} <col>", name), format!("after {:?}: got {:?} want {:?}", steps2, cr.decode(), model2)); }
            for p in probes3() {
                let mut w = p; for st in &steps2 { w = apply3(*st, w, qi(1)); }
                let mut wd = p; for st in &steps2 { wd = apply3(*st, wd, qi(0)); }
                let pv = Vec3 { x: p[0], y: p[1], z: p[2] };
                let (g1, g2) = (rr.mul_point(pv), cr.mul_point(pv));
                if dv3(&g1) != w || dv3(&g2) != w { return bad("chain-does-not-apply-steps-in-call-order", format!("{} mul_point", name), format!("steps {:?} point {:?}: got {:?}/{:?} want {:?}", steps2, p, g1, g2, w)); }
                let (d1, d2) = (rr.mul_direction(pv), cr.mul_direction(pv));
                if dv3(&d1) != wd || dv3(&d2) != wd { return bad("chain-does-not-apply-steps-in-call-order", format!("{} mul_direction", name), format!("steps {:?} direction {:?}: got {:?}/{:?} want {:?}", steps2, p, d1, d2, wd)); }
            }
            St::C4 { steps: steps2, model: model2, r: rr, c: cr }
        }
        St::C3 { steps, model, r, c } => {
            use rm::Mat3 as R3; use cm::Mat3 as C3;
            let (rr, ri) = real_step3!(*r, a, R3);
            let (cr, ci) = real_step3!(*c, a, C3);
            let name = format!("Mat3 {:?}", a);
            if ri != rr || ci != cr { return bad("in-place-form-differs-from-returning-form", name, String::new()); }
            let model2 = mmul(&mat3_of(a), model);
            let mut steps2 = steps.clone(); steps2.push(a);
            if rr.decode() != model2 || cr.decode() != model2 { return bad("chained-builder-is-not-premultiplication-by-the-constructor", name, format!("after {:?}: got {:?}/{:?} want {:?}", steps2, rr.decode(), cr.decode(), model2)); }
            for p in probes2() {
                // homogeneous 2D reading: point (x,y,1), direction (x,y,0), mapped by the whole 3x3 product
                let hp = mvec(&model2, &[p[0], p[1], qi(1)]); let hd = mvec(&model2, &[p[0], p[1], qi(0)]);
                let pv = Vec2 { x: p[0], y: p[1] };
                let (g1, g2) = (rr.mul_point_2d(pv), cr.mul_point_2d(pv));
                if dv2(&g1) != [hp[0], hp[1]] || dv2(&g2) != [hp[0], hp[1]] { return bad("mul_point_2d-is-not-the-w=1-product", name.clone(), format!("steps {:?} point {:?}", steps2, p)); }
                let (d1, d2) = (rr.mul_direction_2d(pv), cr.mul_direction_2d(pv));
                if dv2(&d1) != [hd[0], hd[1]] || dv2(&d2) != [hd[0], hd[1]] { return bad("mul_direction_2d-is-not-the-w=0-product", name.clone(), format!("steps {:?} direction {:?}", steps2, p)); }
            }
            for p in probes3() { // as a 3D linear map: steps applied one after the other (2D translations act as shears of z)
                let mut w = p; for st in &steps2 { w = mvec(&mat3_of(*st), &w); }
                let pv = Vec3 { x: p[0], y: p[1], z: p[2] };
                if dv3(&(rr * pv)) != w || dv3(&(cr * pv)) != w { return bad("chain-does-not-apply-steps-in-call-order", name.clone(), format!("steps {:?} vector {:?}", steps2, p)); }
            }
            St::C3 { steps: steps2, model: model2, r: rr, c: cr }
        }
        St::C2 { steps, model, r, c } => {
            use rm::Mat2 as R2; use cm::Mat2 as C2;
            let (rr, ri) = real_step2!(*r, a, R2);
            let (cr, ci) = real_step2!(*c, a, C2);
            let name = format!("Mat2 {:?}", a);
            if ri != rr || ci != cr { return bad("in-place-form-differs-from-returning-form", name, String::new()); }
            let model2 = mmul(&mat2_of(a), model);
            let mut steps2 = steps.clone(); steps2.push(a);
            if rr.decode() != model2 || cr.decode() != model2 { return bad("chained-builder-is-not-premultiplication-by-the-constructor", name, format!("after {:?}: got {:?}/{:?} want {:?}", steps2, rr.decode(), cr.decode(), model2)); }
            for p in probes2() {
                let mut w = p; for st in &steps2 { w = apply2(*st, w); }
                let pv = Vec2 { x: p[0], y: p[1] };
                if dv2(&(rr * pv)) != w || dv2(&(cr * pv)) != w { return bad("chain-does-not-apply-steps-in-call-order", name.clone(), format!("steps {:?} vector {:?}", steps2, p)); }
            }
            St::C2 { steps: steps2, model: model2, r: rr, c: cr }
        }
        St::Bad { .. } => s.clone(),
    }
}

struct ChainModel { transitions: Arc<AtomicU64>, depth: usize }
impl Model for ChainModel {
    type State = St;
    type Action = Step;
    fn init_states(&self) -> Vec<St> {
        vec![St::C4 { steps: vec![], model: ident::<X, 4>(), r: rm::Mat4::identity(), c: cm::Mat4::identity() },
             St::C3 { steps: vec![], model: ident::<X, 3>(), r: rm::Mat3::identity(), c: cm::Mat3::identity() },
             St::C2 { steps: vec![], model: ident::<X, 2>(), r: rm::Mat2::identity(), c: cm::Mat2::identity() }]
    }
    fn actions(&self, s: &St, acts: &mut Vec<Step>) {
        match s { St::C4 { steps, .. } if steps.len() < self.depth => acts.extend(ACTS4), St::C3 { steps, .. } if steps.len() < self.depth => acts.extend(ACTS3), St::C2 { steps, .. } if steps.len() < self.depth => acts.extend(ACTS2), _ => {} }
    }
    fn next_state(&self, s: &St, a: Step) -> Option<St> {
        self.transitions.fetch_add(1, Relaxed);
        Some(match catch(|| step(s, a)) { Ok(n) => n, Err(e) => St::Bad { class: "panic-or-unmodelled", site: format!("{:?}", a), detail: format!("{:?}", e) } })
    }
    fn properties(&self) -> Vec<Property<Self>> { vec![Property::always("real chained builders equal the model and apply steps in call order", |_, s| !matches!(s, St::Bad { .. }))] }
}

fn main() {
    let rep = Report::start("C07", "model_checking");
    let extra = if rep.thorough() { 2 } else { 1 };
    let mut lk = json!({"states": 1, "transitions": 1, "traces_validated_against_impl": 1});

    rep.section("constructors act on points by their definitions (lattice, exact)",
        "L(6, 2+extra): translation vector t and point p (3+3 coordinates; Mat4 translation_3d/translation_2d, Mat3 translation_2d), scale vector and point (scaling_3d on Mat3/Mat4, scaling_2d on Mat2), shear factor and point (Mat2 shearing_x/y): decoded matrix applied with the reference product moves points by t / multiplies per axis / adds k times the other coordinate, leaves directions alone, and the real mul_point/mul_direction(_2d) equal the w=1 / w=0 products; both layouts; non-trivial: parameter and point non-zero", true, true, |s| {
        par_lattice(6, 2 + extra, |a| {
            let v: [X; 3] = [xi(a[0]) - qi(1), xi(a[1]), xi(a[2]) - qi(2)];
            let p: [X; 3] = [xi(a[3]), xi(a[4]) - qi(1), xi(a[5])];
            let nz = a[..3].iter().any(|&x| x != 0) && a[3..].iter().any(|&x| x != 0);
            let w = a.iter().sum::<i64>() as u64;
            let inp = || json!({"param": jxs(&v), "point": jxs(&p)});
            let (v3, v2, p3, p2) = (Vec3 { x: v[0], y: v[1], z: v[2] }, Vec2 { x: v[0], y: v[1] }, Vec3 { x: p[0], y: p[1], z: p[2] }, Vec2 { x: p[0], y: p[1] });
            macro_rules! chk { ($site:expr, $got:expr, $want:expr) => {{ s.eval(nz); if let Some(g) = $got { if g != $want { s.violation_w($site, "does-not-act-as-defined", json!({"input": inp(), "got": jd(&g), "want": jd(&$want)}), w); } } }} }
            macro_rules! mat4 { ($L:ident, $lay:expr) => {{
                let t3 = s.call("translation_3d", inp, || $L::Mat4::<X>::translation_3d(v3));
                if let Some(m) = t3 { let d = m.decode();
                    chk!(&format!("Mat4<{}>::translation_3d point", $lay), Some(mvec(&d, &[p[0], p[1], p[2], qi(1)])), [p[0] + v[0], p[1] + v[1], p[2] + v[2], qi(1)]);
                    chk!(&format!("Mat4<{}>::translation_3d direction", $lay), Some(mvec(&d, &[p[0], p[1], p[2], qi(0)])), [p[0], p[1], p[2], qi(0)]);
                    chk!(&format!("Mat4<{}>::mul_point", $lay), s.call("mul_point", inp, || dv3(&m.mul_point(p3))), [p[0] + v[0], p[1] + v[1], p[2] + v[2]]);
                    chk!(&format!("Mat4<{}>::mul_direction", $lay), s.call("mul_direction", inp, || dv3(&m.mul_direction(p3))), p);
                }
                if let Some(m) = s.call("translation_2d", inp, || $L::Mat4::<X>::translation_2d(v2)) { chk!(&format!("Mat4<{}>::translation_2d point", $lay), Some(mvec(&m.decode(), &[p[0], p[1], p[2], qi(1)])), [p[0] + v[0], p[1] + v[1], p[2], qi(1)]); }
                if let Some(m) = s.call("scaling_3d", inp, || $L::Mat4::<X>::scaling_3d(v3)) { chk!(&format!("Mat4<{}>::scaling_3d", $lay), Some(mvec(&m.decode(), &[p[0], p[1], p[2], qi(1)])), [p[0] * v[0], p[1] * v[1], p[2] * v[2], qi(1)]); }
                if let Some(m) = s.call("translation_2d", inp, || $L::Mat3::<X>::translation_2d(v2)) { let d = m.decode();
                    chk!(&format!("Mat3<{}>::translation_2d point", $lay), Some(mvec(&d, &[p[0], p[1], qi(1)])), [p[0] + v[0], p[1] + v[1], qi(1)]);
                    chk!(&format!("Mat3<{}>::translation_2d direction", $lay), Some(mvec(&d, &[p[0], p[1], qi(0)])), [p[0], p[1], qi(0)]);
                    chk!(&format!("Mat3<{}>::mul_point_2d", $lay), s.call("mul_point_2d", inp, || dv2(&m.mul_point_2d(p2))), [p[0] + v[0], p[1] + v[1]]);
                    chk!(&format!("Mat3<{}>::mul_direction_2d", $lay), s.call("mul_direction_2d", inp, || dv2(&m.mul_direction_2d(p2))), [p[0], p[1]]);
                }
                if let Some(m) = s.call("scaling_3d", inp, || $L::Mat3::<X>::scaling_3d(v3)) { chk!(&format!("Mat3<{}>::scaling_3d", $lay), Some(mvec(&m.decode(), &p)), [p[0] * v[0], p[1] * v[1], p[2] * v[2]]); }
                if let Some(m) = s.call("scaling_2d", inp, || $L::Mat2::<X>::scaling_2d(v2)) { chk!(&format!("Mat2<{}>::scaling_2d", $lay), Some(mvec(&m.decode(), &[p[0], p[1]])), [p[0] * v[0], p[1] * v[1]]); }
                if let Some(m) = s.call("shearing_x", inp, || $L::Mat2::<X>::shearing_x(v[0])) { chk!(&format!("Mat2<{}>::shearing_x", $lay), Some(mvec(&m.decode(), &[p[0], p[1]])), [p[0] + v[0] * p[1], p[1]]); }
                if let Some(m) = s.call("shearing_y", inp, || $L::Mat2::<X>::shearing_y(v[0])) { chk!(&format!("Mat2<{}>::shearing_y", $lay), Some(mvec(&m.decode(), &[p[0], p[1]])), [p[0], p[1] + v[0] * p[0]]); }
            }} }
            mat4!(rm, "row"); mat4!(cm, "col");
            if nz && s.wants_sample() && w == (2 + extra) as u64 { s.sample(json!({"input": inp(), "law": "translation_3d(v)*(p,1) = (p+v,1); *(p,0) = (p,0); scaling multiplies per axis; shearing_x adds k*y to x"})); }
        });
    });

    rep.section("builder chains: every program of chained *_ed calls (and in-place twins) on Mat4, Mat3, Mat2",
        "stateright BFS over chains (state = the call sequence, a reference matrix over exact rationals, the real row-major and column-major values); alphabets: Mat4 {translated_2d, translated_3d x2, scaled_3d x2, rotated_x x2, rotated_y, rotated_z x2, rotated_3d about (1,2,2)}, Mat3 {translated_2d x2, scaled_3d x2, rotated_x, rotated_y, rotated_z, rotated_3d}, Mat2 {scaled_2d x2, sheared_x x2, sheared_y, rotated_z x2}, rotation angles are exact angle tokens; every chain up to length 4 (quick) / 5 (thorough); each transition applies the real returning form and the real in-place twin to both layouts, pre-multiplies the model by the textbook constructor, and compares: fields of both layouts = model, and for four probe points the real mul_point / mul_direction / M*v equals applying the recorded steps to the point ONE AFTER THE OTHER in call order; non-trivial: all", true, false, |s| {
        let depth = if s.thorough() { 5 } else { 4 };
        let mut counts = Vec::new();
        for _run in 0..2 {
            let tr = Arc::new(AtomicU64::new(0));
            let ck = ChainModel { transitions: tr.clone(), depth }.checker().threads(16).spawn_bfs().join();
            let (us, t, md) = (ck.unique_state_count() as u64, tr.load(Relaxed), ck.max_depth());
            if let Some(path) = ck.discoveries().into_values().next() {
                let acts: Vec<String> = path.clone().into_actions().iter().map(|a| format!("{:?}", a)).collect();
                if let St::Bad { class, site, detail } = path.last_state().clone() { s.violation_w(&site, class, json!({"chain": acts, "what": detail}), acts.len() as u64); }
                s.evals(t.max(1), t.max(1)); lk = json!({"states": us.max(1), "transitions": t.max(1), "traces_validated_against_impl": t.max(1)});
                return;
            }
            counts.push((us, t, md));
        }
        if (counts[0].0, counts[0].1) != (counts[1].0, counts[1].1) { s.rep.machinery_error(format!("counts differ between runs {:?}", counts)); }
        let (us, t, md) = counts[0];
        let expect: u64 = [11u64, 8, 7].iter().map(|k| (0..=depth as u32).map(|d| k.pow(d)).sum::<u64>()).sum();
        if us != expect { s.rep.machinery_error(format!("{} states, expected {} chains", us, expect)); }
        s.evals(t, t);
        s.meta("chains", json!({"max_length": depth, "states(chains)": us, "transitions": t, "max_depth": md, "complete_to_the_bound": true}));
        lk = json!({"states": us, "transitions": t, "traces_validated_against_impl": t, "max_depth": md,
            "explanation": "a state is a chain of builder calls; every transition executes the real *_ed call and its in-place twin on both layouts and compares with the reference product and with step-by-step application to probe points"});
        s.sample(json!({"chain": ["T3(1,2,3)", "RX(base0,k1)", "S3(2,1,3)"], "law": "identity().translated_3d(t).rotated_x(a).scaled_3d(s).mul_point(p) == scale(rotate_x(translate(p)))"}));
        s.sample(json!({"chain": ["ShX(2)", "RZ(base0,1)", "S2(-1/2,1/2)"], "matrix": "Mat2"}));
    });

    rep.section("Mat4::from(Transform) is p -> position + orientation*(scale . p)",
        "positions {(0,0,0),(1,-2,3)} x every rational unit quaternion (cos(h), axis*sin(h)) for 9 unit axes x 6 rational half-angles (+ identity) x scales {(1,1,1),(2,2,2),(2,1,1),(1,-3,1/2),(3,2,5)}: the decoded matrix (both layouts) applied to 5 probe points equals position + R(orientation)(scale . p) with R from Rodrigues' formula; Transform::default() converts to the identity matrix; non-trivial: non-identity orientation", true, false, |s| {
        s.require_classes(&["uniform-scale", "non-uniform-scale", "axis-aligned-rotation", "oblique-rotation"]);
        let axes: Vec<[X; 3]> = { let u = unit_axes(); vec![u[0], u[2], u[4], u[6], u[9], u[14], u[30], u[55], u[80]] };
        let circ = circle_points();
        let positions = [[qi(0), qi(0), qi(0)], [qi(1), qi(-2), qi(3)]];
        let scales = [[qi(1), qi(1), qi(1)], [qi(2), qi(2), qi(2)], [qi(2), qi(1), qi(1)], [qi(1), qi(-3), q(1, 2)], [qi(3), qi(2), qi(5)]];
        let probes = [[qi(1), qi(0), qi(0)], [qi(0), qi(1), qi(0)], [qi(0), qi(0), qi(1)], [qi(1), qi(2), qi(3)], [qi(0), qi(0), qi(0)]];
        let d = Transform::<X, X, X>::default();
        s.eval(true);
        if cm::Mat4::<X>::from(d).decode() != ident::<X, 4>() || rm::Mat4::<X>::from(d).decode() != ident::<X, 4>() { s.violation("Mat4::from(Transform::default())", "not-the-identity-map", json!({})); }
        for ax in &axes { for (ci, &(ch, sh)) in circ.iter().enumerate().take(7) {
            // half-angle (ch, sh): the rotation angle has cos = ch^2 - sh^2, sin = 2 ch sh
            let (c, sn) = (ch * ch - sh * sh, qi(2) * ch * sh);
            let r3 = rodrigues(ax, c, sn);
            let quat = Quaternion { x: ax[0] * sh, y: ax[1] * sh, z: ax[2] * sh, w: ch };
            let axis_aligned = r3.iter().flatten().all(|e| *e == qi(0) || *e == qi(1) || *e == qi(-1));
            for pos in &positions { for sc in &scales {
                let t = Transform { position: Vec3 { x: pos[0], y: pos[1], z: pos[2] }, orientation: quat, scale: Vec3 { x: sc[0], y: sc[1], z: sc[2] } };
                let uniform = sc[0] == sc[1] && sc[1] == sc[2];
                s.class(if uniform { "uniform-scale" } else { "non-uniform-scale" }); s.class(if axis_aligned { "axis-aligned-rotation" } else { "oblique-rotation" });
                for (lay, got) in [("row", s.call("from(Transform)", || json!({}), || rm::Mat4::<X>::from(t).decode())), ("col", s.call("from(Transform)", || json!({}), || cm::Mat4::<X>::from(t).decode()))] {
                    s.eval(ci != 1);
                    let Some(m) = got else { continue };
                    for p in &probes {
                        let sp = [sc[0] * p[0], sc[1] * p[1], sc[2] * p[2]];
                        let rp = mvec(&r3, &sp);
                        let want = [pos[0] + rp[0], pos[1] + rp[1], pos[2] + rp[2], qi(1)];
                        let g = mvec(&m, &[p[0], p[1], p[2], qi(1)]);
                        if g != want {
                            // which map did the code compute? rotate, then scale, then translate
                            let rp2 = mvec(&r3, p); let alt = [pos[0] + sc[0] * rp2[0], pos[1] + sc[1] * rp2[1], pos[2] + sc[2] * rp2[2], qi(1)];
                            let class = if g == alt { "scales-after-rotating(T*S*R)-instead-of-before(T*R*S)" } else { "not-position+orientation*(scale.p)" };
                            s.violation_w(&format!("Mat4<{}>::from(Transform)", lay), class, json!({"position": jxs(pos), "orientation(x,y,z,w)": jxs(&[quat.x, quat.y, quat.z, quat.w]), "scale": jxs(sc), "p": jxs(p), "got": jxs(&g), "want": jxs(&want)}), (ci as u64) * 10 + if pos[0] == qi(0) { 0 } else { 5 });
                            break;
                        }
                    }
                }
            } }
        } }
        s.sample(json!({"position": [1, -2, 3], "orientation": "90 degrees about z", "scale": [2, 1, 1], "p": [1, 0, 0], "want": "position + R(scale.p) = (1,0,3)"}));
    });
    std::process::exit(rep.finish_with(lk));
}
