//! C08 — projection matrices map the view volume onto the canonical clip volume.
//!
//! Oracle (plain Rust over arrays, public fields only): the eight corners of the view volume of the
//! stated handedness (LH looks down +z, RH down -z; for a frustum the far rectangle is the near
//! rectangle scaled by far/near) are multiplied by the decoded matrix and divided by w; the result
//! must be (x: left -> -1, right -> +1; y: bottom -> -1, top -> +1; near -> 0 | -1; far -> 1) and
//! w > 0 for corners in front of the viewer.  Plus the three matrix equalities the property states.
use num_traits::real::Real;
use num_traits::FloatConst;
use rayon::prelude::*;
use std::fmt::Debug;
use std::ops::Div;
use std::collections::BTreeMap;
use std::sync::atomic::{AtomicBool, Ordering::Relaxed};
use std::sync::Mutex;
use vek::FrustumPlanes;
use vx::fl::close64;
use vx::fr::{Deg, Fr};
use vx::lattice::*;
use vx::matx::*;
use vx::q::angle_base_t;
use vx::*;

const LAY: [&str; 2] = ["row_major", "column_major"];

/// Violation collector local to one section.  On a defective tree tens of thousands of corner checks fail; pushing
/// each into the report serialises the sweep.  This keeps, per `site|class`, the KEEP smallest-weight failures
/// (total order: weight, then the serialised detail, so the selection does not depend on thread timing), counts
/// all of them, builds the detail JSON only for the kept ones and hands them to the report at the end.
const KEEP: usize = 12;
struct Kept { site: String, class: &'static str, n: u64, best: Vec<(u64, String, Value)> }
struct Coll { m: Mutex<BTreeMap<String, Kept>> }
impl Coll {
    fn new() -> Coll { Coll { m: Mutex::new(BTreeMap::new()) } }
    fn push(&self, site: &str, class: &'static str, weight: u64, detail: impl FnOnce() -> Value) {
        let mut g = self.m.lock().unwrap();
        let e = g.entry(format!("{}|{}", site, class)).or_insert_with(|| Kept { site: site.to_string(), class, n: 0, best: Vec::new() });
        e.n += 1;
        if e.best.len() >= KEEP && weight > e.best.last().unwrap().0 { return; }
        let d = detail();
        e.best.push((weight, d.to_string(), d));
        e.best.sort_by(|a, b| (a.0, &a.1).cmp(&(b.0, &b.1)));
        e.best.truncate(KEEP);
    }
    fn flush(&self, s: &Section) {
        for (_, k) in self.m.lock().unwrap().iter() {
            for (w, _, d) in &k.best { let mut d = d.clone(); d["failures_of_this_kind_in_this_section"] = json!(k.n); s.violation_w(&k.site, k.class, d, *w); }
        }
    }
}

// ---------------------------------------------------------------------------------------------
// the constructors under check

#[derive(Clone, Copy, PartialEq, Eq, Debug)]
enum Fam { OrthoXY, Ortho, Frustum }
#[derive(Clone, Copy)]
struct PC { name: &'static str, fam: Fam, lh: bool, zo: bool }
/// constructors that take `FrustumPlanes`
const PLANE: [PC; 9] = [
    PC { name: "orthographic_without_depth_planes", fam: Fam::OrthoXY, lh: true, zo: true },
    PC { name: "orthographic_lh_zo", fam: Fam::Ortho, lh: true, zo: true },
    PC { name: "orthographic_lh_no", fam: Fam::Ortho, lh: true, zo: false },
    PC { name: "orthographic_rh_zo", fam: Fam::Ortho, lh: false, zo: true },
    PC { name: "orthographic_rh_no", fam: Fam::Ortho, lh: false, zo: false },
    PC { name: "frustum_lh_zo", fam: Fam::Frustum, lh: true, zo: true },
    PC { name: "frustum_lh_no", fam: Fam::Frustum, lh: true, zo: false },
    PC { name: "frustum_rh_zo", fam: Fam::Frustum, lh: false, zo: true },
    PC { name: "frustum_rh_no", fam: Fam::Frustum, lh: false, zo: false },
];
/// (left-handed, right-handed) index pairs in PLANE
const PLANE_PAIRS: [(usize, usize); 4] = [(1, 3), (2, 4), (5, 7), (6, 8)];
fn frustum_index(lh: bool, zo: bool) -> usize { match (lh, zo) { (true, true) => 5, (true, false) => 6, (false, true) => 7, (false, false) => 8 } }

/// the real call; decoded through public fields.  planes = [left, right, bottom, top, near, far]
fn plane_mat<T: Real>(lay: usize, k: usize, p: [T; 6]) -> A<T, 4> {
    let o = FrustumPlanes { left: p[0], right: p[1], bottom: p[2], top: p[3], near: p[4], far: p[5] };
    macro_rules! go { ($M:ty, $dec:ident) => { $dec(&match k {
        0 => <$M>::orthographic_without_depth_planes(o),
        1 => <$M>::orthographic_lh_zo(o), 2 => <$M>::orthographic_lh_no(o), 3 => <$M>::orthographic_rh_zo(o), 4 => <$M>::orthographic_rh_no(o),
        5 => <$M>::frustum_lh_zo(o), 6 => <$M>::frustum_lh_no(o), 7 => <$M>::frustum_rh_zo(o), 8 => <$M>::frustum_rh_no(o),
        _ => unreachable!() }) } }
    if lay == 0 { go!(rm::Mat4<T>, dr4) } else { go!(cm::Mat4<T>, dc4) }
}

#[derive(Clone, Copy, PartialEq, Eq, Debug)]
enum Kind { Persp, PerspFov, Tweaked, Infinite }
#[derive(Clone, Copy)]
struct FC { name: &'static str, kind: Kind, lh: bool, zo: bool }
/// constructors that take a field of view
const FOVC: [FC; 12] = [
    FC { name: "perspective_rh_zo", kind: Kind::Persp, lh: false, zo: true },
    FC { name: "perspective_lh_zo", kind: Kind::Persp, lh: true, zo: true },
    FC { name: "perspective_rh_no", kind: Kind::Persp, lh: false, zo: false },
    FC { name: "perspective_lh_no", kind: Kind::Persp, lh: true, zo: false },
    FC { name: "perspective_fov_rh_zo", kind: Kind::PerspFov, lh: false, zo: true },
    FC { name: "perspective_fov_lh_zo", kind: Kind::PerspFov, lh: true, zo: true },
    FC { name: "perspective_fov_rh_no", kind: Kind::PerspFov, lh: false, zo: false },
    FC { name: "perspective_fov_lh_no", kind: Kind::PerspFov, lh: true, zo: false },
    FC { name: "tweaked_infinite_perspective_rh", kind: Kind::Tweaked, lh: false, zo: false },
    FC { name: "tweaked_infinite_perspective_lh", kind: Kind::Tweaked, lh: true, zo: false },
    FC { name: "infinite_perspective_rh", kind: Kind::Infinite, lh: false, zo: false },
    FC { name: "infinite_perspective_lh", kind: Kind::Infinite, lh: true, zo: false },
];
/// (left-handed, right-handed) index pairs in FOVC
const FOV_PAIRS: [(usize, usize); 6] = [(1, 0), (3, 2), (5, 4), (7, 6), (9, 8), (11, 10)];

/// the real call.  Persp: [fov, aspect, near, far, -]; PerspFov: [fov, width, height, near, far];
/// Tweaked: [fov, aspect, near, epsilon, -]; Infinite: [fov, aspect, near, -, -]
fn fov_mat<T: Real + FloatConst + Debug>(lay: usize, k: usize, a: [T; 5]) -> A<T, 4> {
    macro_rules! go { ($M:ty, $dec:ident) => { $dec(&match k {
        0 => <$M>::perspective_rh_zo(a[0], a[1], a[2], a[3]), 1 => <$M>::perspective_lh_zo(a[0], a[1], a[2], a[3]),
        2 => <$M>::perspective_rh_no(a[0], a[1], a[2], a[3]), 3 => <$M>::perspective_lh_no(a[0], a[1], a[2], a[3]),
        4 => <$M>::perspective_fov_rh_zo(a[0], a[1], a[2], a[3], a[4]), 5 => <$M>::perspective_fov_lh_zo(a[0], a[1], a[2], a[3], a[4]),
        6 => <$M>::perspective_fov_rh_no(a[0], a[1], a[2], a[3], a[4]), 7 => <$M>::perspective_fov_lh_no(a[0], a[1], a[2], a[3], a[4]),
        8 => <$M>::tweaked_infinite_perspective_rh(a[0], a[1], a[2], a[3]), 9 => <$M>::tweaked_infinite_perspective_lh(a[0], a[1], a[2], a[3]),
        10 => <$M>::infinite_perspective_rh(a[0], a[1], a[2]), 11 => <$M>::infinite_perspective_lh(a[0], a[1], a[2]),
        _ => unreachable!() }) } }
    if lay == 0 { go!(rm::Mat4<T>, dr4) } else { go!(cm::Mat4<T>, dc4) }
}

// ---------------------------------------------------------------------------------------------
// reference model: the corners of a view volume

struct Corner<T> { p: [T; 4], sx: i32, sy: i32, far: bool, dist: T, w_if_depth: T }
impl<T> Corner<T> {
    fn label(&self) -> String { format!("{}-{}-{}", if self.far { "far" } else { "near" }, if self.sx < 0 { "left" } else { "right" }, if self.sy < 0 { "bottom" } else { "top" }) }
}
/// `persp`: far rectangle = near rectangle * far/near.  `homog`: give the far corner of a frustum as the
/// projectively equal point near*(x f/n, y f/n, z, 1) = (x f, y f, z n, n) (no quotient; lower degree).
/// `w_if_depth`: the w the corner gets if the matrix' w row is "the distance along the view direction".
fn corners<T: Ring + Div<Output = T>>(persp: bool, lh: bool, pl: &[T; 6], homog: bool) -> Vec<Corner<T>> {
    let (l, r, b, t, n, f) = (pl[0], pl[1], pl[2], pl[3], pl[4], pl[5]);
    let one = T::one();
    let mut v = Vec::with_capacity(8);
    for (far, d) in [(false, n), (true, f)] { for (sx, x) in [(-1, l), (1, r)] { for (sy, y) in [(-1, b), (1, t)] {
        let z = if lh { d } else { -d };
        let (p, w_if_depth) = if !persp { ([x, y, z, one], one) }
            else if !far { ([x, y, z, one], d) }
            else if homog { ([x * f, y * f, z * n, n], f * n) }
            else { ([x * f / n, y * f / n, z, one], d) };
        v.push(Corner { p, sx, sy, far, dist: d, w_if_depth });
    } } }
    v
}
fn depth_target(far: bool, zo: bool) -> i128 { if far { 1 } else if zo { 0 } else { -1 } }

// stable violation classes
const C_X: &str = "x-not-mapped-to-clip-boundary";
const C_Y: &str = "y-not-mapped-to-clip-boundary";
const C_NEAR: &str = "near-plane-depth-wrong";
const C_FAR: &str = "far-plane-depth-wrong";
const C_W: &str = "w-not-positive-in-front-of-viewer";
const C_W0: &str = "corner-maps-to-w=0";
const C_FRUSTUM: &str = "differs-from-frustum-of-implied-planes";
const C_MIRROR: &str = "lh-is-not-rh-times-z-mirror";
const C_INF: &str = "infinite-depth-is-not-(1-eps)-(2-eps)*near/d";
const C_LAYOUT: &str = "row-and-column-major-differ";

/// exact tier: every corner, after the homogeneous divide.  `depth`: None = x and y only, Some(zo)
fn check_corners_x(m: &A<X, 4>, persp: bool, lh: bool, depth: Option<bool>, pl: &[X; 6]) -> Vec<(&'static str, Value, u64)> {
    let mut out = Vec::new();
    for (ci, c) in corners::<X>(persp, lh, pl, false).iter().enumerate() {
        let clip = mvec(m, &c.p);
        let w = clip[3];
        let d = |got: Value, want: Value| json!({"corner": c.label(), "view_space_point": jxs(&c.p), "clip": jxs(&clip), "got": got, "want": want});
        if c.dist > qi(0) && !(w > qi(0)) { out.push((C_W, d(jx(w), json!("> 0")), ci as u64)); }
        if w == qi(0) { out.push((C_W0, d(jx(w), json!("!= 0")), ci as u64)); continue; }
        let ndc = [clip[0] / w, clip[1] / w, clip[2] / w];
        if ndc[0] != qi(c.sx as i128) { out.push((C_X, d(jx(ndc[0]), json!(c.sx)), ci as u64)); }
        if ndc[1] != qi(c.sy as i128) { out.push((C_Y, d(jx(ndc[1]), json!(c.sy)), ci as u64)); }
        if let Some(zo) = depth {
            let want = depth_target(c.far, zo);
            if ndc[2] != qi(want) { out.push((if c.far { C_FAR } else { C_NEAR }, d(jx(ndc[2]), json!(want)), ci as u64)); }
        }
    }
    out
}

struct FrRes { fails: Vec<(&'static str, usize, String, String)>, w_is_depth: bool, w_sign_checked: u64 }
fn frs(f: &Fr) -> String { format!("{}/{}", f.n, f.d) }
/// formal tier: the same corner conditions cross-multiplied (clip.x == sx*clip.w ...), evaluated without
/// forming a quotient, so that lattice points with left == right etc. are not skipped
fn check_corners_fr(m: &A<Fr, 4>, pc: &PC, lh: bool, plf: &[Fr; 6], pli: &[i128; 6], valid: bool) -> FrRes {
    let persp = pc.fam == Fam::Frustum;
    let mut res = FrRes { fails: Vec::new(), w_is_depth: true, w_sign_checked: 0 };
    for (ci, c) in corners::<Fr>(persp, lh, plf, true).into_iter().enumerate() {
        let clip = mvec(m, &c.p);
        let w = clip[3];
        let cs = || format!("[{}, {}, {}, {}]", frs(&clip[0]), frs(&clip[1]), frs(&clip[2]), frs(&clip[3]));
        if !clip[0].cross_eq(Fr::int(c.sx as i128) * w) { res.fails.push((C_X, ci, c.label(), cs())); }
        if !clip[1].cross_eq(Fr::int(c.sy as i128) * w) { res.fails.push((C_Y, ci, c.label(), cs())); }
        if pc.fam != Fam::OrthoXY && !clip[2].cross_eq(Fr::int(depth_target(c.far, pc.zo)) * w) { res.fails.push((if c.far { C_FAR } else { C_NEAR }, ci, c.label(), cs())); }
        if !w.cross_eq(c.w_if_depth) { res.w_is_depth = false; }
        // sign of w at this lattice point (bounded part): only for a proper volume and a corner in front of the viewer
        let in_front = if persp { pli[4] > 0 && pli[5] > 0 } else if c.far { pli[5] > 0 } else { pli[4] > 0 };
        if valid && in_front && w.d != 0 {
            res.w_sign_checked += 1;
            if w.n.signum() * w.d.signum() <= 0 { res.fails.push((C_W, ci, c.label(), cs())); }
        }
    }
    res
}

/// premise: every plane constructor is branch-free ring arithmetic; returns (max entry degree n+d,
/// max degree of a cross-multiplied corner identity, max degree of a cross-multiplied LH/RH entry identity)
fn measure_degrees() -> Result<(u32, u32, u32), String> {
    let v = [Deg::VAR; 6];
    let (mut e, mut c, mut mi) = (0u32, 0u32, 0u32);
    let mut mats: Vec<[A<Deg, 4>; 2]> = Vec::new();
    for k in 0..PLANE.len() {
        let mut both = [[[Deg::CONST; 4]; 4]; 2];
        for lay in 0..2 {
            let m = catch(|| plane_mat::<Deg>(lay, k, v)).map_err(|x| format!("{} ({}): {:?}", PLANE[k].name, LAY[lay], x))?;
            for row in &m { for x in row { e = e.max(x.n + x.d); } }
            let hands: &[bool] = if PLANE[k].fam == Fam::OrthoXY { &[true, false] } else if PLANE[k].lh { &[true] } else { &[false] };
            for &lh in hands { for cn in corners::<Deg>(PLANE[k].fam == Fam::Frustum, lh, &v, true) {
                let clip = mvec(&m, &cn.p);
                for i in 0..3 { c = c.max(clip[i].cross_degree(clip[3].n, clip[3].d)); }
                c = c.max(clip[3].cross_degree(cn.w_if_depth.n, cn.w_if_depth.d));
            } }
            both[lay] = m;
        }
        mats.push(both);
    }
    for (kl, kr) in PLANE_PAIRS { for lay in 0..2 { for i in 0..4 { for j in 0..4 {
        mi = mi.max(mats[kl][lay][i][j].cross_degree(mats[kr][lay][i][j].n, mats[kr][lay][i][j].d));
    } } } }
    Ok((e, c, mi))
}

fn jp(pl: &[X; 6]) -> Value { json!({"left": jx(pl[0]), "right": jx(pl[1]), "bottom": jx(pl[2]), "top": jx(pl[3]), "near": jx(pl[4]), "far": jx(pl[5])}) }
fn wt(v: &[X]) -> u64 { v.iter().map(|x| match x { X::R(q) => (q.n.unsigned_abs() + q.d.unsigned_abs() - 1) as u64, X::A { k, .. } => (k.n.unsigned_abs() + k.d.unsigned_abs()) as u64 }).sum() }
fn ordered_pairs(v: &[X]) -> Vec<(X, X)> { let mut o = Vec::new(); for &a in v { for &b in v { if a != b { o.push((a, b)); } } } o }
fn z_mirror_of(rh: &A<X, 4>) -> A<X, 4> { let mut o = *rh; for i in 0..4 { o[i][2] = -rh[i][2]; } o }

const BASE_ORTHO: [i64; 6] = [-3, -1, -2, 0, -1, 1];
const BASE_FRUSTUM: [i64; 6] = [-3, -1, -2, 0, 1, 2];
fn lattice_planes(pc: &PC, a: &[i64]) -> [i128; 6] { let b = if pc.fam == Fam::Frustum { BASE_FRUSTUM } else { BASE_ORTHO }; std::array::from_fn(|i| (a[i] + b[i]) as i128) }
/// weight of a lattice case: size of the planes first (improper volumes last), then a unique code of the lattice point
fn lattice_weight(pli: &[i128; 6], valid: bool, a: &[i64]) -> u64 {
    let size = pli.iter().map(|v| v.unsigned_abs() as u64).sum::<u64>() + if valid { 0 } else { 10_000 };
    let code = a.iter().fold(0u64, |acc, &v| acc * 32 + v as u64);
    (size << 40) | (code << 6)
}
fn planes_valid(pc: &PC, p: &[i128; 6]) -> bool { p[0] != p[1] && p[2] != p[3] && (pc.fam == Fam::OrthoXY || p[4] != p[5]) && (pc.fam != Fam::Frustum || p[4] != 0) }

// ---------------------------------------------------------------------------------------------
// float tiers (audit round): the real constructors instantiated at f32 and f64

const C_SCALE: &str = "power-of-two-scaled-inputs-do-not-scale-the-matrix-exactly";

/// the two float element types; everything the oracle does is done in f64 (f32 -> f64 is exact)
trait Fl: Real + FloatConst + Debug + Send + Sync + 'static {
    const NAME: &'static str;
    const EPS: f64;
    fn to64(self) -> f64;
    fn of64(v: f64) -> Self;
    /// 2^e, built from the bit pattern (normal range only)
    fn pow2(e: i32) -> Self;
}
impl Fl for f64 {
    const NAME: &'static str = "f64";
    const EPS: f64 = f64::EPSILON;
    fn to64(self) -> f64 { self }
    fn of64(v: f64) -> f64 { v }
    fn pow2(e: i32) -> f64 { assert!((-1022..=1023).contains(&e)); f64::from_bits(((e + 1023) as u64) << 52) }
}
impl Fl for f32 {
    const NAME: &'static str = "f32";
    const EPS: f64 = f32::EPSILON as f64;
    fn to64(self) -> f64 { self as f64 }
    fn of64(v: f64) -> f32 { let r = v as f32; assert!(r as f64 == v || !v.is_finite(), "alphabet value {} is not an f32", v); r }
    fn pow2(e: i32) -> f32 { assert!((-126..=127).contains(&e)); f32::from_bits(((e + 127) as u32) << 23) }
}
fn m64<T: Fl>(m: &A<T, 4>) -> A<f64, 4> { let mut o = [[0.0f64; 4]; 4]; for i in 0..4 { for j in 0..4 { o[i][j] = m[i][j].to64(); } } o }
/// forward error bound of a 4-term dot product of entries that carry a few roundings each, and one quotient
fn near_enough(got: f64, want: f64, scale: f64, eps: f64) -> bool { !got.is_nan() && (got - want).abs() <= 256.0 * eps * scale }
fn same_bits_or_both_zero(a: f64, b: f64) -> bool { a == b }
/// matrix equality for the layout / mirror comparisons: a NaN entry is a defect of the constructor (reported by the corner
/// check of the same matrix), not a difference between the two matrices compared here
fn same_mat(a: &A<f64, 4>, b: &A<f64, 4>) -> bool { (0..16).all(|i| { let (x, y) = (a[i / 4][i % 4], b[i / 4][i % 4]); x == y || (x.is_nan() && y.is_nan()) }) }
fn jm64(m: &A<f64, 4>) -> Value { json!(m.iter().map(|r| r.to_vec()).collect::<Vec<_>>()) }

struct FFail { class: &'static str, ci: u64, corner: String, what: &'static str, got: f64, want: f64, clip: [f64; 4], point: [f64; 4] }
/// float tier: the 8 corners (far corner of a frustum = near corner * (far/near)) through the decoded matrix, in f64;
/// |ndc - want| <= 256 eps_T (sum|terms| / |w| + 1).  `depth`: None = x and y only
fn check_corners_f(m: &A<f64, 4>, persp: bool, lh: bool, depth: Option<bool>, pl: &[f64; 6], eps: f64) -> Vec<FFail> {
    let (l, r, b, t, n, f) = (pl[0], pl[1], pl[2], pl[3], pl[4], pl[5]);
    let mut out = Vec::new();
    let mut ci = 0u64;
    for (far, d) in [(false, n), (true, f)] { for (sx, x) in [(-1.0f64, l), (1.0, r)] { for (sy, y) in [(-1.0f64, b), (1.0, t)] {
        let z = if lh { d } else { -d };
        let k = if persp && far { f / n } else { 1.0 };
        let p = [x * k, y * k, z, 1.0];
        let (mut clip, mut mag) = ([0.0f64; 4], [0.0f64; 4]);
        for i in 0..4 { for j in 0..4 { let term = m[i][j] * p[j]; clip[i] += term; mag[i] += term.abs(); } }
        let w = clip[3];
        let label = format!("{}-{}-{}", if far { "far" } else { "near" }, if sx < 0.0 { "left" } else { "right" }, if sy < 0.0 { "bottom" } else { "top" });
        let mut push = |class: &'static str, what: &'static str, got: f64, want: f64| out.push(FFail { class, ci, corner: label.clone(), what, got, want, clip, point: p });
        if d > 0.0 && !(w > 0.0) { push(C_W, "w", w, 0.0); }
        if w == 0.0 || !w.is_finite() { push(C_W0, "w", w, 1.0); ci += 1; continue; }
        let wants = [(0usize, sx, C_X, "ndc.x"), (1, sy, C_Y, "ndc.y")];
        for (i, want, class, what) in wants { let got = clip[i] / w; if !near_enough(got, want, mag[i] / w.abs() + 1.0, eps) { push(class, what, got, want); } }
        if let Some(zo) = depth {
            let want = depth_target(far, zo) as f64;
            let got = clip[2] / w;
            if !near_enough(got, want, mag[2] / w.abs() + 1.0, eps) { push(if far { C_FAR } else { C_NEAR }, "ndc.z", got, want); }
        }
        ci += 1;
    } } }
    out
}

/// how an entry of a plane constructor scales when (left,right,bottom,top) are multiplied by 2^e1 and (near,far) by 2^e2
fn plane_scale_exp(fam: Fam, i: usize, j: usize, e1: i32, e2: i32) -> i32 {
    match fam {
        Fam::OrthoXY => match (i, j) { (0, 0) | (1, 1) => -e1, _ => 0 },
        Fam::Ortho => match (i, j) { (0, 0) | (1, 1) => -e1, (2, 2) => -e2, _ => 0 },
        Fam::Frustum => match (i, j) { (0, 0) | (1, 1) => e2 - e1, (2, 3) => e2, _ => 0 },
    }
}
fn ordered_pairs_f(v: &[f64]) -> Vec<(f64, f64)> { let mut o = Vec::new(); for &a in v { for &b in v { if a != b { o.push((a, b)); } } } o }

struct PlaneFloatAlphabet { xy: Vec<f64>, ortho_nf: Vec<f64>, frustum_nf: Vec<f64>, scales: Vec<(i32, i32)>, max_frustum_ratio: i32, pairs: Option<PlanePairs> }
/// second audit: explicit (left,right) = (bottom,top) pairs and (near,far) pairs around the special values (a plane at zero, planes
/// symmetric about zero, two planes next to each other far from the origin, near/far ratio next to 1 and huge); when present they
/// replace the "all ordered pairs of the value lists" construction
struct PlanePairs { xy: Vec<(f64, f64)>, ortho_nf: Vec<(f64, f64)>, frustum_nf: Vec<(f64, f64)> }
const SPECIAL_PLANE_CLASSES: [&str; 8] = ["a left/right/bottom/top plane = 0", "x or y planes next to each other far from the origin (|r-l| <= 2^-10 max(|l|,|r|))", "x or y planes of very different magnitude", "orthographic near = -far", "orthographic near or far = 0", "near and far next to each other (|f-n| <= 2^-10 max(|n|,|f|))", "far/near >= 2^20", "frustum"];

/// orthographic_* / frustum_* at element type T: corners with a derived bound at every scale, exact scaling law against
/// the unscaled matrix, LH = RH * z mirror and layout equality bit for bit
fn plane_float_tier<T: Fl>(s: &Section, al: &PlaneFloatAlphabet) {
    s.require_classes(&["off-centre", "centred", "inverted-x", "inverted-y", "far<near", "orthographic-near<=0", "orthographic", "frustum", "orthographic_without_depth_planes", "unscaled", "xy-scaled-up", "xy-scaled-down", "depth-scaled-up", "depth-scaled-down", "xy-and-depth-scaled-opposite-ways"]);
    if al.pairs.is_some() { s.require_classes(&SPECIAL_PLANE_CLASSES); }
    let (xy, onf, fnf) = match &al.pairs {
        Some(p) => (p.xy.clone(), p.ortho_nf.clone(), p.frustum_nf.clone()),
        None => (ordered_pairs_f(&al.xy), ordered_pairs_f(&al.ortho_nf), ordered_pairs_f(&al.frustum_nf)),
    };
    let mut sets: Vec<(bool, [f64; 6])> = Vec::new();
    for &(l, r) in &xy { for &(b, t) in &xy {
        for &(n, f) in &onf { sets.push((false, [l, r, b, t, n, f])); }
        for &(n, f) in &fnf { sets.push((true, [l, r, b, t, n, f])); }
    } }
    let pj = |v: &Vec<(f64, f64)>| v.iter().map(|p| vec![p.0, p.1]).collect::<Vec<_>>();
    match &al.pairs {
        None => s.meta("alphabet", json!({"element_type": T::NAME, "xy_values": al.xy, "orthographic_near_far_values": al.ortho_nf, "frustum_near_far_values": al.frustum_nf, "plane_sets": sets.len(), "scale_exponents(e_xy, e_depth)": al.scales, "frustum_max_|e_depth - e_xy|": al.max_frustum_ratio})),
        Some(p) => s.meta("alphabet", json!({"element_type": T::NAME, "(left,right) and (bottom,top) pairs": pj(&p.xy), "orthographic (near,far) pairs": pj(&p.ortho_nf), "frustum (near,far) pairs": pj(&p.frustum_nf), "plane_sets": sets.len(), "scale_exponents(e_xy, e_depth)": al.scales, "frustum_max_|e_depth - e_xy|": al.max_frustum_ratio})),
    }
    let coll = Coll::new();
    sets.par_iter().enumerate().for_each(|(set_no, (is_frustum, pl))| {
        let off = pl[0] + pl[1] != 0.0 || pl[2] + pl[3] != 0.0;
        let (mut ev, mut nt) = (0u64, 0u64);
        let mut cls: BTreeMap<&'static str, u64> = BTreeMap::new();
        let mut cl = |c: &'static str| *cls.entry(c).or_insert(0) += 1;
        cl(if off { "off-centre" } else { "centred" });
        if pl[0] > pl[1] { cl("inverted-x"); }
        if pl[2] > pl[3] { cl("inverted-y"); }
        if pl[5] < pl[4] { cl("far<near"); }
        if !is_frustum && pl[4] <= 0.0 { cl("orthographic-near<=0"); }
        if al.pairs.is_some() {
            let close = |a: f64, b: f64| (a - b).abs() <= a.abs().max(b.abs()) / 1024.0;
            let ratio = |a: f64, b: f64| { let (x, y) = (a.abs().min(b.abs()), a.abs().max(b.abs())); if x == 0.0 { 0.0 } else { y / x } };
            let apart = |a: f64, b: f64| ratio(a, b) >= 1048576.0;
            if pl[..4].iter().any(|v| *v == 0.0) { cl("a left/right/bottom/top plane = 0"); }
            if close(pl[0], pl[1]) || close(pl[2], pl[3]) { cl("x or y planes next to each other far from the origin (|r-l| <= 2^-10 max(|l|,|r|))"); }
            if ratio(pl[0], pl[1]) >= 4096.0 || ratio(pl[2], pl[3]) >= 4096.0 { cl("x or y planes of very different magnitude"); }
            if !is_frustum && pl[4] == -pl[5] { cl("orthographic near = -far"); }
            if !is_frustum && (pl[4] == 0.0 || pl[5] == 0.0) { cl("orthographic near or far = 0"); }
            if close(pl[4], pl[5]) { cl("near and far next to each other (|f-n| <= 2^-10 max(|n|,|f|))"); }
            if apart(pl[4], pl[5]) { cl("far/near >= 2^20"); }
        }
        // (the weight only orders the reported violations; capped so that the shift below cannot overflow)
        let wsum: f64 = pl.iter().map(|v| v.abs() * 2.0).sum::<f64>().min(1.0e6);
        // decoded[k][lay][scale]
        let mut decoded: Vec<Vec<Vec<Option<A<f64, 4>>>>> = vec![vec![vec![None; al.scales.len()]; 2]; PLANE.len()];
        for (k, pc) in PLANE.iter().enumerate() {
            if (pc.fam == Fam::Frustum) != *is_frustum { continue; }
            cl(match pc.fam { Fam::OrthoXY => "orthographic_without_depth_planes", Fam::Ortho => "orthographic", Fam::Frustum => "frustum" });
            let site = format!("Mat4<{}>::{}", T::NAME, pc.name);
            for lay in 0..2 {
                let mut base: Option<A<T, 4>> = None;
                for (si, &(e1, e2)) in al.scales.iter().enumerate() {
                    if si == 0 { assert!(e1 == 0 && e2 == 0, "the first scale must be the unscaled one"); }
                    if pc.fam == Fam::OrthoXY && e2 != 0 { continue; }
                    if pc.fam == Fam::Frustum && (e2 - e1).abs() > al.max_frustum_ratio { continue; }
                    if k == 1 || k == 5 { if lay == 0 {
                        if e1 == 0 && e2 == 0 { cl("unscaled"); }
                        if e1 > 0 { cl("xy-scaled-up"); } if e1 < 0 { cl("xy-scaled-down"); }
                        if e2 > 0 { cl("depth-scaled-up"); } if e2 < 0 { cl("depth-scaled-down"); }
                        if (e1 > 0 && e2 < 0) || (e1 < 0 && e2 > 0) { cl("xy-and-depth-scaled-opposite-ways"); }
                    } }
                    let (s1, s2) = (T::pow2(e1).to64(), T::pow2(e2).to64());
                    let spl = [pl[0] * s1, pl[1] * s1, pl[2] * s1, pl[3] * s1, pl[4] * s2, pl[5] * s2];
                    let tpl: [T; 6] = spl.map(T::of64);
                    let inp = || json!({"layout": LAY[lay], "planes[l,r,b,t,n,f]": pl.to_vec(), "scaled_by_2^": [e1, e2]});
                    let Some(mt) = s.call(&site, inp, || plane_mat::<T>(lay, k, tpl)) else { continue };
                    if si == 0 { base = Some(mt); }
                    let m = m64(&mt);
                    decoded[k][lay][si] = Some(m);
                    let w0 = (((wsum as u64) + if si == 0 { 0 } else { 1000 + si as u64 }) << 40) | ((set_no as u64) << 12) | ((lay as u64) << 4);
                    let detail = |extra: Value| json!({"layout": LAY[lay], "element_type": T::NAME, "planes[l,r,b,t,n,f]": pl.to_vec(), "xy_planes_scaled_by_2^": e1, "near_far_scaled_by_2^": e2, "matrix": jm64(&m), "at": extra});
                    // (a) the property itself, at this magnitude
                    let hands: &[bool] = if pc.fam == Fam::OrthoXY { &[true, false] } else if pc.lh { &[true] } else { &[false] };
                    for &lh in hands {
                        ev += 8; if off { nt += 8; }
                        for f in check_corners_f(&m, pc.fam == Fam::Frustum, lh, if pc.fam == Fam::OrthoXY { None } else { Some(pc.zo) }, &spl, T::EPS) {
                            coll.push(&site, f.class, w0 | ((lh as u64) << 3) | f.ci, || detail(json!({"handedness_of_volume": if lh { "lh(+z)" } else { "rh(-z)" }, "corner": f.corner, "view_space_point": f.point.to_vec(), "clip": f.clip.to_vec(), "what": f.what, "got": f.got, "want": f.want})));
                        }
                    }
                    // (b) scaling by a power of two is exact in binary floating point: every entry must be the unscaled entry times 2^k
                    if si != 0 { if let Some(b) = &base {
                        ev += 1; if off { nt += 1; }
                        let mut bad = Vec::new();
                        for i in 0..4 { for j in 0..4 {
                            let want = (b[i][j] * T::pow2(plane_scale_exp(pc.fam, i, j, e1, e2))).to64();
                            if !same_bits_or_both_zero(m[i][j], want) { bad.push(json!({"entry(row,col)": [i, j], "got": m[i][j], "want": want, "unscaled": b[i][j].to64()})); }
                        } }
                        if !bad.is_empty() { coll.push(&site, C_SCALE, w0, || detail(json!({"entries": bad, "unscaled_matrix": jm64(&m64(b))}))); }
                    } }
                }
            }
            // layouts agree bit for bit
            for si in 0..al.scales.len() { if let (Some(r), Some(c)) = (decoded[k][0][si], decoded[k][1][si]) {
                ev += 1; if off { nt += 1; }
                if !same_mat(&r, &c) { coll.push(&site, C_LAYOUT, ((wsum as u64) << 40) | ((set_no as u64) << 12), || json!({"element_type": T::NAME, "planes[l,r,b,t,n,f]": pl.to_vec(), "scaled_by_2^": [al.scales[si].0, al.scales[si].1], "row_major": jm64(&r), "column_major": jm64(&c)})); }
            } }
        }
        for (kl, kr) in PLANE_PAIRS { for lay in 0..2 { for si in 0..al.scales.len() {
            let (Some(l), Some(r)) = (decoded[kl][lay][si], decoded[kr][lay][si]) else { continue };
            ev += 1; if off { nt += 1; }
            let mut mirrored = r; for i in 0..4 { mirrored[i][2] = -r[i][2]; }
            if !same_mat(&l, &mirrored) { coll.push(&format!("Mat4<{}>::{}<->{}", T::NAME, PLANE[kl].name, PLANE[kr].name), C_MIRROR, ((wsum as u64) << 40) | ((set_no as u64) << 12) | lay as u64, || json!({"layout": LAY[lay], "element_type": T::NAME, "planes[l,r,b,t,n,f]": pl.to_vec(), "scaled_by_2^": [al.scales[si].0, al.scales[si].1], "lh": jm64(&l), "rh": jm64(&r)})); }
        } } }
        s.evals(ev, nt);
        for (c, n) in cls { s.class_n(c, n); }
        if set_no == sets.len() / 2 + 1 { s.sample(json!({"element_type": T::NAME, "planes[l,r,b,t,n,f]": pl.to_vec(), "scales": al.scales.len(), "checked": "8 corners with |ndc - want| <= 256 eps (sum|terms|/|w| + 1) at every scale; matrix(2^e * planes) == 2^k * matrix(planes) bit for bit; lh == rh * z mirror; layouts equal"})); }
    });
    coll.flush(s);
}

struct FovFloatAlphabet { fovs: Vec<f64>, e_nf: Vec<i32>, e_wh: Vec<i32>, aspects: Vec<f64>, nfs: Vec<(f64, f64)>, epsilons: Vec<f64>, special: bool }
const SPECIAL_FOV_CLASSES: [&str; 12] = ["tan(fov/2) < eps_T (fov <= 2^-30 f32 / 2^-60 f64)", "tan(fov/2)^2 < eps_T", "fov within 1 ulp of pi/2", "|fov - pi| <= 2^-7, fov != pi_T", "fov = pi_T (the float next to pi)", "2 pi - fov <= 2^-7", "aspect or width/height within 2^-19 of 1, not 1", "aspect or width/height <= 2^-30 or >= 2^30", "far/near <= 1 + 2^-10", "far/near >= 2^20", "0 < epsilon < eps_T", "unscaled"];

/// perspective family at element type T
fn fov_float_tier<T: Fl>(s: &Section, al: &FovFloatAlphabet) {
    if al.special { s.require_classes(&["fov<pi/2", "pi/2<fov<pi", "fov>pi", "narrow fov (< 0.03 rad)", "perspective", "perspective_fov", "tweaked_infinite", "infinite"]); s.require_classes(&SPECIAL_FOV_CLASSES); }
    else { s.require_classes(&["fov<pi/2", "pi/2<fov<pi", "fov>pi", "narrow fov (< 0.03 rad)", "perspective", "perspective_fov", "tweaked_infinite", "infinite", "unscaled", "near-far-scaled-up", "near-far-scaled-down", "viewport-scaled-up", "viewport-scaled-down"]); }
    let aspects: &[f64] = &al.aspects;
    let nfs: &[(f64, f64)] = &al.nfs;
    let epsilons: &[f64] = &al.epsilons;
    assert!(al.e_nf[0] == 0 && al.e_wh[0] == 0, "the first scale must be the unscaled one");
    s.meta("alphabet", json!({"element_type": T::NAME, "fovs": al.fovs.len(), "fov_min": al.fovs.iter().cloned().fold(f64::INFINITY, f64::min), "fov_max": al.fovs.iter().cloned().fold(0.0, f64::max), "aspects_or_sizes": aspects, "near_far": nfs.iter().map(|p| vec![p.0, p.1]).collect::<Vec<_>>(), "near_far_scale_exponents": al.e_nf, "width_height_scale_exponents": al.e_wh}));
    let coll = Coll::new();
    al.fovs.par_iter().enumerate().for_each(|(fi, &fov_in)| {
        let fov_t = T::of64(if T::NAME == "f32" { (fov_in as f32) as f64 } else { fov_in });
        let fov = fov_t.to64();
        let t = (fov * 0.5).tan();
        let (mut ev, mut nt) = (0u64, 0u64);
        let mut cls: BTreeMap<&'static str, u64> = BTreeMap::new();
        let mut cl = |c: &'static str| *cls.entry(c).or_insert(0) += 1;
        cl(if fov < std::f64::consts::FRAC_PI_2 { "fov<pi/2" } else if fov < std::f64::consts::PI { "pi/2<fov<pi" } else { "fov>pi" });
        if al.special {
            let (pi, ulp) = (std::f64::consts::PI, T::EPS);
            if t.abs() < T::EPS { cl("tan(fov/2) < eps_T (fov <= 2^-30 f32 / 2^-60 f64)"); }
            if t * t < T::EPS { cl("tan(fov/2)^2 < eps_T"); }
            if (fov - pi / 2.0).abs() <= 2.0 * ulp { cl("fov within 1 ulp of pi/2"); }
            if fov == T::PI().to64() { cl("fov = pi_T (the float next to pi)"); } else if (fov - pi).abs() <= 1.0 / 128.0 { cl("|fov - pi| <= 2^-7, fov != pi_T"); }
            if 2.0 * pi - fov <= 1.0 / 128.0 { cl("2 pi - fov <= 2^-7"); }
        }
        let mut case_no = 0u64;
        for (k, fc) in FOVC.iter().enumerate() {
            let site = format!("Mat4<{}>::{}", T::NAME, fc.name);
            cl(match fc.kind { Kind::Persp => "perspective", Kind::PerspFov => "perspective_fov", Kind::Tweaked => "tweaked_infinite", Kind::Infinite => "infinite" });
            // (unscaled args in f64 - all exactly representable in T after rounding -, index of near, indices scaled by e_wh, multiples of near, eps)
            let r = |v: f64| if T::NAME == "f32" { (v as f32) as f64 } else { v };
            let mut arglists: Vec<([f64; 5], bool, f64)> = Vec::new(); // args, has far, eps
            match fc.kind {
                Kind::Persp => for &a in aspects { for &(n, f) in nfs { arglists.push(([fov, r(a), r(n), r(f), 0.0], true, 0.0)); } },
                Kind::PerspFov => for &w in aspects { for &h in aspects { for &(n, f) in nfs { arglists.push(([fov, r(w), r(h), r(n), r(f)], true, 0.0)); } } },
                Kind::Tweaked => for &a in aspects { for &(n, _) in nfs { for &e in epsilons { arglists.push(([fov, r(a), r(n), e, 0.0], false, e)); } } },
                Kind::Infinite => for &a in aspects { for &(n, _) in nfs { arglists.push(([fov, r(a), r(n), 0.0, 0.0], false, 0.0)); } },
            }
            let e_wh: &[i32] = if fc.kind == Kind::PerspFov { &al.e_wh } else { &[0] };
            for (args0, has_far, eps) in arglists {
                let (aspect, ni) = if fc.kind == Kind::PerspFov { (args0[1] / args0[2], 3usize) } else { (args0[1], 2usize) };
                if al.special && k % 4 == 0 {
                    if aspect != 1.0 && (aspect - 1.0).abs() <= 1.0 / 524288.0 { cl("aspect or width/height within 2^-19 of 1, not 1"); }
                    if aspect <= 1.0 / 1073741824.0 || aspect >= 1073741824.0 { cl("aspect or width/height <= 2^-30 or >= 2^30"); }
                    if has_far && args0[ni + 1] / args0[ni] <= 1.0 + 1.0 / 1024.0 { cl("far/near <= 1 + 2^-10"); }
                    if has_far && args0[ni + 1] / args0[ni] >= 1048576.0 { cl("far/near >= 2^20"); }
                    if !has_far && eps > 0.0 && eps < T::EPS { cl("0 < epsilon < eps_T"); }
                }
                for lay in 0..2 {
                    let mut base: Option<A<T, 4>> = None;
                    for (s2i, &e2) in al.e_nf.iter().enumerate() { for (s1i, &e1) in e_wh.iter().enumerate() {
                        let unscaled = s2i == 0 && s1i == 0;
                        // narrow fields of view: cot(fov/2) is up to 2e7, so the constructors' own intermediates (h*height) leave the float
                        // range at the extreme viewport/near-far scales of this alphabet; narrow fovs are run unscaled only
                        if fov < 0.03 && !unscaled { continue; }
                        if fov < 0.03 && lay == 0 && k == 0 { cl("narrow fov (< 0.03 rad)"); }
                        if lay == 0 && (k == 0 || k == 4) {
                            if unscaled { cl("unscaled"); }
                            if e2 > 0 { cl("near-far-scaled-up"); } if e2 < 0 { cl("near-far-scaled-down"); }
                            if e1 > 0 { cl("viewport-scaled-up"); } if e1 < 0 { cl("viewport-scaled-down"); }
                        }
                        let (s1, s2) = (T::pow2(e1).to64(), T::pow2(e2).to64());
                        let mut args = args0;
                        args[ni] *= s2; if has_far { args[ni + 1] *= s2; }
                        if fc.kind == Kind::PerspFov { args[1] *= s1; args[2] *= s1; }
                        let targs: [T; 5] = args.map(T::of64);
                        let (near, far) = (args[ni], if has_far { args[ni + 1] } else { 0.0 });
                        let inp = || json!({"layout": LAY[lay], "args": args0.to_vec(), "near_far_scaled_by_2^": e2, "width_height_scaled_by_2^": e1});
                        let Some(mt) = s.call(&site, inp, || fov_mat::<T>(lay, k, targs)) else { continue };
                        if unscaled { base = Some(mt); }
                        let m = m64(&mt);
                        case_no += 1;
                        let wgt = (((fi as u64) + if unscaled { 0 } else { 100_000 }) << 36) | (case_no << 8);
                        let detail = |extra: Value| json!({"layout": LAY[lay], "element_type": T::NAME, "args": args.to_vec(), "near_far_scaled_by_2^": e2, "width_height_scaled_by_2^": e1, "tan(fov/2) (oracle, f64)": t, "matrix": jm64(&m), "at": extra});
                        // (a) corners
                        let dists: Vec<f64> = if has_far { vec![near, far] } else { vec![near, 2.0 * near, 5.0 * near, 100.0 * near] };
                        for (di, &d) in dists.iter().enumerate() {
                            let want_depth = if has_far { depth_target(di == 1, fc.zo) as f64 } else { (1.0 - eps) - (2.0 - eps) * near / d };
                            for (ci, (sx, sy)) in [(-1.0f64, -1.0f64), (-1.0, 1.0), (1.0, -1.0), (1.0, 1.0)].into_iter().enumerate() {
                                ev += 1; nt += 1;
                                let p = [sx * t * aspect * d, sy * t * d, if fc.lh { d } else { -d }, 1.0];
                                let (mut clip, mut mag) = ([0.0f64; 4], [0.0f64; 4]);
                                for i in 0..4 { for j in 0..4 { let term = m[i][j] * p[j]; clip[i] += term; mag[i] += term.abs(); } }
                                let w = clip[3];
                                let wc = wgt | ((di as u64) << 4) | ((ci as u64) << 2);
                                let at = |what: &str, got: f64, want: f64| json!({"distance": d, "corner": [sx, sy], "view_space_point": p.to_vec(), "clip": clip.to_vec(), "what": what, "got": got, "want": want});
                                if !(w > 0.0) { coll.push(&site, C_W, wc, || detail(at("w", w, 0.0))); continue; }
                                for (i, want, class) in [(0usize, sx, C_X), (1, sy, C_Y), (2, want_depth, if di == 0 { C_NEAR } else if has_far { C_FAR } else { C_INF })] {
                                    let got = clip[i] / w;
                                    if !near_enough(got, want, mag[i] / w + 1.0, T::EPS) { coll.push(&site, class, wc | i as u64, || detail(at(["ndc.x", "ndc.y", "ndc.z"][i], got, want))); }
                                }
                            }
                        }
                        // (b) exact scaling law: only entry (2,3) depends on the magnitude of near/far, nothing on that of width/height
                        if !unscaled { if let Some(b) = &base {
                            ev += 1; nt += 1;
                            let mut bad = Vec::new();
                            for i in 0..4 { for j in 0..4 {
                                let want = (b[i][j] * T::pow2(if (i, j) == (2, 3) { e2 } else { 0 })).to64();
                                if m[i][j] != want { bad.push(json!({"entry(row,col)": [i, j], "got": m[i][j], "want": want, "unscaled": b[i][j].to64()})); }
                            } }
                            if !bad.is_empty() { coll.push(&site, C_SCALE, wgt, || detail(json!({"entries": bad, "unscaled_matrix": jm64(&m64(b))}))); }
                        } }
                        // (c) a perspective matrix is the frustum matrix of the implied planes (planes by the oracle in f64, rounded to T)
                        if has_far {
                            ev += 1; nt += 1;
                            let (top, right) = (near * t, near * t * aspect);
                            let plt: [T; 6] = [-right, right, -top, top, near, far].map(|v| <T as num_traits::NumCast>::from(v).unwrap());
                            if let Some(fr) = s.call(&site, inp, || plane_mat::<T>(lay, frustum_index(fc.lh, fc.zo), plt)) {
                                let fr = m64(&fr);
                                let mut bad = Vec::new();
                                for i in 0..4 { for j in 0..4 { let (g, w) = (m[i][j], fr[i][j]); if !((w == 0.0 && g == 0.0) || near_enough(g, w, w.abs(), T::EPS)) { bad.push(json!({"entry(row,col)": [i, j], "got": g, "frustum": w})); } } }
                                if !bad.is_empty() { coll.push(&site, C_FRUSTUM, wgt, || detail(json!({"entries": bad, "implied_planes[l,r,b,t,n,f]": [-right, right, -top, top, near, far], "frustum_matrix": jm64(&fr)}))); }
                            }
                        }
                        // (d) LH = RH * z mirror, bit for bit (evaluated from the left-handed member)
                        if let Some(&(_, kr)) = FOV_PAIRS.iter().find(|p| p.0 == k) {
                            ev += 1; nt += 1;
                            if let Some(rt) = s.call(&format!("Mat4<{}>::{}", T::NAME, FOVC[kr].name), inp, || fov_mat::<T>(lay, kr, targs)) {
                                let rr = m64(&rt);
                                let mut mirrored = rr; for i in 0..4 { mirrored[i][2] = -rr[i][2]; }
                                if !same_mat(&m, &mirrored) { coll.push(&format!("Mat4<{}>::{}<->{}", T::NAME, fc.name, FOVC[kr].name), C_MIRROR, wgt, || detail(json!({"rh": jm64(&rr)}))); }
                            }
                        }
                        // (e) layouts agree bit for bit (evaluated from the column-major member)
                        if lay == 1 {
                            ev += 1; nt += 1;
                            if let Some(rt) = s.call(&site, inp, || fov_mat::<T>(0, k, targs)) { let rr = m64(&rt); if !same_mat(&rr, &m) { coll.push(&site, C_LAYOUT, wgt, || detail(json!({"row_major": jm64(&rr)}))); } }
                        }
                    } }
                }
            }
        }
        s.evals(ev, nt);
        for (c, n) in cls { s.class_n(c, n); }
        if fi == al.fovs.len() / 3 { s.sample(json!({"element_type": T::NAME, "fov": fov, "tan(fov/2)": t, "constructors": 12, "layouts": 2, "near_far_scales": al.e_nf, "width_height_scales": al.e_wh, "bound": "256*eps_T*(sum|terms|/|w| + 1); scaling law, lh/rh mirror and layouts bit for bit; frustum of implied planes entrywise within 256 eps_T relative"})); }
    });
    coll.flush(s);
}

/// second audit: on the unchanged tree every constructor call of the exact tiers is modelled.  A change that makes a constructor
/// compare values, take an absolute value or call epsilon() turns the formal types (`Fr`, `Deg`) unmodelled: those calls are skipped
/// without a verdict, i.e. the tier that decides the property for all inputs goes blind silently.  That is reported as a machinery
/// error (exit code 2), never as a violation.
fn report_blind(s: &Section, blind: u64) {
    s.meta("constructor_calls_not_evaluated_in_the_exact_type", json!(blind));
    if blind > 0 { s.rep.machinery_error(format!("section '{}': {} constructor calls could not be evaluated in the exact/formal element type (none on the unchanged tree): the code under check now inspects values or leaves the ring operations, so this tier no longer decides anything about it", s.name, blind)); }
}

fn main() {
    let rep = Report::start("C08", "exploration");
    let th = rep.thorough();
    let deg = measure_degrees();
    let (deg_entry, deg_corner, deg_mirror) = deg.clone().unwrap_or((0, 0, 0));
    // design: Lambda(6, 8) = 3003 points; never below the measured degree + 2
    let order: u32 = (deg_corner.max(deg_mirror) + 2).max(8) + if th { 4 } else { 0 };

    // ---------------------------------------------------------------------------------------------
    rep.section("premise: the 9 plane-taking constructors are branch-free rational functions of the six planes",
        "one run of each orthographic_*/frustum_* constructor in each layout on tropical degree values (every comparison, cast or transcendental call panics), then the oracle's corner products on the same values to measure the degree of every cross-multiplied identity used below; one evaluation per constructor x layout; non-trivial: all", true, true, |s| {
        for _ in 0..PLANE.len() * 2 { s.eval(true); }
        match &deg {
            Ok(_) => { s.meta("measured", json!({"max_entry_degree(num+den)": deg_entry, "max_cross_degree_corner_identity": deg_corner, "max_cross_degree_lh_rh_identity": deg_mirror, "lattice_order_used": order})); }
            Err(e) => { s.degrade(e); s.rep.machinery_error(format!("degree premise failed: {}", e)); }
        }
        s.sample(json!({"constructor": "frustum_lh_no (column_major)", "input": "all six planes = degree-1 variable", "cross_degree_of_corner_identities(all constructors)": deg_corner}));
    });

    // ---------------------------------------------------------------------------------------------
    rep.section("orthographic+frustum: corners -> clip corners, formal identities on the translated lattice",
        &format!("all points a of the simplex lattice L(6, D), D = {} (>= measured cross-degree {} + 2; thorough +4), planes = base + a with base (l,r,b,t,n,f) = {:?} for orthographic_* and {:?} for frustum_* (so off-centre, inverted, far<near and degenerate l=r / b=t / n=f points are all inside) x the 9 plane-taking constructors x 2 layouts: the real constructor is run on formal fractions (no quotient is formed) and for each of the 8 corners of the view volume of its handedness (orthographic_without_depth_planes: both handednesses, x and y only; frustum far corners given homogeneously as (x f, y f, z n, n)) clip.x = sx*clip.w, clip.y = sy*clip.w, clip.z = depth*clip.w must hold cross-multiplied (a polynomial identity of degree <= D vanishing on L(6,D) vanishes identically, hence for all planes with non-zero denominators); the row/column-major results must be cross-equal entry by entry.  w > 0: w is also compared, as an identity, with the corner's distance along the view direction (1 for orthographic); if that identity holds everywhere positivity is decided for all inputs, otherwise the section is degraded and positivity stays bounded to the sign test done at every proper lattice volume.  one evaluation per corner; non-trivial: proper volume (l!=r, b!=t, n!=f)", order, deg_corner, BASE_ORTHO, BASE_FRUSTUM), true, true, |s| {
        s.require_classes(&["proper-volume", "degenerate-volume(formal only)", "off-centre", "centred", "inverted(left>right or bottom>top)", "far<near", "w-sign-tested", "orthographic", "frustum", "orthographic_without_depth_planes"]);
        if let Err(e) = &deg { s.degrade(e); }
        if order < deg_corner { s.degrade("lattice order below the measured degree"); }
        let w_identity = AtomicBool::new(true);
        let blind = std::sync::atomic::AtomicU64::new(0);
        let coll = Coll::new();
        par_lattice(6, order, |a| {
            for (k, pc) in PLANE.iter().enumerate() {
                let pli = lattice_planes(pc, a);
                let plf = pli.map(Fr::int);
                let valid = planes_valid(pc, &pli);
                s.class(if valid { "proper-volume" } else { "degenerate-volume(formal only)" });
                if valid {
                    s.class(if pli[0] + pli[1] != 0 || pli[2] + pli[3] != 0 { "off-centre" } else { "centred" });
                    if pli[0] > pli[1] || pli[2] > pli[3] { s.class("inverted(left>right or bottom>top)"); }
                    if pli[5] < pli[4] { s.class("far<near"); }
                }
                s.class(match pc.fam { Fam::OrthoXY => "orthographic_without_depth_planes", Fam::Ortho => "orthographic", Fam::Frustum => "frustum" });
                let site = format!("Mat4::{}", pc.name);
                let weight = lattice_weight(&pli, valid, a);
                let mut mats: [Option<A<Fr, 4>>; 2] = [None, None];
                for lay in 0..2 {
                    let inp = || json!({"layout": LAY[lay], "planes[l,r,b,t,n,f]": pli.iter().map(|v| *v as i64).collect::<Vec<_>>()});
                    let hands: &[bool] = if pc.fam == Fam::OrthoXY { &[true, false] } else if pc.lh { &[true] } else { &[false] };
                    let Some(m) = s.call(&site, inp, || plane_mat::<Fr>(lay, k, plf)) else { s.evals(8, 0); blind.fetch_add(1, Relaxed); continue };
                    mats[lay] = Some(m);
                    for &lh in hands {
                        s.evals(8, if valid { 8 } else { 0 });
                        match catch(|| check_corners_fr(&m, pc, lh, &plf, &pli, valid)) {
                            Ok(r) => {
                                if !r.w_is_depth { w_identity.store(false, Relaxed); }
                                if r.w_sign_checked > 0 { s.class_n("w-sign-tested", r.w_sign_checked); }
                                for (class, ci, corner, clip) in r.fails {
                                    coll.push(&site, class, weight | ((lay as u64) << 4) | ((lh as u64) << 3) | ci as u64, || json!({"layout": LAY[lay], "planes": {"left": pli[0] as i64, "right": pli[1] as i64, "bottom": pli[2] as i64, "top": pli[3] as i64, "near": pli[4] as i64, "far": pli[5] as i64}, "handedness_of_volume": if lh { "lh(+z)" } else { "rh(-z)" }, "corner": corner, "clip(formal n/d)": clip, "proper_volume": valid}));
                                }
                            }
                            Err(_) => s.unmodelled("i128 overflow in the formal oracle"),
                        }
                    }
                }
                if let (Some(r), Some(c)) = (mats[0], mats[1]) {
                    let same = catch(|| (0..16).all(|i| r[i / 4][i % 4].cross_eq(c[i / 4][i % 4]))).unwrap_or(true);
                    if !same { coll.push(&site, C_LAYOUT, weight, || json!({"planes[l,r,b,t,n,f]": pli.iter().map(|v| *v as i64).collect::<Vec<_>>()})); }
                }
                if valid && k == 8 && a[5] == order as i64 {
                    s.sample(json!({"constructor": pc.name, "planes[l,r,b,t,n,f]": pli.iter().map(|v| *v as i64).collect::<Vec<_>>(), "identities": "clip.x = +-clip.w, clip.y = +-clip.w, clip.z = {-1|1}*clip.w at 8 corners, 2 layouts"}));
                }
            }
        });
        s.meta("lattice", json!({"n": 6, "order": order, "points": lattice_count(6, order).to_string(), "measured_cross_degree": deg_corner}));
        coll.flush(s);
        report_blind(s, blind.load(Relaxed));
        s.meta("w_equals_view_depth_identically", json!(w_identity.load(Relaxed)));
        if !w_identity.load(Relaxed) { s.degrade("w is not identically the distance along the view direction: positivity of w is only decided at the lattice points"); }
    });

    // ---------------------------------------------------------------------------------------------
    rep.section("orthographic+frustum: LH = RH * diag(1,1,-1,1), formal identities on the translated lattice",
        &format!("all points of L(6, {}) translated as above x the 4 (lh, rh) pairs orthographic_zo/no, frustum_zo/no x 2 layouts: each of the 16 entries of the left-handed matrix must be cross-equal to the entry of the right-handed one, negated in column 2 (measured cross-degree {}); one evaluation per pair x layout; non-trivial: proper volume", order, deg_mirror), true, true, |s| {
        s.require_classes(&["proper-volume", "off-centre", "orthographic-pair", "frustum-pair"]);
        if let Err(e) = &deg { s.degrade(e); }
        let coll = Coll::new();
        let blind = std::sync::atomic::AtomicU64::new(0);
        par_lattice(6, order, |a| {
            for (kl, kr) in PLANE_PAIRS {
                let pc = &PLANE[kl];
                let pli = lattice_planes(pc, a);
                let plf = pli.map(Fr::int);
                let valid = planes_valid(pc, &pli);
                if valid { s.class("proper-volume"); if pli[0] + pli[1] != 0 || pli[2] + pli[3] != 0 { s.class("off-centre"); } }
                s.class(if pc.fam == Fam::Frustum { "frustum-pair" } else { "orthographic-pair" });
                let site = format!("Mat4::{}<->{}", PLANE[kl].name, PLANE[kr].name);
                for lay in 0..2 {
                    s.eval(valid);
                    let inp = || json!({"layout": LAY[lay], "planes[l,r,b,t,n,f]": pli.iter().map(|v| *v as i64).collect::<Vec<_>>()});
                    let Some((ml, mr)) = s.call(&site, inp, || (plane_mat::<Fr>(lay, kl, plf), plane_mat::<Fr>(lay, kr, plf))) else { blind.fetch_add(1, Relaxed); continue };
                    let bad = catch(|| { let mut bad = Vec::new(); for i in 0..4 { for j in 0..4 { let want = if j == 2 { -mr[i][j] } else { mr[i][j] }; if !ml[i][j].cross_eq(want) { bad.push((i, j)); } } } bad });
                    match bad {
                        Ok(bad) => if let Some(&(i, j)) = bad.first() {
                            coll.push(&site, C_MIRROR, lattice_weight(&pli, valid, a) | lay as u64, || json!({"layout": LAY[lay], "planes": {"left": pli[0] as i64, "right": pli[1] as i64, "bottom": pli[2] as i64, "top": pli[3] as i64, "near": pli[4] as i64, "far": pli[5] as i64}, "entries(row,col)": bad, "first": {"lh": frs(&ml[i][j]), "rh": frs(&mr[i][j]), "want_lh": if j == 2 { "-rh" } else { "rh" }}, "proper_volume": valid}));
                        },
                        Err(_) => s.unmodelled("i128 overflow in the formal oracle"),
                    }
                }
            }
        });
        coll.flush(s);
        report_blind(s, blind.load(Relaxed));
        s.meta("lattice", json!({"n": 6, "order": order, "points": lattice_count(6, order).to_string(), "measured_cross_degree": deg_mirror}));
        s.sample(json!({"pair": "frustum_lh_no <-> frustum_rh_no", "law": "lh[i][j] == rh[i][j] * (j == 2 ? -1 : 1), 16 entries, cross-multiplied"}));
    });

    // ---------------------------------------------------------------------------------------------
    let xy_vals: Vec<X> = if th { vec![qi(-3), qi(-2), qi(-1), q(-1, 2), qi(0), qi(1), q(3, 2), qi(3)] } else { vec![qi(-2), qi(-1), qi(1), qi(3)] };
    let ortho_nf: Vec<X> = if th { vec![qi(-2), qi(-1), qi(0), q(1, 2), qi(2), qi(5)] } else { vec![qi(-1), qi(0), qi(2), qi(5)] };
    let frustum_nf: Vec<X> = if th { vec![q(1, 2), qi(1), qi(2), qi(5), qi(100)] } else { vec![qi(1), qi(2), qi(5)] };
    rep.section("orthographic+frustum: the design alphabet in exact rationals, after the homogeneous divide",
        &format!("(left,right) and (bottom,top): all ordered pairs of distinct values of {:?}; (near,far): all ordered pairs of distinct values of {:?} for orthographic_* and of {:?} for frustum_* (far<near included; near>0 so that every corner is in front of the viewer) x 9 constructors x 2 layouts: each of the 8 true corners (far corner of a frustum = (x far/near, y far/near, +-far)) is multiplied by the decoded matrix and divided by w: x -> -1|+1, y -> -1|+1, near -> 0|-1, far -> 1, and w > 0 for every corner at positive distance; the two layouts must decode to the same array; the left-handed matrix must equal the right-handed one with column 2 negated.  one evaluation per corner; non-trivial: volume not centred on the axis (left+right != 0 or bottom+top != 0)", xy_vals, ortho_nf, frustum_nf), true, false, |s| {
        s.require_classes(&["off-centre", "centred", "inverted-x", "inverted-y", "far<near", "orthographic-near<=0", "orthographic", "frustum", "orthographic_without_depth_planes", "lh", "rh", "zero_to_one", "negative_one_to_one"]);
        let xy = ordered_pairs(&xy_vals);
        let mut sets: Vec<(bool, [X; 6])> = Vec::new(); // (for the frustum family?, planes)
        for &(l, r) in &xy { for &(b, t) in &xy {
            for (n, f) in ordered_pairs(&ortho_nf) { sets.push((false, [l, r, b, t, n, f])); }
            for (n, f) in ordered_pairs(&frustum_nf) { sets.push((true, [l, r, b, t, n, f])); }
        } }
        s.meta("alphabet", json!({"xy_values": xy_vals.len(), "xy_ordered_pairs": xy.len(), "orthographic_near_far_pairs": ordered_pairs(&ortho_nf).len(), "frustum_near_far_pairs": ordered_pairs(&frustum_nf).len(), "plane_sets": sets.len()}));
        let sample_no = sets.iter().position(|(fr, pl)| *fr && pl[0] > pl[1] && pl[2] + pl[3] != qi(0));
        let blind = std::sync::atomic::AtomicU64::new(0);
        let coll = Coll::new();
        sets.par_iter().enumerate().for_each(|(set_no, (is_frustum, pl))| {
            let off = pl[0] + pl[1] != qi(0) || pl[2] + pl[3] != qi(0);
            s.class(if off { "off-centre" } else { "centred" });
            if pl[0] > pl[1] { s.class("inverted-x"); }
            if pl[2] > pl[3] { s.class("inverted-y"); }
            if pl[5] < pl[4] { s.class("far<near"); }
            if !is_frustum && pl[4] <= qi(0) { s.class("orthographic-near<=0"); }
            let w0 = (wt(pl) << 40) | ((set_no as u64) << 6);
            let mut decoded: Vec<(usize, [Option<A<X, 4>>; 2])> = Vec::new();
            for (k, pc) in PLANE.iter().enumerate() {
                if (pc.fam == Fam::Frustum) != *is_frustum { continue; }
                s.class(match pc.fam { Fam::OrthoXY => "orthographic_without_depth_planes", Fam::Ortho => "orthographic", Fam::Frustum => "frustum" });
                if pc.fam != Fam::OrthoXY { s.class(if pc.lh { "lh" } else { "rh" }); s.class(if pc.zo { "zero_to_one" } else { "negative_one_to_one" }); }
                let site = format!("Mat4::{}", pc.name);
                let mut pair = [None, None];
                for lay in 0..2 {
                    let inp = || json!({"layout": LAY[lay], "planes": jp(pl)});
                    let hands: &[bool] = if pc.fam == Fam::OrthoXY { &[true, false] } else if pc.lh { &[true] } else { &[false] };
                    let Some(m) = s.call(&site, inp, || plane_mat::<X>(lay, k, *pl)) else { s.evals(8, 0); blind.fetch_add(1, Relaxed); continue };
                    pair[lay] = Some(m);
                    for &lh in hands {
                        s.evals(8, if off { 8 } else { 0 });
                        if let Some(fails) = s.call(&site, inp, || check_corners_x(&m, pc.fam == Fam::Frustum, lh, if pc.fam == Fam::OrthoXY { None } else { Some(pc.zo) }, pl)) {
                            for (class, detail, ci) in fails { coll.push(&site, class, w0 | ((lay as u64) << 4) | ((lh as u64) << 3) | ci, || json!({"layout": LAY[lay], "planes": jp(pl), "handedness_of_volume": if lh { "lh(+z)" } else { "rh(-z)" }, "matrix": jmat(&m), "at": detail})); }
                        }
                    }
                }
                if let (Some(r), Some(c)) = (pair[0], pair[1]) { if r != c { coll.push(&site, C_LAYOUT, w0, || json!({"planes": jp(pl), "row_major": jmat(&r), "column_major": jmat(&c)})); } }
                decoded.push((k, pair));
            }
            for (kl, kr) in PLANE_PAIRS { for lay in 0..2 {
                let (Some(l), Some(r)) = (decoded.iter().find(|d| d.0 == kl).and_then(|d| d.1[lay]), decoded.iter().find(|d| d.0 == kr).and_then(|d| d.1[lay])) else { continue };
                s.eval(off);
                if l != z_mirror_of(&r) { coll.push(&format!("Mat4::{}<->{}", PLANE[kl].name, PLANE[kr].name), C_MIRROR, w0 | lay as u64, || json!({"layout": LAY[lay], "planes": jp(pl), "lh": jmat(&l), "rh": jmat(&r)})); }
            } }
            if Some(set_no) == sample_no { s.sample(json!({"planes": jp(pl), "constructors": "frustum_{lh,rh}_{zo,no}", "corner near-left-bottom (rh)": jxs(&[pl[0], pl[2], -pl[4], qi(1)]), "must map to": "(-1, -1, 0|-1), w > 0"})); }
        });
        coll.flush(s);
        report_blind(s, blind.load(Relaxed));
    });

    // ---------------------------------------------------------------------------------------------
    // perspective family: exact, with angle tokens whose half angle has a rational tangent
    // audit: the last tokens of each list have pi < fov < 2 pi (allowed by the debug_assert!s: tan(fov/2) < 0, the implied
    // volume is inverted), the aspect list reaches 1/100 and 100, near/far reach a ratio of 1025/1024 and of 2^40
    let fov_tokens: Vec<(i128, i128, i128)> = if th { vec![(1, 10, 1), (1, 5, 2), (1, 3, 1), (1, 2, 1), (2, 3, 1), (1, 5, 1), (1, 4, 1), (3, 4, 1), (9, 10, 1), (1, 7, 3), (1, 100, 1), (2, 1, 1), (3, 1, 1), (3, 2, 1), (10, 1, 1), (1, 1 << 28, 1)] } else { vec![(1, 10, 1), (1, 5, 2), (1, 3, 1), (1, 2, 1), (2, 3, 1), (2, 1, 1), (3, 1, 1), (1, 1 << 28, 1)] };
    // second audit: the exact type has epsilon() = 2^-52 and comparisons, so a closeness guard (absolute, relative or on a square) is a
    // branch this tier can take: one token with tan(fov/2)^2 < 2^-52, an aspect, a far/near ratio and an epsilon within 2^-54 of 1 / 1 / 0
    let one_plus: X = q((1 << 54) + 1, 1 << 54);
    let aspects: Vec<X> = if th { vec![q(1, 2), qi(1), q(16, 9), q(4, 3), qi(3), q(1, 100), qi(100)] } else { vec![q(1, 2), qi(1), q(16, 9), q(1, 100), qi(100)] };
    let persp_nf: Vec<X> = if th { vec![q(1, 1 << 20), q(1, 10), qi(1), q(1025, 1024), qi(2), qi(5), qi(1000), qi(1 << 20)] } else { vec![qi(1), q(1025, 1024), qi(2), qi(5), qi(1 << 20)] };
    let epsilons: Vec<X> = if th { vec![qi(0), q(1, 1024), q(1, 16)] } else { vec![qi(0), q(1, 1024)] };
    let tiny_eps: X = q(1, 1 << 54);
    let inf_mult: [i128; 4] = [1, 2, 5, 100];
    rep.section("perspective, perspective_fov, (tweaked_)infinite_perspective: exact, fov with rational tan(fov/2)",
        &format!("fov = 2k*arg(z_t) for (t_num, t_den, k) in {:?} (z_t = ((1-t^2)/(1+t^2), 2t/(1+t^2)); 0 < fov < 2 pi; tan(fov/2) is an exact rational) x aspect in {:?} (perspective_fov: width, height both from that set, aspect = width/height) x (near,far) in pairs near<far of {:?} (the debug_assert!s are preconditions) x 2 layouts; the tokens with tan(fov/2) < 0 are fields of view in (pi, 2 pi), which the preconditions allow: the implied planes are then inverted (top < bottom) and the same identities are claimed.  Implied planes: top = near*tan(fov/2), bottom = -top, right = top*aspect, left = -right.  For the 8 perspective/perspective_fov constructors: 8 corners -> (+-1, +-1, near -> 0|-1, far -> 1), w > 0; matrix == frustum_<same suffix> of the implied planes entry by entry; LH == RH with column 2 negated.  For the 4 infinite constructors (epsilon in {:?}; infinite_* = epsilon 0): the near rectangle scaled to distance d = m*near, m in {:?}, maps to x,y = +-1, depth (1-eps) - (2-eps)*near/d (so near -> -1, limit 1-eps), w > 0; LH == RH with column 2 negated.  Second audit: the token (1, 2^28, 1) has tan(fov/2)^2 < 2^-52 = epsilon() of the exact type; for every other token each constructor is also run with one argument at a time within 2^-54 of its special value (aspect, width/height (also width == height != 1 and 3(1+2^-54) : 3) and far/near = 1 + 2^-54 or its reciprocal, tweak epsilon = 2^-54), the others plain, so that an absolute or relative closeness guard written with epsilon() or approx is a branch this tier takes.  one evaluation per corner / per matrix equality; non-trivial: aspect != 1", fov_tokens, aspects, persp_nf, epsilons, inf_mult), true, false, |s| {
        s.require_classes(&["perspective", "perspective_fov", "tweaked_infinite(eps!=0)", "tweaked_infinite(eps=0)", "infinite", "aspect!=1", "aspect=1", "width!=height", "lh", "rh", "zero_to_one", "negative_one_to_one", "fov<pi/2", "fov>pi/2", "fov>pi(tan<0, inverted implied volume)", "aspect<=1/100", "far/near<=1025/1024"]);
        s.require_classes(&["tan(fov/2)^2 < 2^-52", "0 < |aspect - 1| <= 2^-54", "far/near <= 1 + 2^-54", "far/near >= 2^20", "0 < epsilon < 2^-52", "aspect>=100"]);
        let nf_pairs: Vec<(X, X)> = ordered_pairs(&persp_nf).into_iter().filter(|(n, f)| n < f).collect();
        s.meta("alphabet", json!({"fov_tokens": fov_tokens.len(), "aspects": aspects.len(), "near_far_pairs": nf_pairs.len(), "epsilons": epsilons.len(), "infinite_depth_multiples": inf_mult}));
        let mut case_no = 0u64;
        let mut blind = 0u64;
        for &(tn, td, kk) in &fov_tokens {
            let b = angle_base_t(tn, td);
            let (fov, half) = (X::tok(b, 2 * kk), X::tok(b, kk));
            let (sn, cs) = half.sin_cos_q();
            assert!(sn.n > 0 && cs.n != 0, "half angle must be in (0, pi) and not pi/2");
            let tan = X::R(sn.div(cs));
            let fov_json = json!({"fov": format!("{}*2*atan({}/{})", 2 * kk, tn, td), "tan(fov/2)": jx(tan), "fov_degrees~": fov.shadow().to_degrees()});
            for (k, fc) in FOVC.iter().enumerate() {
                let site = format!("Mat4::{}", fc.name);
                // the argument lists of this constructor kind
                let mut arglists: Vec<([X; 5], X, X, X, X)> = Vec::new(); // (args, aspect, near, far-or-0, eps)
                match fc.kind {
                    Kind::Persp => for &a in &aspects { for &(n, f) in &nf_pairs { arglists.push(([fov, a, n, f, qi(0)], a, n, f, qi(0))); } },
                    Kind::PerspFov => for &w in &aspects { for &h in &aspects { for &(n, f) in &nf_pairs { arglists.push(([fov, w, h, n, f], w / h, n, f, qi(0))); } } },
                    Kind::Tweaked => for &a in &aspects { for &n in &persp_nf { for &e in &epsilons { arglists.push(([fov, a, n, e, qi(0)], a, n, qi(0), e)); } } },
                    Kind::Infinite => for &a in &aspects { for &n in &persp_nf { arglists.push(([fov, a, n, qi(0), qi(0)], a, n, qi(0), qi(0))); } },
                }
                // second audit: one argument at a time within 2^-54 of its special value (1 for aspect, width/height and far/near, 0 for epsilon),
                // the others plain (the full product with these values, or with the token of the tiny field of view, leaves the i128 rationals)
                let (o, h, op) = (qi(1), q(1, 2), one_plus);
                if td < (1 << 20) { match fc.kind {
                    Kind::Persp => for (a, n, f) in [(op, o, qi(2)), (o / op, o, qi(2)), (h, o, op), (o, o, op), (h, qi(2), qi(2) * op)] { arglists.push(([fov, a, n, f, qi(0)], a, n, f, qi(0))); },
                    Kind::PerspFov => for (w, ht, n, f) in [(op, o, o, qi(2)), (o, op, o, qi(2)), (op, op, o, qi(2)), (qi(3) * op, qi(3), o, qi(2)), (h, o, o, op), (o, o, o, op)] { arglists.push(([fov, w, ht, n, f], w / ht, n, f, qi(0))); },
                    Kind::Tweaked => for (a, n, e) in [(h, o, tiny_eps), (o, qi(2), tiny_eps), (op, o, qi(0)), (h, op, q(1, 1024))] { arglists.push(([fov, a, n, e, qi(0)], a, n, qi(0), e)); },
                    Kind::Infinite => for (a, n) in [(op, o), (h, op)] { arglists.push(([fov, a, n, qi(0), qi(0)], a, n, qi(0), qi(0))); },
                } }
                for (args, aspect, near, far, eps) in arglists {
                    let nontriv = aspect != qi(1);
                    s.class(match fc.kind { Kind::Persp => "perspective", Kind::PerspFov => "perspective_fov", Kind::Tweaked => if eps != qi(0) { "tweaked_infinite(eps!=0)" } else { "tweaked_infinite(eps=0)" }, Kind::Infinite => "infinite" });
                    s.class(if nontriv { "aspect!=1" } else { "aspect=1" });
                    if fc.kind == Kind::PerspFov && args[1] != args[2] { s.class("width!=height"); }
                    s.class(if fc.lh { "lh" } else { "rh" }); s.class(if fc.zo { "zero_to_one" } else { "negative_one_to_one" });
                    s.class(if tan < qi(0) { "fov>pi(tan<0, inverted implied volume)" } else if tan < qi(1) { "fov<pi/2" } else { "fov>pi/2" });
                    if aspect <= q(1, 100) { s.class("aspect<=1/100"); }
                    if far != qi(0) && far / near <= q(1025, 1024) { s.class("far/near<=1025/1024"); }
                    if tan * tan < q(1, 1 << 52) { s.class("tan(fov/2)^2 < 2^-52"); }
                    if aspect == one_plus || aspect == qi(1) / one_plus { s.class("0 < |aspect - 1| <= 2^-54"); }
                    if aspect >= qi(100) { s.class("aspect>=100"); }
                    if far == near * one_plus { s.class("far/near <= 1 + 2^-54"); }
                    if far != qi(0) && far / near >= qi(1 << 20) { s.class("far/near >= 2^20"); }
                    if eps > qi(0) && eps < q(1, 1 << 52) { s.class("0 < epsilon < 2^-52"); }
                    let top = near * tan; let right = top * aspect;
                    let argj = match fc.kind {
                        Kind::Persp => json!({"fov_y": fov_json, "aspect": jx(args[1]), "near": jx(near), "far": jx(far)}),
                        Kind::PerspFov => json!({"fov_y": fov_json, "width": jx(args[1]), "height": jx(args[2]), "near": jx(near), "far": jx(far)}),
                        Kind::Tweaked => json!({"fov_y": fov_json, "aspect": jx(args[1]), "near": jx(near), "epsilon": jx(eps)}),
                        Kind::Infinite => json!({"fov_y": fov_json, "aspect": jx(args[1]), "near": jx(near)}),
                    };
                    case_no += 1;
                    let w0 = ((wt(&args[1..]) + (tn + td + kk) as u64) << 32) | (case_no << 8);
                    let mut pair: [Option<A<X, 4>>; 2] = [None, None];
                    for lay in 0..2 {
                        let inp = || json!({"layout": LAY[lay], "args": argj});
                        let Some(m) = s.call(&site, inp, || fov_mat::<X>(lay, k, args)) else { s.evals(8, 0); blind += 1; continue };
                        pair[lay] = Some(m);
                        match fc.kind {
                            Kind::Persp | Kind::PerspFov => {
                                let pl = [-right, right, -top, top, near, far];
                                s.evals(8, if nontriv { 8 } else { 0 });
                                if let Some(fails) = s.call(&site, inp, || check_corners_x(&m, true, fc.lh, Some(fc.zo), &pl)) {
                                    for (class, detail, ci) in fails { s.violation_w(&site, class, json!({"layout": LAY[lay], "args": argj, "implied_planes": jp(&pl), "matrix": jmat(&m), "at": detail}), w0 + ci * 2 + lay as u64); }
                                }
                                // equals the frustum of the implied planes
                                s.eval(nontriv);
                                if let Some(fr) = s.call(&site, inp, || plane_mat::<X>(lay, frustum_index(fc.lh, fc.zo), pl)) {
                                    if fr != m { s.violation_w(&site, C_FRUSTUM, json!({"layout": LAY[lay], "args": argj, "implied_planes": jp(&pl), "matrix": jmat(&m), format!("frustum_{}_{}", if fc.lh { "lh" } else { "rh" }, if fc.zo { "zo" } else { "no" }): jmat(&fr)}), w0 + lay as u64); }
                                }
                            }
                            Kind::Tweaked | Kind::Infinite => {
                                for (mi, &mult) in inf_mult.iter().enumerate() {
                                    let d = near * qi(mult);
                                    let pl = [-right, right, -top, top, near, d];
                                    s.evals(4, if nontriv { 4 } else { 0 });
                                    let fails = s.call(&site, inp, || {
                                        let mut out: Vec<(&'static str, Value, u64)> = Vec::new();
                                        let want_depth = (qi(1) - eps) - (qi(2) - eps) * near / d;
                                        for (ci, c) in corners::<X>(true, fc.lh, &pl, false).iter().enumerate().filter(|(_, c)| c.far) {
                                            let clip = mvec(&m, &c.p); let w = clip[3];
                                            let dj = |got: Value, want: Value| json!({"distance": jx(d), "corner": c.label(), "view_space_point": jxs(&c.p), "clip": jxs(&clip), "got": got, "want": want});
                                            if !(w > qi(0)) { out.push((C_W, dj(jx(w), json!("> 0")), ci as u64)); }
                                            if w == qi(0) { out.push((C_W0, dj(jx(w), json!("!= 0")), ci as u64)); continue; }
                                            if clip[0] / w != qi(c.sx as i128) { out.push((C_X, dj(jx(clip[0] / w), json!(c.sx)), ci as u64)); }
                                            if clip[1] / w != qi(c.sy as i128) { out.push((C_Y, dj(jx(clip[1] / w), json!(c.sy)), ci as u64)); }
                                            if clip[2] / w != want_depth { out.push((if mult == 1 { C_NEAR } else { C_INF }, dj(jx(clip[2] / w), jx(want_depth)), ci as u64)); }
                                        }
                                        out
                                    });
                                    if let Some(fails) = fails { for (class, detail, ci) in fails { s.violation_w(&site, class, json!({"layout": LAY[lay], "args": argj, "matrix": jmat(&m), "at": detail}), w0 + (mi as u64) * 16 + ci * 2 + lay as u64); } }
                                }
                            }
                        }
                    }
                    if let (Some(r), Some(c)) = (pair[0], pair[1]) { s.eval(nontriv); if r != c { s.violation_w(&site, C_LAYOUT, json!({"args": argj, "row_major": jmat(&r), "column_major": jmat(&c)}), w0); } }
                    // LH = RH * z mirror (evaluated once per pair, from the left-handed member)
                    if let Some(&(_, kr)) = FOV_PAIRS.iter().find(|p| p.0 == k) {
                        for lay in 0..2 {
                            let Some(l) = pair[lay] else { continue };
                            s.eval(nontriv);
                            let inp = || json!({"layout": LAY[lay], "args": argj});
                            if let Some(r) = s.call(&format!("Mat4::{}", FOVC[kr].name), inp, || fov_mat::<X>(lay, kr, args)) {
                                if l != z_mirror_of(&r) { s.violation_w(&format!("Mat4::{}<->{}", fc.name, FOVC[kr].name), C_MIRROR, json!({"layout": LAY[lay], "args": argj, "lh": jmat(&l), "rh": jmat(&r)}), w0 + lay as u64); }
                            }
                        }
                    }
                    if nontriv && fc.kind == Kind::PerspFov && args[1] != args[2] && k == 6 && s.wants_sample() { s.sample(json!({"constructor": fc.name, "args": argj, "implied_planes": jp(&[-right, right, -top, top, near, far]), "checked": "8 corners x 2 layouts, == frustum_rh_no(implied planes), lh == rh*zmirror"})); }
                }
            }
        }
        report_blind(s, blind);
    });

    // ---------------------------------------------------------------------------------------------
    let nfov: usize = if th { 512 } else { 64 };
    rep.section("perspective family, f64 tier for arbitrary fov",
        &format!("fov = 0.05 + i*3.04/{} for i in 0..{} (inside (0, pi)) x aspect (or width/height pairs) from {{0.5, 1, 16/9}} x (near, far) in {{(0.1, 100), (1, 2), (0.5, 1000)}} x epsilon in {{0, 2^-10}} x 12 constructors x 2 layouts, element type f64: corners implied by t = tan(fov/2) (computed by the oracle with libm), clip = M*corner and the sum of |terms| accumulated by the oracle; after the divide |ndc - want| <= 256 eps * (sum|terms|/|w| + 1) (forward error bound of a 4-term dot product and one quotient; inputs are well conditioned: every product is of the form (1/t)*t); w > 0.  one evaluation per corner; non-trivial: all", nfov - 1, nfov), true, false, |s| {
        s.require_classes(&["fov<pi/2", "fov>pi/2", "perspective", "perspective_fov", "infinite"]);
        let aspects = [0.5f64, 1.0, 16.0 / 9.0];
        let nfs = [(0.1f64, 100.0f64), (1.0, 2.0), (0.5, 1000.0)];
        let work: Vec<usize> = (0..nfov).collect();
        let coll = Coll::new();
        work.par_iter().for_each(|&i| {
            let mut case_no = 0u64;
            let fov = 0.05 + i as f64 * 3.04 / (nfov - 1) as f64;
            let t = (fov * 0.5).tan();
            s.class(if fov < std::f64::consts::FRAC_PI_2 { "fov<pi/2" } else { "fov>pi/2" });
            for (k, fc) in FOVC.iter().enumerate() {
                let site = format!("Mat4<f64>::{}", fc.name);
                let mut arglists: Vec<([f64; 5], f64, f64, Vec<f64>, f64)> = Vec::new(); // args, aspect, near, distances, eps
                match fc.kind {
                    Kind::Persp => for a in aspects { for (n, f) in nfs { arglists.push(([fov, a, n, f, 0.0], a, n, vec![n, f], 0.0)); } },
                    Kind::PerspFov => for w in aspects { for h in aspects { for (n, f) in nfs { arglists.push(([fov, w, h, n, f], w / h, n, vec![n, f], 0.0)); } } },
                    Kind::Tweaked => for a in aspects { for (n, _) in nfs { for e in [0.0, 1.0 / 1024.0] { arglists.push(([fov, a, n, e, 0.0], a, n, vec![n, 2.0 * n, 5.0 * n, 100.0 * n], e)); } } },
                    Kind::Infinite => for a in aspects { for (n, _) in nfs { arglists.push(([fov, a, n, 0.0, 0.0], a, n, vec![n, 2.0 * n, 5.0 * n, 100.0 * n], 0.0)); } },
                }
                s.class(match fc.kind { Kind::Persp => "perspective", Kind::PerspFov => "perspective_fov", _ => "infinite" });
                for (args, aspect, near, dists, eps) in arglists {
                    for lay in 0..2 {
                        let inp = || json!({"layout": LAY[lay], "args": args.to_vec()});
                        let Some(m) = s.call(&site, inp, || fov_mat::<f64>(lay, k, args)) else { continue };
                        let (top, right) = (near * t, near * t * aspect);
                        for (di, &d) in dists.iter().enumerate() {
                            let want_depth = match fc.kind {
                                Kind::Persp | Kind::PerspFov => depth_target(di == 1, fc.zo) as f64,
                                _ => (1.0 - eps) - (2.0 - eps) * near / d,
                            };
                            for (sx, sy) in [(-1.0f64, -1.0f64), (-1.0, 1.0), (1.0, -1.0), (1.0, 1.0)] {
                                s.eval(true);
                                case_no += 1;
                                let wgt = ((i as u64) << 32) | (case_no << 2);
                                let p = [sx * right * d / near, sy * top * d / near, if fc.lh { d } else { -d }, 1.0];
                                let mut clip = [0.0f64; 4]; let mut mag = [0.0f64; 4];
                                for r in 0..4 { for c in 0..4 { clip[r] += m[r][c] * p[c]; mag[r] += (m[r][c] * p[c]).abs(); } }
                                let w = clip[3];
                                let detail = |what: &str, got: f64, want: f64| json!({"layout": LAY[lay], "args[fov,..]": args.to_vec(), "distance": d, "corner": [sx, sy], "clip": clip.to_vec(), "what": what, "got": got, "want": want});
                                if !(w > 0.0) { coll.push(&site, C_W, wgt, || detail("w", w, 0.0)); continue; }
                                for (r, want, class) in [(0usize, sx, C_X), (1, sy, C_Y), (2, want_depth, if di == 0 { C_NEAR } else if fc.kind == Kind::Persp || fc.kind == Kind::PerspFov { C_FAR } else { C_INF })] {
                                    let got = clip[r] / w;
                                    if !close64(got, want, mag[r] / w + 1.0) { coll.push(&site, class, wgt | r as u64, || detail(["ndc.x", "ndc.y", "ndc.z"][r], got, want)); }
                                }
                            }
                        }
                    }
                }
            }
            if i == nfov / 2 && s.wants_sample() { s.sample(json!({"fov": fov, "tan(fov/2)": t, "constructors": 12, "layouts": 2, "bound": "256*eps*(sum|terms|/|w| + 1)"})); }
        });
        coll.flush(s);
    });

    // ---------------------------------------------------------------------------------------------
    // audit round: the plane-taking constructors had never been instantiated at a float type
    let mk_plane_alpha = |f32_: bool| -> PlaneFloatAlphabet {
        let (a, b, c, d) = if f32_ { (40, 100, 120, 55) } else { (400, 1000, 1000, 500) }; // |e_xy| <= c, |e_depth| <= d
        let scales: Vec<(i32, i32)> = if th {
            let e1s: Vec<i32> = if f32_ { vec![0, 15, -15, 40, -40, 80, -80, 120, -120] } else { vec![0, 150, -150, 400, -400, 700, -700, 1000, -1000] };
            let e2s: Vec<i32> = if f32_ { vec![0, 15, -15, 40, -40, 55, -55] } else { vec![0, 150, -150, 400, -400, 500, -500] };
            let mut v = Vec::new(); for &e2 in &e2s { for &e1 in &e1s { v.push((e1, e2)); } } v
        } else { vec![(0, 0), (a, a), (-a, -a), (a, -a), (-a, a), (b, 0), (-b, 0), (0, d), (0, -d), (c, d), (-c, -d)] };
        PlaneFloatAlphabet {
            xy: if th { vec![-3.0, -2.0, -1.0, -0.5, 1.0, 1.5, 3.0] } else { vec![-3.0, -1.0, -0.5, 1.0, 1.5] },
            ortho_nf: if th { vec![-2.0, -1.0, 0.0, 0.5, 2.0, 5.0] } else { vec![-2.0, 0.0, 0.5, 5.0] },
            frustum_nf: if th { vec![0.5, 1.0, 2.0, 5.0, 100.0] } else { vec![0.5, 2.0, 100.0] },
            scales, max_frustum_ratio: if f32_ { 110 } else { 1000 }, pairs: None,
        }
    };
    let plane_rule = |ty: &str, al: &PlaneFloatAlphabet| format!("element type {}: (left,right) and (bottom,top): all ordered pairs of distinct values of {:?}; (near,far): all ordered pairs of distinct values of {:?} for orthographic_* and of {:?} for frustum_* (all dyadic, so sums and differences of planes are exact) x the (e_xy, e_depth) in {:?}: (left,right,bottom,top) multiplied by 2^e_xy and (near,far) by 2^e_depth (frustum_*: only |e_depth - e_xy| <= {}, the entry 2 near/(right-left) must stay finite and normal; orthographic_without_depth_planes: e_depth = 0 only) x 9 constructors x 2 layouts.  (a) the 8 corners of the scaled volume through the decoded matrix in f64: |ndc - want| <= 256 eps_{} (sum|terms|/|w| + 1), w > 0 for corners at positive distance; (b) power-of-two scaling is exact in binary floating point while nothing overflows or goes subnormal, and the constructors' own intermediates (at most near*far*2) stay in range on this alphabet: every entry must equal the unscaled entry times 2^k bit for bit, k = -e_xy for (0,0),(1,1) and -e_depth for (2,2) of orthographic_*, e_depth - e_xy for (0,0),(1,1) and e_depth for (2,3) of frustum_*, 0 elsewhere; (c) left-handed == right-handed with column 2 negated, and the two layouts, bit for bit at every scale.  one evaluation per corner / per matrix identity; non-trivial: volume not centred on the axis", ty, al.xy, al.ortho_nf, al.frustum_nf, al.scales, al.max_frustum_ratio, ty);
    { let al = mk_plane_alpha(false); rep.section("orthographic+frustum, f64 tier: off-centre volumes at magnitudes 2^-1000 .. 2^1000", &plane_rule("f64", &al), true, false, |s| plane_float_tier::<f64>(s, &al)); }
    { let al = mk_plane_alpha(true); rep.section("orthographic+frustum, f32 tier: off-centre volumes at magnitudes 2^-120 .. 2^120", &plane_rule("f32", &al), true, false, |s| plane_float_tier::<f32>(s, &al)); }

    // ---------------------------------------------------------------------------------------------
    // audit round: perspective family at f32 and at extreme magnitudes, fov beyond pi, float forms of the two matrix equalities
    let mk_fov_alpha = |f32_: bool| -> FovFloatAlphabet {
        let n: usize = if th { 128 } else { 24 };
        let mut fovs: Vec<f64> = (0..n).map(|i| 0.05 + i as f64 * 3.04 / (n - 1) as f64).collect();
        let beyond: &[f64] = if th { &[3.2, 3.5, 4.0, 4.5, 5.0, 5.5, 6.0, 6.2] } else { &[3.5, 4.5, 5.5, 6.0] };
        fovs.extend_from_slice(beyond);
        // narrow fields of view (telephoto / picking): cot(fov/2) is huge but well conditioned; a half-angle rewrite through
        // sin(fov)/(1 - cos(fov)) cancels catastrophically here
        let narrow: &[f64] = if f32_ { &[0.02, 4e-3, 1e-3, 2.5e-4] } else { &[0.02, 1e-3, 1e-5, 1e-7] };
        fovs.extend_from_slice(narrow);
        FovFloatAlphabet { fovs,
            e_nf: if f32_ { if th { vec![0, 13, -13, 27, -27, 40, -40, 55, -55] } else { vec![0, 40, -40, 55, -55] } } else if th { vec![0, 100, -100, 250, -250, 400, -400, 500, -500] } else { vec![0, 400, -400, 500, -500] },
            e_wh: if f32_ { if th { vec![0, 13, -13, 40, -40, 70, -70, 100, -100] } else { vec![0, 40, -40, 100, -100] } } else if th { vec![0, 100, -100, 400, -400, 700, -700, 1000, -1000] } else { vec![0, 400, -400, 1000, -1000] },
            aspects: vec![0.5, 1.0, 16.0 / 9.0], nfs: vec![(0.1, 100.0), (1.0, 2.0), (0.5, 1000.0)], epsilons: vec![0.0, 1.0 / 1024.0], special: false }
    };
    let fov_rule = |ty: &str, al: &FovFloatAlphabet| format!("element type {}: fov = 0.05 + i*3.04/{} for i in 0..{} (inside (0, pi)) and {} values in (pi, 2 pi) (allowed by the preconditions; tan(fov/2) < 0) and 4 narrow fields of view down to 2.5e-4 (f32) / 1e-7 (f64), rounded to {} x aspect (or width/height pairs) from {{0.5, 1, 16/9}} x (near, far) in {{(0.1, 100), (1, 2), (0.5, 1000)}} (rounded to {}) x epsilon in {{0, 2^-10}} x (near, far) multiplied by 2^e, e in {:?} x (perspective_fov only) (width, height) multiplied by 2^e, e in {:?} x 12 constructors x 2 layouts.  (a) corners implied by t = tan(fov/2) (oracle, libm, f64, from the rounded fov): |ndc - want| <= 256 eps_{} (sum|terms|/|w| + 1), w > 0 (infinite constructors: near rectangle scaled to 1, 2, 5, 100 times near, depth (1-eps) - (2-eps)*near/d); (b) bit for bit: matrix(scaled args) == matrix(args) except entry (2,3), which is multiplied by 2^e(near,far) (exact while nothing overflows or goes subnormal; the constructors' own intermediates, at most 2*far*near and h*height, stay in range on this alphabet); (c) perspective_* / perspective_fov_* against the real frustum_* of the implied planes (top = near*t, right = top*aspect, computed in f64, rounded to {}): entrywise |difference| <= 256 eps_{} |entry|, zero entries exactly zero; (d) left-handed == right-handed with column 2 negated, (e) the two layouts, bit for bit.  one evaluation per corner / per matrix identity; non-trivial: all", ty, al.fovs.len() - 4 - if th { 8 } else { 4 } - 1, al.fovs.len() - 4 - if th { 8 } else { 4 }, if th { 8 } else { 4 }, ty, ty, al.e_nf, al.e_wh, ty, ty, ty);
    { let al = mk_fov_alpha(false); rep.section("perspective family, f64 tier at magnitudes 2^-500 .. 2^500 (sizes 2^-1000 .. 2^1000), fov up to 2 pi, matrix equalities", &fov_rule("f64", &al), true, false, |s| fov_float_tier::<f64>(s, &al)); }
    { let al = mk_fov_alpha(true); rep.section("perspective family, f32 tier at magnitudes 2^-55 .. 2^55 (sizes 2^-100 .. 2^100), fov up to 2 pi, matrix equalities", &fov_rule("f32", &al), true, false, |s| fov_float_tier::<f32>(s, &al)); }

    // ---------------------------------------------------------------------------------------------
    // second audit: the special values of every argument, at both float types (see out/AUDIT2.md)
    let mk_plane_special = |f32_: bool| -> PlaneFloatAlphabet {
        // H: a coordinate far from the origin whose square no longer fits the significand together with the +1 / +3 next to it
        let h = if f32_ { 8192.0 } else { 1073741824.0 };
        let (tiny, huge) = if f32_ { (1.0 / 1024.0, 1024.0) } else { (1.0 / 1048576.0, 1048576.0) };
        let a = if f32_ { 40 } else { 400 };
        let mut pp = PlanePairs {
            xy: vec![(0.0, 1.0), (-2.0, 0.0), (0.0, -1.5), (-1.5, 1.5), (h, h + 1.0), (h + 3.0, h), (-h - 1.0, -h), (-1.0, h), (-h, 0.5)],
            ortho_nf: vec![(-2.0, 2.0), (0.0, 1.0), (-1.0, 0.0), (h, h + 1.0), (h + 1.0, h), (-h - 3.0, -h), (tiny, huge)],
            frustum_nf: vec![(1.0, 2.0), (h, h + 1.0), (h + 3.0, h), (tiny, huge)],
        };
        if th {
            // thorough: the same one step further out (2^20 for f32, 2^45 for f64: sums and near*far still exact), and a plane at zero next to a huge one
            let h2 = if f32_ { 1048576.0 } else { 35184372088832.0 };
            pp.xy.extend_from_slice(&[(h2, h2 + 1.0), (-h2 - 3.0, -h2), (h2 + 1.0, h2), (0.0, h2), (0.75, 1.0)]);
            pp.ortho_nf.extend_from_slice(&[(h2, h2 + 1.0), (-h2, h2), (0.0, h2)]);
            pp.frustum_nf.extend_from_slice(&[(h2, h2 + 1.0), (h2 + 3.0, h2), (1.0, huge)]);
        }
        PlaneFloatAlphabet { xy: vec![], ortho_nf: vec![], frustum_nf: vec![], max_frustum_ratio: if f32_ { 110 } else { 1000 },
            scales: vec![(0, 0), (a, a), (-a, -a), (a, -a), (-a, a)], pairs: Some(pp) }
    };
    let plane_special_rule = |ty: &str, al: &PlaneFloatAlphabet| { let p = al.pairs.as_ref().unwrap(); format!("element type {}: (left,right) and (bottom,top) each from the pairs {:?} (a plane at 0; planes symmetric about 0; two planes 1 or 3 apart at H = {} (thorough: also at 2^20 (f32) / 2^45 (f64)) where H^2 and (H+1)^2 are no longer both representable, so that a rewrite through squares, through the quotient right/left or with an absolute or relative closeness guard shows; planes of very different magnitude; inverted pairs) x (near,far) from {:?} for orthographic_* and {:?} for frustum_* (near = -far, near or far = 0, near and far 1 or 3 apart at H, far/near = 2^20 (f32) / 2^40 (f64), far<near) x (e_xy, e_depth) in {:?} (every sum and difference of two planes is exact in {}, and near*far*2, the constructors' own largest intermediate, stays in range) x 9 constructors x 2 layouts.  Same four checks as the tier above: (a) 8 corners, |ndc - want| <= 256 eps_{} (sum|terms|/|w| + 1), w > 0 in front of the viewer; (b) exact power-of-two scaling law; (c) left-handed == right-handed with column 2 negated; (d) layouts equal, bit for bit.  one evaluation per corner / per matrix identity; non-trivial: volume not centred on the axis", ty, p.xy, if ty == "f32" { "2^13" } else { "2^30" }, p.ortho_nf, p.frustum_nf, al.scales, ty, ty) };
    { let al = mk_plane_special(false); rep.section("orthographic+frustum, f64 tier: special plane values (zero, symmetric, adjacent planes far from the origin, far/near next to 1 and 2^40)", &plane_special_rule("f64", &al), true, false, |s| plane_float_tier::<f64>(s, &al)); }
    { let al = mk_plane_special(true); rep.section("orthographic+frustum, f32 tier: special plane values (zero, symmetric, adjacent planes far from the origin, far/near next to 1 and 2^20)", &plane_special_rule("f32", &al), true, false, |s| plane_float_tier::<f32>(s, &al)); }

    let mk_fov_special = |f32_: bool| -> FovFloatAlphabet {
        let nb = |v: f64, up: bool| -> f64 { if f32_ { let b = (v as f32).to_bits(); f32::from_bits(if up { b + 1 } else { b - 1 }) as f64 } else { let b = v.to_bits(); f64::from_bits(if up { b + 1 } else { b - 1 }) } };
        let (pi, hp) = if f32_ { (std::f32::consts::PI as f64, std::f32::consts::FRAC_PI_2 as f64) } else { (std::f64::consts::PI, std::f64::consts::FRAC_PI_2) };
        let p2 = |e: i32| 2.0f64.powi(e);
        // steps towards pi and 2 pi (all exactly representable next to pi_T: the ulp of pi_f32 is 2^-22, of pi_f64 2^-51)
        let (s1, s2, s3) = if f32_ { (p2(-8), p2(-14), p2(-18)) } else { (p2(-10), p2(-20), p2(-30)) };
        let fovs = vec![
            if f32_ { p2(-30) } else { p2(-60) }, if f32_ { p2(-14) } else { p2(-30) },          // tan(fov/2) below eps_T; tan^2 below eps_T
            nb(hp, false), hp, nb(hp, true),                                                      // tan(fov/2) next to 1
            pi - s1, pi - s2, pi - s3, nb(pi, false), pi, nb(pi, true), pi + s3, pi + s2, pi + s1, // the pole of tan(fov/2): |tan| up to 2^53 (f64) / 2^24 (f32)
            2.0 * pi - s1, 2.0 * pi - s2, nb(2.0 * pi, false),                                     // the upper bound of the precondition
            1.0,
        ];
        let mut fovs = fovs;
        if th {
            let steps: &[i32] = if f32_ { &[-5, -11, -16, -20] } else { &[-5, -15, -25, -35, -40] };
            for &e in steps { fovs.extend_from_slice(&[pi - p2(e), pi + p2(e), 2.0 * pi - p2(e), hp - p2(e), hp + p2(e)]); }
            let tiny: &[i32] = if f32_ { &[-8, -11, -12, -20, -25] } else { &[-10, -20, -26, -27, -40, -50] };
            for &e in tiny { fovs.push(p2(e)); }
        }
        let (k1, k2) = if f32_ { (20, 30) } else { (40, 60) };
        FovFloatAlphabet { fovs, e_nf: vec![0], e_wh: vec![0], special: true,
            aspects: vec![p2(-k2), 1.0 - p2(-k1), 1.0, 1.0 + p2(-k1), 16.0 / 9.0, p2(k2)],
            nfs: if f32_ { vec![(1.0, 2.0), (1.0, 1.0 + p2(-10)), (3.0, 3.0 + p2(-11)), (p2(-10), p2(10)), (0.1, 100.0)] } else { vec![(1.0, 2.0), (1.0, 1.0 + p2(-30)), (3.0, 3.0 + p2(-38)), (p2(-20), p2(20)), (0.1, 100.0)] },
            epsilons: vec![0.0, 1.0 / 1024.0, p2(-60)] }
    };
    let fov_special_rule = |ty: &str, al: &FovFloatAlphabet| format!("element type {}, unscaled arguments only: fov in {:?} (rounded to {}: tan(fov/2) below eps_T and tan^2 below eps_T; the three floats around pi/2; steps of 2^-8,-14,-18 (f32) / 2^-10,-20,-30 (f64) and of one ulp on both sides of pi_T and pi_T itself (tan(fov/2) is huge but finite, every entry and every corner stays representable); the last floats below 2 pi_T, which the preconditions allow; 1; thorough: further steps towards pi/2, pi and 2 pi and further tiny fields of view, all in the list) x aspect (perspective_fov: width and height, aspect = width/height) in {:?} x (near, far) in {:?} (far/near down to 1 + 2^-39.6 (f64) / 1 + 2^-12.6 (f32) and up to 2^40 / 2^20) x epsilon in {:?} x 12 constructors x 2 layouts.  Checks (a) corners with |ndc - want| <= 256 eps_{} (sum|terms|/|w| + 1) and w > 0, (c) == frustum_* of the implied planes entrywise within 256 eps_{} relative, (d) lh == rh with column 2 negated and (e) layouts equal bit for bit, exactly as in the tier above.  one evaluation per corner / per matrix identity; non-trivial: all", ty, al.fovs, ty, al.aspects, al.nfs, al.epsilons, ty, ty);
    { let al = mk_fov_special(false); rep.section("perspective family, f64 tier: special values of fov (0+, pi/2, pi, 2 pi-), aspect (1+-, 2^+-60) and far/near (1+, 2^40)", &fov_special_rule("f64", &al), true, false, |s| fov_float_tier::<f64>(s, &al)); }
    { let al = mk_fov_special(true); rep.section("perspective family, f32 tier: special values of fov (0+, pi/2, pi, 2 pi-), aspect (1+-, 2^+-30) and far/near (1+, 2^20)", &fov_special_rule("f32", &al), true, false, |s| fov_float_tier::<f32>(s, &al)); }

    std::process::exit(rep.finish());
}
