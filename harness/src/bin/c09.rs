//! C09 — look-at view/model matrices and change-of-basis matrices.
//!
//! Look-at: vek's generic code is run on `Sd`, an exact element of the real field Q(sqrt 2, sqrt 3, sqrt 5, ...)
//! (finite sums  c_r * sqrt(r),  r squarefree, c_r rational; helper type of this binary).  The two square roots a
//! look-at takes are therefore exact for EVERY integer triple, not only for the Pythagorean ones, and the
//! property is compared with `==` in that field.  Matrices are built and decoded through public fields.
//! Change of basis: polynomial identities on simplex lattices (complete) plus a finite family of rational rotations.
#![allow(deprecated)]
use num_traits::{Num, NumCast, One, ToPrimitive, Zero};
use rayon::prelude::*;
use std::cmp::Ordering;
use std::fmt;
use std::ops::*;
use std::sync::atomic::{AtomicU64, Ordering::Relaxed};
use vek::num_traits::real::Real;
use vek::ops::MulAdd;
use vx::fr::Deg;
use vx::lattice::*;
use vx::matx::*;
use vek::vec::repr_c::{Extent3, Rgb, Uvw};
use vx::q::unmodelled;
use vx::*;

// =================================================================================================
// Sd: exact sums of rational multiples of square roots of squarefree integers
// =================================================================================================
const MAXT: usize = 4;
#[derive(Clone, Copy, PartialEq, Eq)]
struct Sd { n: u8, t: [(u64, Q); MAXT] } // canonical: radicands ascending, squarefree, coefficients non-zero, unused slots (0, 0)

struct Buf { len: usize, t: [(u64, Q); 16] }
impl Buf {
    fn new() -> Buf { Buf { len: 0, t: [(0, Q::ZERO); 16] } }
    fn acc(&mut self, r: u64, c: Q) {
        for k in 0..self.len { if self.t[k].0 == r { self.t[k].1 = self.t[k].1.add(c); return; } }
        if self.len == 16 { unmodelled("surd buffer overflow") }
        self.t[self.len] = (r, c); self.len += 1;
    }
    fn fin(self) -> Sd {
        let mut out = Sd::ZERO; let mut n = 0usize;
        for k in 0..self.len {
            let (r, c) = self.t[k];
            if c.n == 0 { continue; }
            if n == MAXT { unmodelled("more than 4 independent radicals") }
            let mut p = n;
            while p > 0 && out.t[p - 1].0 > r { out.t[p] = out.t[p - 1]; p -= 1; }
            out.t[p] = (r, c); n += 1;
        }
        out.n = n as u8; out
    }
}
fn gcd64(mut a: u64, mut b: u64) -> u64 { while b != 0 { let t = a % b; a = b; b = t; } a }
/// m = k^2 * s with s squarefree (m >= 1)
fn square_part(m: u128) -> (u128, u128) {
    if m < (1u128 << 62) { // same loop on machine words
        let (mut m, mut k, mut s, mut p) = (m as u64, 1u64, 1u64, 2u64);
        while p * p <= m {
            let mut e = 0u32;
            while m % p == 0 { m /= p; e += 1; }
            for _ in 0..e / 2 { k *= p; }
            if e % 2 == 1 { s *= p; }
            p += if p == 2 { 1 } else { 2 };
        }
        return (k as u128, (s * m) as u128);
    }
    let (mut m, mut k, mut s, mut p) = (m, 1u128, 1u128, 2u128);
    while p * p <= m {
        let mut e = 0u32;
        while m % p == 0 { m /= p; e += 1; }
        for _ in 0..e / 2 { k *= p; }
        if e % 2 == 1 { s *= p; }
        p += if p == 2 { 1 } else { 2 };
    }
    (k, s * m)
}
impl Sd {
    const ZERO: Sd = Sd { n: 0, t: [(0, Q::ZERO); MAXT] };
    fn rat(q: Q) -> Sd { if q.n == 0 { return Sd::ZERO; } let mut s = Sd::ZERO; s.n = 1; s.t[0] = (1, q); s }
    fn int(v: i128) -> Sd { Sd::rat(Q::int(v)) }
    fn terms(&self) -> &[(u64, Q)] { &self.t[..self.n as usize] }
    fn as_q(&self) -> Option<Q> { match self.n { 0 => Some(Q::ZERO), 1 if self.t[0].0 == 1 => Some(self.t[0].1), _ => None } }
    fn shadow(&self) -> f64 { self.terms().iter().map(|(r, c)| c.to_f64() * (*r as f64).sqrt()).sum() }
    /// exact square root of a non-negative rational: sqrt(n/d) = sqrt(n d)/d = (k/d) sqrt(s)
    fn sqrt_q(q: Q) -> Sd {
        if q.n < 0 { unmodelled("sqrt of a negative") }
        if q.n == 0 { return Sd::ZERO; }
        let m = match q.n.checked_mul(q.d) { Some(m) if m < (1i128 << 100) => m as u128, _ => unmodelled("sqrt radicand too large") };
        let (k, s) = square_part(m);
        if s > u64::MAX as u128 { unmodelled("sqrt radicand too large") }
        let mut o = Sd::ZERO; o.n = 1; o.t[0] = (s as u64, Q::new(k as i128, q.d)); o
    }
    /// exact sign; decided for up to two terms (all the property needs), otherwise Unmodelled
    fn sign(&self) -> i32 {
        match self.n {
            0 => 0,
            1 => self.t[0].1.n.signum() as i32,
            2 => {
                let ((r, p), (t, q)) = (self.t[0], self.t[1]);
                let (sp, sq) = (p.n.signum(), q.n.signum());
                if sp == sq { return sp as i32; }
                // p sqrt r + q sqrt t with opposite signs: compare p^2 r with q^2 t (never equal: r != t squarefree)
                let a = p.mul(p).mul(Q::int(r as i128)); let b = q.mul(q).mul(Q::int(t as i128));
                let big_first = a.cmp(b) == Ordering::Greater;
                if big_first { sp as i32 } else { sq as i32 }
            }
            _ => unmodelled("sign of a sum of more than two surds"),
        }
    }
}
impl fmt::Debug for Sd {
    fn fmt(&self, f: &mut fmt::Formatter) -> fmt::Result {
        if self.n == 0 { return write!(f, "0"); }
        for (i, (r, c)) in self.terms().iter().enumerate() {
            if i > 0 { write!(f, " + ")?; }
            if *r == 1 { write!(f, "{:?}", c)?; } else { write!(f, "{:?}*sqrt({})", c, r)?; }
        }
        Ok(())
    }
}
impl Add for Sd { type Output = Sd; fn add(self, o: Sd) -> Sd {
    if o.n == 0 { return self; } if self.n == 0 { return o; }
    let mut b = Buf::new();
    for &(r, c) in self.terms() { b.acc(r, c); } for &(r, c) in o.terms() { b.acc(r, c); }
    b.fin()
} }
impl Neg for Sd { type Output = Sd; fn neg(self) -> Sd { let mut o = self; for k in 0..o.n as usize { o.t[k].1 = o.t[k].1.neg(); } o } }
impl Sub for Sd { type Output = Sd; fn sub(self, o: Sd) -> Sd { self + (-o) } }
impl Mul for Sd { type Output = Sd; fn mul(self, o: Sd) -> Sd {
    if self.n == 0 || o.n == 0 { return Sd::ZERO; }
    let mut b = Buf::new();
    for &(r1, c1) in self.terms() { for &(r2, c2) in o.terms() {
        let c = c1.mul(c2);
        if r1 == 1 { b.acc(r2, c); } else if r2 == 1 { b.acc(r1, c); } else {
            let g = gcd64(r1, r2);
            let r = match (r1 / g).checked_mul(r2 / g) { Some(r) => r, None => unmodelled("radicand overflow") };
            b.acc(r, c.mul(Q::int(g as i128)));
        }
    } }
    b.fin()
} }
impl Div for Sd { type Output = Sd; fn div(self, o: Sd) -> Sd {
    match o.n {
        0 => unmodelled("division by zero"),
        1 => { let (r, c) = o.t[0]; let mut inv = Sd::ZERO; inv.n = 1; inv.t[0] = (r, c.mul(Q::int(r as i128)).recip()); self * inv }
        2 => { // 1/(p sqrt r + q sqrt t) = (p sqrt r - q sqrt t)/(p^2 r - q^2 t)
            let ((r, p), (t, q)) = (o.t[0], o.t[1]);
            let mut conj = o; conj.t[1].1 = q.neg();
            let den = p.mul(p).mul(Q::int(r as i128)).sub(q.mul(q).mul(Q::int(t as i128)));
            self * conj * Sd::rat(den.recip())
        }
        _ => unmodelled("division by a sum of more than two surds"),
    }
} }
impl Rem for Sd { type Output = Sd; fn rem(self, _: Sd) -> Sd { unmodelled("Sd %") } }
impl AddAssign for Sd { fn add_assign(&mut self, o: Sd) { *self = *self + o; } }
impl SubAssign for Sd { fn sub_assign(&mut self, o: Sd) { *self = *self - o; } }
impl MulAssign for Sd { fn mul_assign(&mut self, o: Sd) { *self = *self * o; } }
impl DivAssign for Sd { fn div_assign(&mut self, o: Sd) { *self = *self / o; } }
impl RemAssign for Sd { fn rem_assign(&mut self, o: Sd) { *self = *self % o; } }
impl PartialOrd for Sd { fn partial_cmp(&self, o: &Sd) -> Option<Ordering> { Some((*self - *o).sign().cmp(&0)) } }
impl Zero for Sd { fn zero() -> Sd { Sd::ZERO } fn is_zero(&self) -> bool { self.n == 0 } }
impl One for Sd { fn one() -> Sd { Sd::int(1) } }
impl Num for Sd { type FromStrRadixErr = (); fn from_str_radix(_: &str, _: u32) -> Result<Sd, ()> { Err(()) } }
impl ToPrimitive for Sd {
    fn to_i64(&self) -> Option<i64> { unmodelled("cast of a surd") }
    fn to_u64(&self) -> Option<u64> { unmodelled("cast of a surd") }
    fn to_f64(&self) -> Option<f64> { Some(self.shadow()) }
}
// audit round 3: a non-integer literal (a threshold such as 1e-6 cast with `T::from`) is taken at the exact value of the f64 instead of
// blinding the exact tier (every call of a guarded builder used to count as "unmodelled", which is never a verdict)
impl NumCast for Sd { fn from<T: ToPrimitive>(n: T) -> Option<Sd> { match n.to_f64() { Some(f) if f == f.trunc() && f.abs() < 1e15 => Some(Sd::int(f as i128)), Some(f) => match Q::from_f64(f) { Some(q) => Some(Sd::rat(q)), None => unmodelled("numcast of a non-integer to a surd") }, _ => unmodelled("numcast of a non-integer to a surd") } } }
impl MulAdd<Sd, Sd> for Sd { type Output = Sd; fn mul_add(self, a: Sd, b: Sd) -> Sd { self * a + b } }
impl Real for Sd {
    fn min_value() -> Sd { unmodelled("min_value") }
    fn min_positive_value() -> Sd { unmodelled("min_positive_value") }
    // audit round 3: 2^-52 as on the harness' X type (was Unmodelled: code that compares a length with an epsilon made the whole exact
    // tier silently vacuous); the exact sections hold inputs on both sides of it (scale pairs 2^+-40 of the rescaled section)
    fn epsilon() -> Sd { Sd::rat(Q::new(1, 1i128 << 52)) }
    fn max_value() -> Sd { unmodelled("max_value") }
    fn floor(self) -> Sd { unmodelled("floor") }
    fn ceil(self) -> Sd { unmodelled("ceil") }
    fn round(self) -> Sd { unmodelled("round") }
    fn trunc(self) -> Sd { unmodelled("trunc") }
    fn fract(self) -> Sd { unmodelled("fract") }
    fn abs(self) -> Sd { if self.sign() < 0 { -self } else { self } }
    fn signum(self) -> Sd { Sd::int(if self.sign() < 0 { -1 } else { 1 }) }
    fn is_sign_positive(self) -> bool { self.sign() >= 0 }
    fn is_sign_negative(self) -> bool { self.sign() < 0 }
    fn mul_add(self, a: Sd, b: Sd) -> Sd { self * a + b }
    fn recip(self) -> Sd { Sd::int(1) / self }
    fn powi(self, n: i32) -> Sd { let mut r = Sd::int(1); for _ in 0..n.unsigned_abs() { r = r * self; } if n < 0 { Sd::int(1) / r } else { r } }
    fn powf(self, _: Sd) -> Sd { unmodelled("powf") }
    fn sqrt(self) -> Sd { match self.as_q() { Some(q) => Sd::sqrt_q(q), None => unmodelled("sqrt of an irrational") } }
    fn exp(self) -> Sd { unmodelled("exp") }
    fn exp2(self) -> Sd { unmodelled("exp2") }
    fn ln(self) -> Sd { unmodelled("ln") }
    fn log(self, _: Sd) -> Sd { unmodelled("log") }
    fn log2(self) -> Sd { unmodelled("log2") }
    fn log10(self) -> Sd { unmodelled("log10") }
    fn to_degrees(self) -> Sd { unmodelled("to_degrees") }
    fn to_radians(self) -> Sd { unmodelled("to_radians") }
    fn max(self, o: Sd) -> Sd { if self >= o { self } else { o } }
    fn min(self, o: Sd) -> Sd { if self <= o { self } else { o } }
    fn abs_sub(self, _: Sd) -> Sd { unmodelled("abs_sub") }
    fn cbrt(self) -> Sd { unmodelled("cbrt") }
    fn hypot(self, o: Sd) -> Sd { (self * self + o * o).sqrt() }
    fn sin(self) -> Sd { unmodelled("sin") }
    fn cos(self) -> Sd { unmodelled("cos") }
    fn tan(self) -> Sd { unmodelled("tan") }
    fn asin(self) -> Sd { unmodelled("asin") }
    fn acos(self) -> Sd { unmodelled("acos") }
    fn atan(self) -> Sd { unmodelled("atan") }
    fn atan2(self, _: Sd) -> Sd { unmodelled("atan2") }
    fn sin_cos(self) -> (Sd, Sd) { unmodelled("sin_cos") }
    fn exp_m1(self) -> Sd { unmodelled("exp_m1") }
    fn ln_1p(self) -> Sd { unmodelled("ln_1p") }
    fn sinh(self) -> Sd { unmodelled("sinh") }
    fn cosh(self) -> Sd { unmodelled("cosh") }
    fn tanh(self) -> Sd { unmodelled("tanh") }
    fn asinh(self) -> Sd { unmodelled("asinh") }
    fn acosh(self) -> Sd { unmodelled("acosh") }
    fn atanh(self) -> Sd { unmodelled("atanh") }
}

// =================================================================================================
// violation gate: a failing clause on a broken tree fires ~10^5 times; materialise (build the JSON of) the first 64 of each
// site|class and, after that, only witnesses at least as small as every one seen so far (so all minimal witnesses are always kept). The verdict and the smallest
// witness are unaffected; the number of further occurrences is reported in the evidence.
// =================================================================================================
static GATE: std::sync::Mutex<Option<std::collections::HashMap<String, (u64, u64)>>> = std::sync::Mutex::new(None);
static NOT_MATERIALISED: AtomicU64 = AtomicU64::new(0);
fn emit(s: &Section, site: &str, class: &str, w: u64, detail: impl FnOnce() -> Value) {
    let go = {
        let mut g = GATE.lock().unwrap();
        let e = g.get_or_insert_with(Default::default).entry(format!("{}|{}", site, class)).or_insert((0, u64::MAX));
        e.0 += 1;
        let go = e.0 <= 64 || w <= e.1;
        if w < e.1 { e.1 = w; }
        go
    };
    if go { s.violation_w(site, class, detail(), w); } else { NOT_MATERIALISED.fetch_add(1, Relaxed); }
}

// =================================================================================================
// calling the six look-at builders, both layouts, any element type
// =================================================================================================
const FNS: [&str; 6] = ["look_at_lh", "look_at_rh", "model_look_at_lh", "model_look_at_rh", "look_at (deprecated)", "model_look_at (deprecated)"];
const LAYS: [&str; 2] = ["row", "col"];
fn site(lay: usize, f: usize) -> String { format!("Mat4<{}>::{}", LAYS[lay], FNS[f]) }

fn call6<T: Real + Add<T, Output = T> + MulAdd<T, T, Output = T>>(lay: usize, f: usize, e: &[T; 3], t: &[T; 3], u: &[T; 3]) -> A<T, 4> {
    let (e, t, u) = (v3(e), v3(t), v3(u));
    match (lay, f) {
        (0, 0) => dr4(&rm::Mat4::look_at_lh(e, t, u)),
        (0, 1) => dr4(&rm::Mat4::look_at_rh(e, t, u)),
        (0, 2) => dr4(&rm::Mat4::model_look_at_lh(e, t, u)),
        (0, 3) => dr4(&rm::Mat4::model_look_at_rh(e, t, u)),
        (0, 4) => dr4(&rm::Mat4::look_at(e, t, u)),
        (0, 5) => dr4(&rm::Mat4::model_look_at(e, t, u)),
        (1, 0) => dc4(&cm::Mat4::look_at_lh(e, t, u)),
        (1, 1) => dc4(&cm::Mat4::look_at_rh(e, t, u)),
        (1, 2) => dc4(&cm::Mat4::model_look_at_lh(e, t, u)),
        (1, 3) => dc4(&cm::Mat4::model_look_at_rh(e, t, u)),
        (1, 4) => dc4(&cm::Mat4::look_at(e, t, u)),
        (1, 5) => dc4(&cm::Mat4::model_look_at(e, t, u)),
        _ => unreachable!(),
    }
}

type P = [i32; 3];
fn cube(r: i32) -> Vec<P> { let mut v = Vec::new(); for x in -r..=r { for y in -r..=r { for z in -r..=r { v.push([x, y, z]); } } } v }
fn cross_i(a: &P, b: &P) -> P { [a[1] * b[2] - a[2] * b[1], a[2] * b[0] - a[0] * b[2], a[0] * b[1] - a[1] * b[0]] }
fn dot_i(a: &P, b: &P) -> i32 { a[0] * b[0] + a[1] * b[1] + a[2] * b[2] }
fn sub_i(a: &P, b: &P) -> P { [a[0] - b[0], a[1] - b[1], a[2] - b[2]] }
fn axis_aligned(a: &P) -> bool { a.iter().filter(|&&c| c != 0).count() == 1 }
fn sd3(p: &P) -> [Sd; 3] { [Sd::int(p[0] as i128), Sd::int(p[1] as i128), Sd::int(p[2] as i128)] }
fn x3(p: &P) -> [X; 3] { [qi(p[0] as i128), qi(p[1] as i128), qi(p[2] as i128)] }
fn jsd4(m: &A<Sd, 4>) -> Value { Value::Array(m.iter().map(|r| Value::Array(r.iter().map(|x| jd(x)).collect())).collect()) }
fn det3<T: Ring>(r: &A<T, 3>) -> T {
    r[0][0] * (r[1][1] * r[2][2] - r[1][2] * r[2][1]) - r[0][1] * (r[1][0] * r[2][2] - r[1][2] * r[2][0]) + r[0][2] * (r[1][0] * r[2][1] - r[1][1] * r[2][0])
}
fn lin3<T: Copy>(m: &A<T, 4>) -> A<T, 3> { [[m[0][0], m[0][1], m[0][2]], [m[1][0], m[1][1], m[1][2]], [m[2][0], m[2][1], m[2][2]]] }

/// (eye, target) work items and the up alphabet of the tier
const QUICK_EXTRA_UPS: [P; 6] = [[2, 1, 0], [1, 2, 2], [-2, 0, 1], [0, -1, 2], [2, -2, 1], [1, 0, -2]];
fn grid3(al: &[i32]) -> Vec<P> { let mut v = Vec::new(); for &x in al { for &y in al { for &z in al { v.push([x, y, z]); } } } v }
fn look_space(th: bool) -> (Vec<(P, P)>, Vec<P>) {
    let mut pairs: Vec<(P, P)> = Vec::new();
    let off = |pairs: &mut Vec<(P, P)>, eyes: Vec<P>, r: i32| for e in eyes { for o in cube(r) { if o != [0, 0, 0] { pairs.push((e, [e[0] + o[0], e[1] + o[1], e[2] + o[2]])); } } };
    if th {
        for e in cube(2) { for t in cube(2) { if e != t { pairs.push((e, t)); } } }   // the design's box ({-2..2}^3)^3
        off(&mut pairs, grid3(&[-5, 0, 3]), 3);                                      // far eyes, longer views
        pairs.sort(); pairs.dedup();
        (pairs, cube(2))
    } else {
        off(&mut pairs, grid3(&[-2, 0, 1]), 2);
        let mut ups = cube(1); ups.extend(QUICK_EXTRA_UPS);
        (pairs, ups)
    }
}
const SPACE_QUICK: &str = "eye in {-2,0,1}^3, target - eye in {-2..2}^3 \\ 0, up in {-1..1}^3 + {(2,1,0),(1,2,2),(-2,0,1),(0,-1,2),(2,-2,1),(1,0,-2)}";
const SPACE_THOROUGH: &str = "(eye, target, up) in ({-2..2}^3)^3 (the design's box) united with eye in {-5,0,3}^3, target - eye in {-3..3}^3 \\ 0, up in {-2..2}^3";

#[derive(Clone, Copy, PartialEq, Debug)]
enum Hand { Lh, Rh, Either }

/// The property text, literally, for a view matrix over the exact field. Pushes the names of the clauses that fail.
fn view_clauses(m: &A<Sd, 4>, e: &[Sd; 3], t: &[Sd; 3], u: &[Sd; 3], dist: Sd, hand: Hand, out: &mut Vec<&'static str>) {
    let (z, one) = (Sd::ZERO, Sd::int(1));
    if m[3] != [z, z, z, one] { out.push("last-row-not-0001"); }
    let r = lin3(m);
    if mmul(&r, &transpose(&r)) != ident::<Sd, 3>() { out.push("linear-part-not-orthonormal"); }
    if det3(&r) != one { out.push("determinant-not-plus-one"); }
    if mvec(m, &[e[0], e[1], e[2], one]) != [z, z, z, one] { out.push("eye-not-sent-to-origin"); }
    let pt = mvec(m, &[t[0], t[1], t[2], one]);
    let fwd = match hand { Hand::Lh => pt[2] == dist, Hand::Rh => pt[2] == -dist, Hand::Either => pt[2] == dist || pt[2] == -dist };
    if !(pt[0] == z && pt[1] == z && pt[3] == one && fwd) { out.push("target-not-on-forward-axis-at-distance"); }
    let pu = mvec(m, &[u[0], u[1], u[2], z]); // the up *direction*
    if !(pu[0] == z && pu[1].sign() > 0 && pu[3] == z) { out.push("up-not-in-upper-vertical-half-plane"); }
}
fn model_clauses(model: &A<Sd, 4>, view: &A<Sd, 4>, e: &[Sd; 3], out: &mut Vec<&'static str>) {
    let (z, one) = (Sd::ZERO, Sd::int(1));
    let id = ident::<Sd, 4>();
    if mmul(model, view) != id { out.push("model-times-view-not-identity"); }
    if mmul(view, model) != id { out.push("view-times-model-not-identity"); }
    if mvec(model, &[z, z, z, one]) != [e[0], e[1], e[2], one] { out.push("origin-not-sent-to-eye"); }
}

/// Independent reference (Gram-Schmidt, not two cross products): forward f = d/|d|, u = normalised rejection of up
/// from f, side s = u x f (left-handed rows s,u,f) or f x u (right-handed rows s,u,-f); translation -row.eye.
/// Returns (view, model, |d|, |rejection|).
fn ref_view(e: &P, t: &P, up: &P, lh: bool) -> (A<Sd, 4>, A<Sd, 4>, Sd, Sd) {
    let d = sub_i(t, e);
    let a = Q::int(dot_i(&d, &d) as i128);
    let rho1 = Sd::sqrt_q(a);
    let f: [Sd; 3] = [Sd::int(d[0] as i128) / rho1, Sd::int(d[1] as i128) / rho1, Sd::int(d[2] as i128) / rho1];
    let k = Q::int(dot_i(up, &d) as i128).div(a);
    let w: [Q; 3] = [Q::int(up[0] as i128).sub(k.mul(Q::int(d[0] as i128))), Q::int(up[1] as i128).sub(k.mul(Q::int(d[1] as i128))), Q::int(up[2] as i128).sub(k.mul(Q::int(d[2] as i128)))];
    let b = w[0].mul(w[0]).add(w[1].mul(w[1])).add(w[2].mul(w[2]));
    let rho2 = Sd::sqrt_q(b);
    let u: [Sd; 3] = [Sd::rat(w[0]) / rho2, Sd::rat(w[1]) / rho2, Sd::rat(w[2]) / rho2];
    let (s, fz) = if lh { (cross3(&u, &f), f) } else { (cross3(&f, &u), [-f[0], -f[1], -f[2]]) };
    let es = sd3(e);
    let (z, one) = (Sd::ZERO, Sd::int(1));
    let view = [[s[0], s[1], s[2], -dotn(&s, &es)], [u[0], u[1], u[2], -dotn(&u, &es)], [fz[0], fz[1], fz[2], -dotn(&fz, &es)], [z, z, z, one]];
    let model = [[s[0], u[0], fz[0], es[0]], [s[1], u[1], fz[1], es[1]], [s[2], u[2], fz[2], es[2]], [z, z, z, one]];
    (view, model, rho1, rho2)
}

#[derive(Default)]
struct Cnt { triples: u64, nontrivial: u64, c: std::collections::BTreeMap<&'static str, u64> }
impl Cnt { fn hit(&mut self, k: &'static str) { *self.c.entry(k).or_insert(0) += 1; } fn flush(self, s: &Section, per: u64) { s.evals(self.triples * per, self.nontrivial * per); for (k, n) in self.c { s.class_n(k, n); } } }

fn weight(e: &P, t: &P, u: &P) -> u64 { e.iter().chain(t.iter()).chain(u.iter()).map(|c| c.unsigned_abs() as u64).sum() }
fn trivial(e: &P, d: &P, u: &P) -> bool { *e == [0, 0, 0] && axis_aligned(d) && axis_aligned(u) }

fn look_exact(s: &Section) {
    s.require_classes(&["radicands: both perfect squares (rational matrix)", "radicands: one surd", "radicands: two independent surds",
        "up perpendicular to view", "up oblique to view", "up not unit length", "eye at origin", "eye off origin", "view axis-aligned", "view not axis-aligned",
        "rational triple re-run on X", "deprecated view: handedness identified"]);
    let (pairs, ups) = look_space(s.thorough());
    let x_checked = AtomicU64::new(0);
    pairs.par_iter().for_each(|(e, t)| {
        let mut cnt = Cnt::default();
        let d = sub_i(t, e);
        for up in &ups {
            let cr = cross_i(up, &d);
            if cr == [0, 0, 0] { cnt.hit("excluded: up parallel to view (or zero)"); continue; }
            cnt.triples += 1;
            if !trivial(e, &d, up) { cnt.nontrivial += 1; }
            let (es, ts, us) = (sd3(e), sd3(t), sd3(up));
            let inp = || json!({"eye": e, "target": t, "up": up});
            let w = weight(e, t, up);
            let (rv_lh, rm_lh, rho1, rho2) = ref_view(e, t, up, true);
            let (rv_rh, rm_rh, _, _) = ref_view(e, t, up, false);
            // classes
            let (r1, r2) = (rho1.t[0].0, rho2.t[0].0);
            cnt.hit(if r1 == 1 && r2 == 1 { "radicands: both perfect squares (rational matrix)" } else if r1 == 1 || r2 == 1 || r1 == r2 { "radicands: one surd" } else { "radicands: two independent surds" });
            cnt.hit(if dot_i(up, &d) == 0 { "up perpendicular to view" } else { "up oblique to view" });
            if dot_i(up, up) != 1 { cnt.hit("up not unit length"); }
            cnt.hit(if *e == [0, 0, 0] { "eye at origin" } else { "eye off origin" });
            cnt.hit(if axis_aligned(&d) { "view axis-aligned" } else { "view not axis-aligned" });

            let mut res: [[Option<A<Sd, 4>>; 6]; 2] = [[None; 6]; 2];
            for lay in 0..2 { for f in 0..6 { res[lay][f] = s.call(&site(lay, f), inp, || call6::<Sd>(lay, f, &es, &ts, &us)); } }
            for lay in 0..2 {
                for f in 0..6 {
                    let Some(m) = res[lay][f] else { continue };
                    // the column-major twin: identical decoded matrix => identical verdict (the clauses only read the decoded array)
                    if lay == 1 { if let Some(r) = res[0][f] { if r == m { continue; }
                        emit(s, &format!("Mat4::{} row vs col", FNS[f]), "layouts-differ", w, || json!({"input": inp(), "row": jsd4(&r), "col": jsd4(&m)})); } }
                    let mut fails: Vec<&'static str> = Vec::new();
                    let hand = [Hand::Lh, Hand::Rh, Hand::Lh, Hand::Rh, Hand::Either, Hand::Either][f];
                    let verdict = catch(|| {
                        if f == 0 || f == 1 || f == 4 { view_clauses(&m, &es, &ts, &us, rho1, hand, &mut fails); }
                        else { let vf = [0, 1, 0, 1, 4, 4][f]; if let Some(v) = res[lay][vf] { model_clauses(&m, &v, &es, &mut fails); } }
                    });
                    match verdict {
                        Err(Caught::Unmodelled(why)) => { s.unmodelled(why); continue; }
                        Err(Caught::Panic(p)) => { s.rep.machinery_error(format!("oracle panicked: {}", p)); continue; }
                        Ok(()) => {}
                    }
                    for cl in &fails { emit(s, &site(lay, f), cl, w, || json!({"input": inp(), "got": jsd4(&m), "eye_target_distance": jd(&rho1)})); }
                    // uniqueness self-check of the oracle: a matrix satisfying every clause IS the reference matrix
                    if fails.is_empty() {
                        let unique = match f {
                            0 => m == rv_lh, 1 => m == rv_rh,
                            4 => { if m == rv_lh { cnt.hit("deprecated view: handedness identified"); cnt.hit("deprecated view is left-handed"); true } else if m == rv_rh { cnt.hit("deprecated view: handedness identified"); cnt.hit("deprecated view is right-handed"); true } else { false } }
                            // a model accepted against an (accepted, hence reference) view is the reference model
                            2 => res[lay][0] != Some(rv_lh) || m == rm_lh, 3 => res[lay][1] != Some(rv_rh) || m == rm_rh,
                            _ => !(res[lay][4] == Some(rv_lh) || res[lay][4] == Some(rv_rh)) || m == rm_lh || m == rm_rh };
                        if !unique { s.rep.machinery_error(format!("oracle accepted a matrix different from the Gram-Schmidt reference: {} on {}", site(lay, f), inp())); }
                    }
                }
            }
            // the design's X tier: where both radicands are perfect squares the harness' own rational type can run the code too
            if r1 == 1 && r2 == 1 {
                cnt.hit("rational triple re-run on X");
                let (ex, tx, ux) = (x3(e), x3(t), x3(up));
                for lay in 0..2 { for f in 0..6 {
                    if let (Some(g), Some(m)) = (s.call(&format!("{}<X>", site(lay, f)), inp, || call6::<X>(lay, f, &ex, &tx, &ux)), res[lay][f]) {
                        x_checked.fetch_add(1, Relaxed);
                        let same = (0..4).all(|i| (0..4).all(|j| m[i][j].as_q() == Some(g[i][j].rat())));
                        if !same { s.rep.machinery_error(format!("X and Sd runs of {} disagree on {}", site(lay, f), inp())); }
                    }
                } }
            }
            if w >= 9 && r1 != 1 && r2 != 1 && r1 != r2 && s.wants_sample() {
                if let Some(m) = res[0][1] { s.sample(json!({"eye": e, "target": t, "up": up, "look_at_rh (row-major, exact)": jsd4(&m), "|target-eye|": jd(&rho1), "|up rejected from view|": jd(&rho2)})); }
            }
        }
        cnt.flush(s, 12);
    });
    s.meta("alphabet", json!({"space": if s.thorough() { SPACE_THOROUGH } else { SPACE_QUICK }, "eye_target_pairs": pairs.len(), "up_alphabet": ups.len()}));
    s.meta("calls_per_triple", json!({"functions": FNS, "layouts": LAYS, "full_clause_evaluation": "row-major always; column-major whenever its decoded matrix differs from the row-major one"}));
    s.meta("x_tier_matrices_compared", json!(x_checked.load(Relaxed)));
}

// ---- float tier ------------------------------------------------------------------------------------
trait Fl: Real + Add<Self, Output = Self> + MulAdd<Self, Self, Output = Self> + Send + Sync + 'static { const NAME: &'static str; fn f(v: f64) -> Self; fn close(self, want: f64, scale: f64) -> bool; fn d(self) -> f64; }
impl Fl for f64 { const NAME: &'static str = "f64"; fn f(v: f64) -> f64 { v } fn close(self, want: f64, scale: f64) -> bool { vx::fl::close64(self, want, scale) } fn d(self) -> f64 { self } }
impl Fl for f32 { const NAME: &'static str = "f32"; fn f(v: f64) -> f32 { v as f32 } fn close(self, want: f64, scale: f64) -> bool { vx::fl::close32(self, want, scale) } fn d(self) -> f64 { self as f64 } }
fn shadow4(m: &A<Sd, 4>) -> A<f64, 4> { let mut o = [[0.0; 4]; 4]; for i in 0..4 { for j in 0..4 { o[i][j] = m[i][j].shadow(); } } o }

fn look_float<T: Fl>(s: &Section) {
    s.require_classes(&["kappa <= 1.5", "kappa > 1.5", "eye off origin", "up oblique to view"]);
    let (pairs, ups) = look_space(s.thorough());
    let worst = std::sync::Mutex::new(0.0f64);
    pairs.par_iter().for_each(|(e, t)| {
        let mut cnt = Cnt::default();
        let d = sub_i(t, e);
        let mut wl = 0.0f64;
        for up in &ups {
            let cr = cross_i(up, &d);
            if cr == [0, 0, 0] { continue; }
            cnt.triples += 1;
            if !trivial(e, &d, up) { cnt.nontrivial += 1; }
            let (rv_lh, rm_lh, _, _) = ref_view(e, t, up, true);
            let (rv_rh, rm_rh, _, _) = ref_view(e, t, up, false);
            let refs = [shadow4(&rv_lh), shadow4(&rv_rh), shadow4(&rm_lh), shadow4(&rm_rh)];
            let kappa = ((dot_i(up, up) * dot_i(&d, &d)) as f64 / dot_i(&cr, &cr) as f64).sqrt();
            let scale = (1.0 + e.iter().map(|c| c.abs() as f64).sum::<f64>()) * kappa;
            cnt.hit(if kappa <= 1.5 { "kappa <= 1.5" } else { "kappa > 1.5" });
            if *e != [0, 0, 0] { cnt.hit("eye off origin"); }
            if dot_i(up, &d) != 0 { cnt.hit("up oblique to view"); }
            let cv = |p: &P| [T::f(p[0] as f64), T::f(p[1] as f64), T::f(p[2] as f64)];
            let (ef, tf, uf) = (cv(e), cv(t), cv(up));
            let inp = || json!({"eye": e, "target": t, "up": up});
            for lay in 0..2 { for f in 0..6 {
                let st = format!("{}<{}>", site(lay, f), T::NAME);
                let Some(g) = s.call(&st, inp, || call6::<T>(lay, f, &ef, &tf, &uf)) else { continue };
                let err = |want: &A<f64, 4>| { let mut ok = true; let mut wst = 0.0f64; for i in 0..4 { for j in 0..4 { if !g[i][j].close(want[i][j], scale) { ok = false; } let dd = (g[i][j].d() - want[i][j]).abs() / scale; if dd > wst || dd.is_nan() { wst = dd; } } } (ok, wst) };
                let cands: &[usize] = match f { 0 => &[0], 1 => &[1], 2 => &[2], 3 => &[3], 4 => &[0, 1], _ => &[2, 3] };
                let rs: Vec<(bool, f64)> = cands.iter().map(|&c| err(&refs[c])).collect();
                let best = rs.iter().cloned().fold((false, f64::INFINITY), |a, b| if b.0 && !a.0 { b } else if a.0 && !b.0 { a } else if b.1 < a.1 { b } else { a });
                if best.0 { if best.1 > wl { wl = best.1; } } else {
                    emit(s, &st, "wrong-entry", weight(e, t, up), || { let gd: Vec<Vec<f64>> = g.iter().map(|r| r.iter().map(|x| x.d()).collect()).collect();
                        json!({"input": inp(), "got": gd, "want (exact reference, rounded)": refs[cands[0]], "tolerance": vx::fl::K * scale, "tolerance_unit": format!("eps({})", T::NAME)}) });
                }
            } }
        }
        { let mut g = worst.lock().unwrap(); if wl > *g { *g = wl; } }
        cnt.flush(s, 12);
    });
    let eps = if T::NAME == "f64" { f64::EPSILON } else { f32::EPSILON as f64 };
    s.meta("worst_observed_error_in_eps_times_scale", json!(*worst.lock().unwrap() / eps));
    s.meta("allowed_eps_times_scale", json!(vx::fl::K));
    s.sample(json!({"eye": [1, -2, 0], "target": [2, 0, 1], "up": [0, 1, 1], "reference look_at_rh": jsd4(&ref_view(&[1, -2, 0], &[2, 0, 1], &[0, 1, 1], false).0)}));
}

// =================================================================================================
// change of basis
// =================================================================================================
fn l2b<T: Copy + Zero + One>(lay: usize, o: &[T; 3], i: &[T; 3], j: &[T; 3], k: &[T; 3]) -> A<T, 4> {
    if lay == 0 { dr4(&rm::Mat4::local_to_basis(v3(o), v3(i), v3(j), v3(k))) } else { dc4(&cm::Mat4::local_to_basis(v3(o), v3(i), v3(j), v3(k))) }
}
fn b2l<T: Real + Add<T, Output = T>>(lay: usize, o: &[T; 3], i: &[T; 3], j: &[T; 3], k: &[T; 3]) -> A<T, 4> {
    if lay == 0 { dr4(&rm::Mat4::basis_to_local(v3(o), v3(i), v3(j), v3(k))) } else { dc4(&cm::Mat4::basis_to_local(v3(o), v3(i), v3(j), v3(k))) }
}
fn bsite(lay: usize, f: &str) -> String { format!("Mat4<{}>::{}", LAYS[lay], f) }

/// measured entry degrees (local_to_basis, basis_to_local) on tropical degrees; any comparison/division degrades
fn basis_degrees(s: &Section) -> (u32, u32) {
    let v = [Deg::VAR; 3];
    let (mut dl, mut db) = (0u32, 0u32);
    for lay in 0..2 {
        for (which, r) in [(0, catch(|| l2b::<Deg>(lay, &v, &v, &v, &v))), (1, catch(|| b2l::<Deg>(lay, &v, &v, &v, &v)))] {
            s.eval(true);
            match r {
                Ok(m) => for row in m.iter() { for d in row.iter() {
                    if d.d != 0 { s.degrade("division present in a change-of-basis builder"); }
                    if which == 0 { dl = dl.max(d.n + d.d); } else { db = db.max(d.n + d.d); }
                } },
                Err(e) => { s.degrade(&format!("{} not branch-free ring arithmetic: {:?}", if which == 0 { "local_to_basis" } else { "basis_to_local" }, e)); if which == 0 { dl = 99; } else { db = 99; } }
            }
        }
    }
    (dl, db)
}

fn xs(a: &[i64]) -> [X; 3] { [qi(a[0] as i128), qi(a[1] as i128), qi(a[2] as i128)] }
fn add3(a: &[X; 3], b: &[X; 3]) -> [X; 3] { [a[0] + b[0], a[1] + b[1], a[2] + b[2]] }
fn pt(a: &[X; 3]) -> [X; 4] { [a[0], a[1], a[2], qi(1)] }

/// local_to_basis clauses for one input; returns failing clause names
fn l2b_clauses(m: &A<X, 4>, o: &[X; 3], i: &[X; 3], j: &[X; 3], k: &[X; 3], p: &[X; 3], out: &mut Vec<&'static str>) {
    let (z, one) = (qi(0), qi(1));
    if m[3] != [z, z, z, one] { out.push("last-row-not-0001"); }
    if mvec(m, &[z, z, z, one]) != pt(o) { out.push("origin-not-sent-to-origin-of-basis"); }
    if mvec(m, &[one, z, z, one]) != pt(&add3(o, i)) { out.push("unit-x-not-sent-to-origin-plus-i"); }
    if mvec(m, &[z, one, z, one]) != pt(&add3(o, j)) { out.push("unit-y-not-sent-to-origin-plus-j"); }
    if mvec(m, &[z, z, one, one]) != pt(&add3(o, k)) { out.push("unit-z-not-sent-to-origin-plus-k"); }
    let want = [o[0] + p[0] * i[0] + p[1] * j[0] + p[2] * k[0], o[1] + p[0] * i[1] + p[1] * j[1] + p[2] * k[1], o[2] + p[0] * i[2] + p[1] * j[2] + p[2] * k[2], one];
    if mvec(m, &pt(p)) != want { out.push("general-point-not-sent-to-origin-plus-combination"); }
}

/// both inverse products for one orthonormal basis
fn inverse_clauses(s: &Section, lay: usize, o: &[X; 3], i: &[X; 3], j: &[X; 3], k: &[X; 3], inp: &dyn Fn() -> Value, w: u64, check_l2b: bool) {
    let st_b = bsite(lay, "basis_to_local"); let st_l = bsite(lay, "local_to_basis");
    let l = s.call(&st_l, inp, || l2b::<X>(lay, o, i, j, k));
    let b = s.call(&st_b, inp, || b2l::<X>(lay, o, i, j, k));
    if let Some(l) = &l { if check_l2b {
        let mut f = Vec::new(); l2b_clauses(l, o, i, j, k, &[qi(2), qi(-3), qi(5)], &mut f);
        for cl in f { emit(s, &st_l, cl, w, || json!({"input": inp(), "got": jmat(l)})); }
    } }
    if let (Some(l), Some(b)) = (l, b) {
        let id = ident::<X, 4>();
        if b[3] != id[3] { emit(s, &st_b, "last-row-not-0001", w, || json!({"input": inp(), "basis_to_local": jmat(&b)})); }
        if mmul(&b, &l) != id { emit(s, &st_b, "basis_to_local-times-local_to_basis-not-identity", w, || json!({"input": inp(), "basis_to_local": jmat(&b), "local_to_basis": jmat(&l), "product": jmat(&mmul(&b, &l))})); }
        if mmul(&l, &b) != id { emit(s, &st_b, "local_to_basis-times-basis_to_local-not-identity", w, || json!({"input": inp(), "basis_to_local": jmat(&b), "local_to_basis": jmat(&l), "product": jmat(&mmul(&l, &b))})); }
    }
}

// =================================================================================================
// audit additions (round 2): rescaled / rational / far camera triples (exact), extreme magnitudes (floats),
// every operand form of `V: Into<Vec3<T>>`, float and integer element types of the change-of-basis builders
// =================================================================================================
fn qp2(k: i32) -> Q { if k >= 0 { Q::int(1i128 << k) } else { Q::new(1, 1i128 << (-k)) } }
fn p2(k: i32) -> f64 { f64::from_bits(((1023 + k as i64) as u64) << 52) } // exact 2^k, -1022 <= k <= 1023
fn sdq(p: &P, c: Q) -> [Sd; 3] { [Sd::rat(Q::int(p[0] as i128).mul(c)), Sd::rat(Q::int(p[1] as i128).mul(c)), Sd::rat(Q::int(p[2] as i128).mul(c))] }
fn scale_tr(m: &A<Sd, 4>, c: Q) -> A<Sd, 4> { let mut o = *m; let cs = Sd::rat(c); for i in 0..3 { o[i][3] = o[i][3] * cs; } o }

/// (position scale, up scale, class) of the exact rescaling section
fn exact_scales() -> Vec<(Q, Q, &'static str)> {
    vec![(Q::new(1, 2), Q::ONE, "positions scaled down (|d| < 1 possible)"), (Q::ONE, Q::new(1, 3), "up scaled down"),
         (Q::new(3, 7), Q::new(5, 2), "non-dyadic rational scales"), (Q::int(6), Q::new(1, 5), "positions scaled up, up down"),
         (qp2(40), qp2(-40), "extreme: positions 2^40, up 2^-40"), (qp2(-40), qp2(40), "extreme: positions 2^-40, up 2^40"),
         (qp2(-40), qp2(-40), "extreme: both 2^-40"), (qp2(20), qp2(20), "both 2^20")]
}
const FAR_EYES: [P; 4] = [[7, -11, 13], [-100, 3, 41], [12, 5, -9], [0, 0, 0]];
const FAR_OFFS: [P; 5] = [[3, -4, 12], [1, 2, 2], [-6, 2, 3], [5, -7, 1], [0, -9, 40]];
const FAR_UPS: [P; 5] = [[0, 1, 0], [3, 1, -2], [-1, 4, 8], [2, -3, 6], [0, 0, -1]];
fn small_triples(th: bool) -> Vec<(P, P, P)> {
    let mut v = Vec::new();
    if th {
        let (pairs, ups) = look_space(false);
        for (e, t) in pairs { for u in &ups { v.push((e, t, *u)); } }
    } else {
        let mut offs: Vec<P> = cube(1).into_iter().filter(|o| *o != [0, 0, 0]).collect(); offs.extend(QUICK_EXTRA_UPS);
        let mut ups = cube(1); ups.extend(QUICK_EXTRA_UPS);
        for e in [[-2, 1, 0], [0, 0, 0], [1, -2, 1]] { for o in &offs { for u in &ups { v.push((e, [e[0] + o[0], e[1] + o[1], e[2] + o[2]], *u)); } } }
    }
    v
}
fn far_triples() -> Vec<(P, P, P)> {
    let mut v = Vec::new();
    for e in FAR_EYES { for o in FAR_OFFS { for u in FAR_UPS { v.push((e, [e[0] + o[0], e[1] + o[1], e[2] + o[2]], u)); } } }
    v
}

/// one (triple, scales) case of the exact rescaling section: the literal clauses on the scaled inputs, then the uniqueness self-check
fn exact_case(s: &Section, e: &P, t: &P, up: &P, cp: Q, cu: Q) {
    let (es, ts, us) = (sdq(e, cp), sdq(t, cp), sdq(up, cu));
    let inp = || json!({"eye": e, "target": t, "up": up, "positions_times": jd(&cp), "up_times": jd(&cu)});
    let w = weight(e, t, up);
    let (rv_lh, rm_lh, rho1, _) = ref_view(e, t, up, true);
    let (rv_rh, rm_rh, _, _) = ref_view(e, t, up, false);
    let refs = [scale_tr(&rv_lh, cp), scale_tr(&rv_rh, cp), scale_tr(&rm_lh, cp), scale_tr(&rm_rh, cp)];
    let dist = rho1 * Sd::rat(cp);
    let mut res: [[Option<A<Sd, 4>>; 6]; 2] = [[None; 6]; 2];
    for lay in 0..2 { for f in 0..6 { res[lay][f] = s.call(&site(lay, f), inp, || call6::<Sd>(lay, f, &es, &ts, &us)); } }
    for lay in 0..2 { for f in 0..6 {
        let Some(m) = res[lay][f] else { continue };
        let mut fails: Vec<&'static str> = Vec::new();
        let hand = [Hand::Lh, Hand::Rh, Hand::Lh, Hand::Rh, Hand::Either, Hand::Either][f];
        let verdict = catch(|| {
            if f == 0 || f == 1 || f == 4 { view_clauses(&m, &es, &ts, &us, dist, hand, &mut fails); }
            else { let vf = [0, 1, 0, 1, 4, 4][f]; if let Some(v) = res[lay][vf] { model_clauses(&m, &v, &es, &mut fails); } }
        });
        match verdict {
            Err(Caught::Unmodelled(why)) => { s.unmodelled(why); continue; }
            Err(Caught::Panic(p)) => { s.rep.machinery_error(format!("oracle panicked: {}", p)); continue; }
            Ok(()) => {}
        }
        for cl in &fails { emit(s, &site(lay, f), cl, w, || json!({"input": inp(), "got": jsd4(&m), "eye_target_distance": jd(&dist)})); }
        if fails.is_empty() {
            let view_is_ref = |vf: usize| res[lay][vf] == Some(refs[0]) || res[lay][vf] == Some(refs[1]);
            let unique = match f { 0 => m == refs[0], 1 => m == refs[1], 4 => m == refs[0] || m == refs[1],
                2 => !view_is_ref(0) || m == refs[2], 3 => !view_is_ref(1) || m == refs[3], _ => !view_is_ref(4) || m == refs[2] || m == refs[3] };
            if !unique { s.rep.machinery_error(format!("oracle accepted a matrix different from the rescaled Gram-Schmidt reference: {} on {}", site(lay, f), inp())); }
        }
    } }
}
fn look_exact_scaled(s: &Section) {
    let scales = exact_scales();
    let mut req: Vec<&str> = scales.iter().map(|x| x.2).collect(); req.push("far irregular integer triple (unscaled)"); req.push("scaled view shorter than 1");
    s.require_classes(&req);
    let triples = small_triples(s.thorough());
    let far = far_triples();
    let ok = |(e, t, u): &(P, P, P)| cross_i(u, &sub_i(t, e)) != [0, 0, 0];
    triples.par_iter().filter(|x| ok(x)).for_each(|(e, t, up)| {
        let d = sub_i(t, e);
        let mut short = 0u64;
        for (cp, cu, _) in &scales {
            exact_case(s, e, t, up, *cp, *cu);
            if Q::int(dot_i(&d, &d) as i128).mul(*cp).mul(*cp).cmp(Q::ONE) == Ordering::Less { short += 1; }
        }
        s.evals(12 * scales.len() as u64, 12 * scales.len() as u64);
        s.class_n("scaled view shorter than 1", short);
    });
    let n = triples.iter().filter(|x| ok(x)).count() as u64;
    for (_, _, c) in &scales { s.class_n(c, n); }
    far.par_iter().filter(|x| ok(x)).for_each(|(e, t, up)| {
        exact_case(s, e, t, up, Q::ONE, Q::ONE);
        exact_case(s, e, t, up, Q::new(1, 64), Q::new(1, 9));
        s.evals(24, 24);
        s.class_n("far irregular integer triple (unscaled)", 1);
    });
    s.meta("alphabet", json!({"box_triples": n, "scale_pairs (positions, up)": scales.iter().map(|(a, b, _)| json!([jd(a), jd(b)])).collect::<Vec<_>>(),
        "far_eyes": FAR_EYES, "far_offsets": FAR_OFFS, "far_ups": FAR_UPS, "far_scale_pairs": ["1, 1", "1/64, 1/9"]}));
    s.sample(json!({"eye": [-2, 1, 0], "target": [-1, 1, 1], "up": [0, 1, 0], "positions_times": "1/2", "look_at_lh (row-major, exact)": jsd4(&call6::<Sd>(0, 0, &sdq(&[-2, 1, 0], Q::new(1, 2)), &sdq(&[-1, 1, 1], Q::new(1, 2)), &sdq(&[0, 1, 0], Q::ONE)))}));
}

/// floats at extreme magnitudes: positions * 2^kp, up * 2^ku (exact scalings of the integer triple); the reference is the
/// exact Gram-Schmidt matrix of the unscaled triple with its translation column times 2^kp
fn look_float_scaled<T: Fl>(s: &Section) {
    s.require_classes(&["positions tiny", "positions huge", "up tiny", "up huge", "moderate non-integer (2^-3)", "kappa > 1.5", "eye off origin"]);
    let big = if T::NAME == "f32" { 40 } else { 400 };
    // quick: the quick space x the coarse exponent grid; thorough: the quick space x the fine grid, then the thorough space x the coarse grid
    let coarse: (Vec<i32>, Vec<i32>) = (vec![-big, -3, 5, big], vec![-big, 0, big]);
    let fine: (Vec<i32>, Vec<i32>) = (vec![-big, -big / 2, -3, 0, 5, big / 2, big], vec![-big, -big / 2, -2, 0, big / 2, big]);
    let passes: Vec<(bool, (Vec<i32>, Vec<i32>))> = if s.thorough() { vec![(false, fine.clone()), (true, coarse.clone())] } else { vec![(false, coarse.clone())] };
    let worst = std::sync::Mutex::new(0.0f64);
    for (space_th, (kps, kus)) in &passes {
    let (pairs, ups) = look_space(*space_th);
    pairs.par_iter().for_each(|(e, t)| {
        let mut cnt = Cnt::default();
        let d = sub_i(t, e);
        let mut wl = 0.0f64;
        for up in &ups {
            let cr = cross_i(up, &d);
            if cr == [0, 0, 0] { continue; }
            let (rv_lh, rm_lh, _, _) = ref_view(e, t, up, true);
            let (rv_rh, rm_rh, _, _) = ref_view(e, t, up, false);
            let refs = [shadow4(&rv_lh), shadow4(&rv_rh), shadow4(&rm_lh), shadow4(&rm_rh)];
            let kappa = ((dot_i(up, up) * dot_i(&d, &d)) as f64 / dot_i(&cr, &cr) as f64).sqrt();
            let eye1 = e.iter().map(|c| c.abs() as f64).sum::<f64>();
            for &kp in kps.iter() { for &ku in kus.iter() {
                if kp == 0 && ku == 0 { continue; } // the unscaled triple is the float tier above
                cnt.triples += 1; cnt.nontrivial += 1;
                if kp <= -big / 2 { cnt.hit("positions tiny"); } if kp >= big / 2 { cnt.hit("positions huge"); }
                if ku <= -big / 2 { cnt.hit("up tiny"); } if ku >= big / 2 { cnt.hit("up huge"); }
                if kp == -3 { cnt.hit("moderate non-integer (2^-3)"); }
                if kappa > 1.5 { cnt.hit("kappa > 1.5"); } if *e != [0, 0, 0] { cnt.hit("eye off origin"); }
                let (sp, su) = (p2(kp), p2(ku));
                let cv = |p: &P, sc: f64| [T::f(p[0] as f64 * sc), T::f(p[1] as f64 * sc), T::f(p[2] as f64 * sc)];
                let (ef, tf, uf) = (cv(e, sp), cv(t, sp), cv(up, su));
                let inp = || json!({"eye": e, "target": t, "up": up, "positions_times_2^": kp, "up_times_2^": ku});
                for lay in 0..2 { for f in 0..6 {
                    let st = format!("{}<{}>", site(lay, f), T::NAME);
                    let Some(g) = s.call(&st, inp, || call6::<T>(lay, f, &ef, &tf, &uf)) else { continue };
                    let err = |want: &A<f64, 4>| {
                        let mut ok = g[3][0].d() == 0.0 && g[3][1].d() == 0.0 && g[3][2].d() == 0.0 && g[3][3].d() == 1.0;
                        let mut wst = 0.0f64;
                        for i in 0..3 { for j in 0..4 {
                            let (wv, sc) = if j < 3 { (want[i][j], kappa) } else { (want[i][3] * sp, kappa * eye1 * sp) };
                            if !g[i][j].close(wv, sc) { ok = false; }
                            if sc > 0.0 { let dd = (g[i][j].d() - wv).abs() / sc; if dd > wst || dd.is_nan() { wst = dd; } }
                        } }
                        (ok, wst) };
                    let cands: &[usize] = match f { 0 => &[0], 1 => &[1], 2 => &[2], 3 => &[3], 4 => &[0, 1], _ => &[2, 3] };
                    let rs: Vec<(bool, f64)> = cands.iter().map(|&c| err(&refs[c])).collect();
                    let best = rs.iter().cloned().fold((false, f64::INFINITY), |a, b| if b.0 && !a.0 { b } else if a.0 && !b.0 { a } else if b.1 < a.1 { b } else { a });
                    if best.0 { if best.1 > wl { wl = best.1; } } else {
                        emit(s, &st, "wrong-entry-at-extreme-scale", weight(e, t, up), || { let gd: Vec<Vec<f64>> = g.iter().map(|r| r.iter().map(|x| x.d()).collect()).collect();
                            json!({"input": inp(), "got": gd, "want (exact reference of the unscaled triple, rounded; translation column times 2^kp)": refs[cands[0]], "tolerance": "256 eps * kappa (linear part), 256 eps * kappa * |eye|_1 * 2^kp (translation), last row exact", "kappa": kappa}) });
                    }
                } }
            } }
        }
        { let mut g = worst.lock().unwrap(); if wl > *g { *g = wl; } }
        cnt.flush(s, 12);
    });
    }
    let eps = if T::NAME == "f64" { f64::EPSILON } else { f32::EPSILON as f64 };
    s.meta("worst_observed_error_in_eps_times_scale", json!(*worst.lock().unwrap() / eps));
    s.meta("allowed_eps_times_scale", json!(vx::fl::K));
    s.meta("passes (space, position exponents, up exponents)", json!(passes.iter().map(|(sp, (a, b))| json!([if *sp { SPACE_THOROUGH } else { SPACE_QUICK }, a, b])).collect::<Vec<_>>()));
    s.sample(json!({"eye": [1, -2, 0], "target": [2, 0, 1], "up": [0, 1, 1], "positions_times_2^": big, "up_times_2^": -big, "type": T::NAME,
        "look_at_rh (row-major)": call6::<T>(0, 1, &[T::f(p2(big)), T::f(-2.0 * p2(big)), T::f(0.0)], &[T::f(2.0 * p2(big)), T::f(0.0), T::f(p2(big))], &[T::f(0.0), T::f(p2(-big)), T::f(p2(-big))]).iter().map(|r| r.iter().map(|x| x.d()).collect::<Vec<f64>>()).collect::<Vec<_>>()}));
}

// ---- operand forms -----------------------------------------------------------------------------------
const FORMS: [&str; 10] = ["Vec4", "[T; 3]", "(T, T, T)", "Vec2", "Extent3", "Rgb", "Uvw", "mint::Vector3", "mint::Point3", "(Vec2, T)"]; // 4.. added by audit round 3
macro_rules! six_on { ($M:ident, $dec:ident, $f:expr, $e:expr, $t:expr, $u:expr) => { match $f {
    0 => $dec(&$M::Mat4::look_at_lh($e, $t, $u)), 1 => $dec(&$M::Mat4::look_at_rh($e, $t, $u)),
    2 => $dec(&$M::Mat4::model_look_at_lh($e, $t, $u)), 3 => $dec(&$M::Mat4::model_look_at_rh($e, $t, $u)),
    4 => $dec(&$M::Mat4::look_at($e, $t, $u)), _ => $dec(&$M::Mat4::model_look_at($e, $t, $u)) } } }
/// `w` = the fourth components given to the three Vec4 operands (dropped by the conversion); Vec2 drops z (callers pass z = 0)
fn call6_form<T: Real + Add<T, Output = T> + MulAdd<T, T, Output = T>>(lay: usize, f: usize, form: usize, e: &[T; 3], t: &[T; 3], u: &[T; 3], w: &[T; 3]) -> A<T, 4> {
    let q4 = |a: &[T; 3], w: T| Vec4 { x: a[0], y: a[1], z: a[2], w };
    let tu = |a: &[T; 3]| (a[0], a[1], a[2]);
    let q2 = |a: &[T; 3]| Vec2 { x: a[0], y: a[1] };
    match (lay, form) {
        (0, 0) => six_on!(rm, dr4, f, q4(e, w[0]), q4(t, w[1]), q4(u, w[2])),
        (1, 0) => six_on!(cm, dc4, f, q4(e, w[0]), q4(t, w[1]), q4(u, w[2])),
        (0, 1) => six_on!(rm, dr4, f, *e, *t, *u),
        (1, 1) => six_on!(cm, dc4, f, *e, *t, *u),
        (0, 2) => six_on!(rm, dr4, f, tu(e), tu(t), tu(u)),
        (1, 2) => six_on!(cm, dc4, f, tu(e), tu(t), tu(u)),
        (0, 3) => six_on!(rm, dr4, f, q2(e), q2(t), q2(u)),
        (1, 3) => six_on!(cm, dc4, f, q2(e), q2(t), q2(u)),
        // the remaining members of the `Into<Vec3<T>>` family (struct literals: the conversions under test are vek's `From` impls)
        (0, 4) => six_on!(rm, dr4, f, Extent3 { w: e[0], h: e[1], d: e[2] }, Extent3 { w: t[0], h: t[1], d: t[2] }, Extent3 { w: u[0], h: u[1], d: u[2] }),
        (1, 4) => six_on!(cm, dc4, f, Extent3 { w: e[0], h: e[1], d: e[2] }, Extent3 { w: t[0], h: t[1], d: t[2] }, Extent3 { w: u[0], h: u[1], d: u[2] }),
        (0, 5) => six_on!(rm, dr4, f, Rgb { r: e[0], g: e[1], b: e[2] }, Rgb { r: t[0], g: t[1], b: t[2] }, Rgb { r: u[0], g: u[1], b: u[2] }),
        (1, 5) => six_on!(cm, dc4, f, Rgb { r: e[0], g: e[1], b: e[2] }, Rgb { r: t[0], g: t[1], b: t[2] }, Rgb { r: u[0], g: u[1], b: u[2] }),
        (0, 6) => six_on!(rm, dr4, f, Uvw { u: e[0], v: e[1], w: e[2] }, Uvw { u: t[0], v: t[1], w: t[2] }, Uvw { u: u[0], v: u[1], w: u[2] }),
        (1, 6) => six_on!(cm, dc4, f, Uvw { u: e[0], v: e[1], w: e[2] }, Uvw { u: t[0], v: t[1], w: t[2] }, Uvw { u: u[0], v: u[1], w: u[2] }),
        (0, 7) => six_on!(rm, dr4, f, mint::Vector3 { x: e[0], y: e[1], z: e[2] }, mint::Vector3 { x: t[0], y: t[1], z: t[2] }, mint::Vector3 { x: u[0], y: u[1], z: u[2] }),
        (1, 7) => six_on!(cm, dc4, f, mint::Vector3 { x: e[0], y: e[1], z: e[2] }, mint::Vector3 { x: t[0], y: t[1], z: t[2] }, mint::Vector3 { x: u[0], y: u[1], z: u[2] }),
        (0, 8) => six_on!(rm, dr4, f, mint::Point3 { x: e[0], y: e[1], z: e[2] }, mint::Point3 { x: t[0], y: t[1], z: t[2] }, mint::Point3 { x: u[0], y: u[1], z: u[2] }),
        (1, 8) => six_on!(cm, dc4, f, mint::Point3 { x: e[0], y: e[1], z: e[2] }, mint::Point3 { x: t[0], y: t[1], z: t[2] }, mint::Point3 { x: u[0], y: u[1], z: u[2] }),
        (0, 9) => six_on!(rm, dr4, f, (q2(e), e[2]), (q2(t), t[2]), (q2(u), u[2])),
        (1, 9) => six_on!(cm, dc4, f, (q2(e), e[2]), (q2(t), t[2]), (q2(u), u[2])),
        _ => unreachable!(),
    }
}
macro_rules! basis_on { ($M:ident, $dec:ident, $b:expr, $o:expr, $i:expr, $j:expr, $k:expr) => { if $b { $dec(&$M::Mat4::basis_to_local($o, $i, $j, $k)) } else { $dec(&$M::Mat4::local_to_basis($o, $i, $j, $k)) } } }
fn basis_form<T: Real + Add<T, Output = T>>(lay: usize, b2l_: bool, form: usize, o: &[T; 3], i: &[T; 3], j: &[T; 3], k: &[T; 3], w: &[T; 4]) -> A<T, 4> {
    let q4 = |a: &[T; 3], w: T| Vec4 { x: a[0], y: a[1], z: a[2], w };
    let tu = |a: &[T; 3]| (a[0], a[1], a[2]);
    let ex = |a: &[T; 3]| Extent3 { w: a[0], h: a[1], d: a[2] };
    let rg = |a: &[T; 3]| Rgb { r: a[0], g: a[1], b: a[2] };
    let uw = |a: &[T; 3]| Uvw { u: a[0], v: a[1], w: a[2] };
    let mv = |a: &[T; 3]| mint::Vector3 { x: a[0], y: a[1], z: a[2] };
    let mp = |a: &[T; 3]| mint::Point3 { x: a[0], y: a[1], z: a[2] };
    let vt = |a: &[T; 3]| (Vec2 { x: a[0], y: a[1] }, a[2]);
    match (lay, form) {
        (0, 0) => basis_on!(rm, dr4, b2l_, q4(o, w[0]), q4(i, w[1]), q4(j, w[2]), q4(k, w[3])),
        (1, 0) => basis_on!(cm, dc4, b2l_, q4(o, w[0]), q4(i, w[1]), q4(j, w[2]), q4(k, w[3])),
        (0, 1) => basis_on!(rm, dr4, b2l_, *o, *i, *j, *k),
        (1, 1) => basis_on!(cm, dc4, b2l_, *o, *i, *j, *k),
        (0, 2) => basis_on!(rm, dr4, b2l_, tu(o), tu(i), tu(j), tu(k)),
        (1, 2) => basis_on!(cm, dc4, b2l_, tu(o), tu(i), tu(j), tu(k)),
        (0, 4) => basis_on!(rm, dr4, b2l_, ex(o), ex(i), ex(j), ex(k)),
        (1, 4) => basis_on!(cm, dc4, b2l_, ex(o), ex(i), ex(j), ex(k)),
        (0, 5) => basis_on!(rm, dr4, b2l_, rg(o), rg(i), rg(j), rg(k)),
        (1, 5) => basis_on!(cm, dc4, b2l_, rg(o), rg(i), rg(j), rg(k)),
        (0, 6) => basis_on!(rm, dr4, b2l_, uw(o), uw(i), uw(j), uw(k)),
        (1, 6) => basis_on!(cm, dc4, b2l_, uw(o), uw(i), uw(j), uw(k)),
        (0, 7) => basis_on!(rm, dr4, b2l_, mv(o), mv(i), mv(j), mv(k)),
        (1, 7) => basis_on!(cm, dc4, b2l_, mv(o), mv(i), mv(j), mv(k)),
        (0, 8) => basis_on!(rm, dr4, b2l_, mp(o), mp(i), mp(j), mp(k)),
        (1, 8) => basis_on!(cm, dc4, b2l_, mp(o), mp(i), mp(j), mp(k)),
        (0, 9) => basis_on!(rm, dr4, b2l_, vt(o), vt(i), vt(j), vt(k)),
        (1, 9) => basis_on!(cm, dc4, b2l_, vt(o), vt(i), vt(j), vt(k)),
        _ => unreachable!(),
    }
}
/// reference change-of-basis matrices from the definition: L = [i j k | o], B = [rows i, j, k | -i.o, -j.o, -k.o] (= L^-1 iff orthonormal)
fn ref_l2b(o: &[X; 3], i: &[X; 3], j: &[X; 3], k: &[X; 3]) -> A<X, 4> {
    let (z, one) = (qi(0), qi(1));
    [[i[0], j[0], k[0], o[0]], [i[1], j[1], k[1], o[1]], [i[2], j[2], k[2], o[2]], [z, z, z, one]]
}
fn ref_b2l(o: &[X; 3], i: &[X; 3], j: &[X; 3], k: &[X; 3]) -> A<X, 4> {
    let (z, one) = (qi(0), qi(1));
    [[i[0], i[1], i[2], -dotn(i, o)], [j[0], j[1], j[2], -dotn(j, o)], [k[0], k[1], k[2], -dotn(k, o)], [z, z, z, one]]
}

fn operand_forms(s: &Section) {
    s.require_classes(&["Vec4 with point/direction w (1,1,0)", "Vec4 with junk w", "[T; 3]", "(T, T, T)", "Vec2 (z = 0 plane)", "basis: mirror", "basis: proper"]);
    s.require_classes(&FORMS[4..]);
    // look-at
    let triples: Vec<(P, P, P)> = small_triples(false).into_iter().filter(|(e, t, u)| cross_i(u, &sub_i(t, e)) != [0, 0, 0]).collect();
    triples.par_iter().for_each(|(e, t, up)| {
        let (es, ts, us) = (sd3(e), sd3(t), sd3(up));
        let (rv_lh, rm_lh, _, _) = ref_view(e, t, up, true);
        let (rv_rh, rm_rh, _, _) = ref_view(e, t, up, false);
        let refs = [rv_lh, rv_rh, rm_lh, rm_rh];
        let planar = e[2] == 0 && t[2] == 0 && up[2] == 0;
        let ws: [[Sd; 3]; 2] = [[Sd::int(1), Sd::int(1), Sd::ZERO], [Sd::int(7), Sd::int(-3), Sd::int(5)]];
        let mut n = [0u64; 11];
        for form in 0..FORMS.len() { for (wi, w) in ws.iter().enumerate() {
            if form != 0 && wi == 1 { continue; }
            if form == 3 && !planar { continue; }
            n[if form == 0 { wi } else { form + 1 }] += 1;
            let inp = || json!({"eye": e, "target": t, "up": up, "operand_type": FORMS[form], "w_components (Vec4 only)": jd(w)});
            for lay in 0..2 { for f in 0..6 {
                let st = format!("{}({})", site(lay, f), FORMS[form]);
                let Some(g) = s.call(&st, inp, || call6_form::<Sd>(lay, f, form, &es, &ts, &us, w)) else { continue };
                let cands: &[usize] = match f { 0 => &[0], 1 => &[1], 2 => &[2], 3 => &[3], 4 => &[0, 1], _ => &[2, 3] };
                if !cands.iter().any(|&c| refs[c] == g) { emit(s, &st, "wrong-matrix-for-operand-form", weight(e, t, up), || json!({"input": inp(), "got": jsd4(&g), "want (Gram-Schmidt reference)": jsd4(&refs[cands[0]])})); }
            } }
        } }
        let tot: u64 = n.iter().sum();
        s.evals(12 * tot, 12 * tot);
        s.class_n("Vec4 with point/direction w (1,1,0)", n[0]); s.class_n("Vec4 with junk w", n[1]); s.class_n("[T; 3]", n[2]); s.class_n("(T, T, T)", n[3]); s.class_n("Vec2 (z = 0 plane)", n[4]);
        for form in 4..FORMS.len() { s.class_n(FORMS[form], n[form + 1]); }
    });
    // change of basis
    let axes: Vec<[X; 3]> = unit_axes().into_iter().enumerate().filter(|(n, _)| s.thorough() || n % 8 == 1).map(|(_, a)| a).collect();
    let circ = circle_points();
    for a in &axes { for (c, sn) in &circ { for flip in [1i128, -1] {
        let r = rodrigues(a, *c, *sn);
        let (i, j, k) = ([r[0][0], r[1][0], r[2][0]], [r[0][1], r[1][1], r[2][1]], [r[0][2] * qi(flip), r[1][2] * qi(flip), r[2][2] * qi(flip)]);
        let o = [qi(2), qi(-1), q(3, 2)];
        s.class(if flip == 1 { "basis: proper" } else { "basis: mirror" });
        let w = [qi(1), qi(0), qi(-4), qi(9)];
        for form in [0usize, 1, 2, 4, 5, 6, 7, 8, 9] { for lay in 0..2 { for b in [false, true] {
            s.eval(true);
            let name = if b { "basis_to_local" } else { "local_to_basis" };
            let st = format!("{}({})", bsite(lay, name), FORMS[form]);
            let inp = || json!({"origin": jxs(&o), "i": jxs(&i), "j": jxs(&j), "k": jxs(&k), "operand_type": FORMS[form], "w_components (Vec4 only)": jxs(&w)});
            let Some(g) = s.call(&st, inp, || basis_form::<X>(lay, b, form, &o, &i, &j, &k, &w)) else { continue };
            let want = if b { ref_b2l(&o, &i, &j, &k) } else { ref_l2b(&o, &i, &j, &k) };
            if g != want { emit(s, &st, "wrong-matrix-for-operand-form", 0, || json!({"input": inp(), "got": jmat(&g), "want": jmat(&want)})); }
        } } }
    } } }
    // audit round 3: the scalar member of the family (`impl From<T> for Vec3<T>`, broadcast). Every look-at triple it can express is degenerate and no
    // broadcast basis is orthonormal, but local_to_basis is claimed for all inputs: [i j k | o] with every column constant
    s.require_classes(&["T (broadcast), local_to_basis only"]);
    for (o, i, j, k) in [(qi(2), qi(3), qi(5), qi(7)), (q(-1, 2), qi(0), qi(1), q(9, 4)), (qi(0), qi(-6), q(1, 3), qi(1))] { for lay in 0..2 {
        s.eval(true); s.class("T (broadcast), local_to_basis only");
        let st = format!("{}(T (broadcast))", bsite(lay, "local_to_basis"));
        let inp = || json!({"origin": jx(o), "i": jx(i), "j": jx(j), "k": jx(k), "operand_type": "T (broadcast to all three lanes)"});
        let got = s.call(&st, inp, || if lay == 0 { dr4(&rm::Mat4::local_to_basis(o, i, j, k)) } else { dc4(&cm::Mat4::local_to_basis(o, i, j, k)) });
        let want = ref_l2b(&[o; 3], &[i; 3], &[j; 3], &[k; 3]);
        if let Some(g) = got { if g != want { emit(s, &st, "wrong-matrix-for-operand-form", 0, || json!({"input": inp(), "got": jmat(&g), "want": jmat(&want)})); } }
    } }
    s.meta("alphabet", json!({"look_at_triples": triples.len(), "forms": FORMS, "basis_axes": axes.len(), "angles": circ.len()}));
    s.sample(json!({"eye (Vec4)": [1, -2, 1, 7], "target (Vec4)": [2, -2, 0, -3], "up (Vec4)": [0, 1, 0, 5], "note": "fourth components are dropped by From<Vec4> for Vec3; the matrix must be the Vec3 one"}));
}

// ---- change of basis on float and integer element types ---------------------------------------------------
fn basis_float<T: Fl>(s: &Section) {
    s.require_classes(&["proper (det +1)", "mirror (det -1)", "origin tiny", "origin huge", "origin non-integer (2^-3)", "origin zero"]);
    let big = if T::NAME == "f32" { 40 } else { 400 };
    let ks: Vec<i32> = if s.thorough() { vec![-big, -big / 2, -3, 0, 7, big / 2, big] } else { vec![-big, -3, 0, big] };
    let axes: Vec<[X; 3]> = unit_axes().into_iter().enumerate().filter(|(n, _)| s.thorough() || n % 4 == 2).map(|(_, a)| a).collect();
    let circ = circle_points();
    let origins: Vec<[i32; 3]> = grid3(&[-1, 0, 2]);
    let work: Vec<(usize, usize)> = (0..axes.len()).flat_map(|a| (0..circ.len()).map(move |c| (a, c))).collect();
    let worst = std::sync::Mutex::new(0.0f64);
    work.par_iter().for_each(|&(ai, ci)| {
        let r = rodrigues(&axes[ai], circ[ci].0, circ[ci].1);
        let mut cnt = Cnt::default();
        let mut wl = 0.0f64;
        for flip in [1.0f64, -1.0] {
            // the basis actually handed to vek: the rational rotation rounded once to T
            let col = |c: usize, sg: f64| [T::f(r[0][c].shadow() * sg), T::f(r[1][c].shadow() * sg), T::f(r[2][c].shadow() * sg)];
            let (i, j, k) = (col(0, 1.0), col(1, 1.0), col(2, flip));
            let b = [i, j, k];
            for o in &origins { for &kk in &ks {
                let sc = p2(kk);
                let of = [T::f(o[0] as f64 * sc), T::f(o[1] as f64 * sc), T::f(o[2] as f64 * sc)];
                cnt.triples += 1; cnt.nontrivial += 1;
                cnt.hit(if flip > 0.0 { "proper (det +1)" } else { "mirror (det -1)" });
                if *o == [0, 0, 0] { cnt.hit("origin zero"); } else { if kk <= -big / 2 { cnt.hit("origin tiny"); } if kk >= big / 2 { cnt.hit("origin huge"); } if kk == -3 { cnt.hit("origin non-integer (2^-3)"); } }
                let inp = || json!({"axis": jxs(&axes[ai]), "cos": jx(circ[ci].0), "sin": jx(circ[ci].1), "mirror_k": flip < 0.0, "origin": o, "origin_times_2^": kk,
                    "i": i.iter().map(|x| x.d()).collect::<Vec<f64>>(), "j": j.iter().map(|x| x.d()).collect::<Vec<f64>>(), "k": k.iter().map(|x| x.d()).collect::<Vec<f64>>()});
                for lay in 0..2 {
                    // local_to_basis: the 12 inputs land in their entries unchanged (T: Zero + One admits nothing else), last row 0 0 0 1
                    let st = format!("{}<{}>", bsite(lay, "local_to_basis"), T::NAME);
                    if let Some(g) = s.call(&st, inp, || l2b::<T>(lay, &of, &i, &j, &k)) {
                        let mut ok = g[3][0].d() == 0.0 && g[3][1].d() == 0.0 && g[3][2].d() == 0.0 && g[3][3].d() == 1.0;
                        for rr in 0..3 { for c in 0..3 { if g[rr][c].d() != b[c][rr].d() { ok = false; } } if g[rr][3].d() != of[rr].d() { ok = false; } }
                        if !ok { emit(s, &st, "wrong-entry", 0, || json!({"input": inp(), "got": g.iter().map(|r| r.iter().map(|x| x.d()).collect::<Vec<f64>>()).collect::<Vec<_>>()})); }
                    }
                    // basis_to_local: rows i, j, k within 256 eps; translation -row.origin (exact dot product of the float inputs, rounded once) within 256 eps * sum |row_c origin_c|
                    let st = format!("{}<{}>", bsite(lay, "basis_to_local"), T::NAME);
                    if let Some(g) = s.call(&st, inp, || b2l::<T>(lay, &of, &i, &j, &k)) {
                        let mut ok = g[3][0].d() == 0.0 && g[3][1].d() == 0.0 && g[3][2].d() == 0.0 && g[3][3].d() == 1.0;
                        for rr in 0..3 {
                            for c in 0..3 { if !g[rr][c].close(b[rr][c].d(), 1.0) { ok = false; } }
                            let mut acc = Q::ZERO; let mut mag = 0.0f64;
                            for c in 0..3 { acc = acc.add(vx::fl::qf(b[rr][c].d()).mul(Q::int(o[c] as i128))); mag += (b[rr][c].d() * o[c] as f64).abs(); }
                            let want = -acc.to_f64() * sc;
                            if !g[rr][3].close(want, mag * sc) { ok = false; }
                            if mag > 0.0 { let dd = (g[rr][3].d() - want).abs() / (mag * sc); if dd > wl || dd.is_nan() { wl = dd; } }
                        }
                        if !ok { emit(s, &st, "wrong-entry", 0, || json!({"input": inp(), "got": g.iter().map(|r| r.iter().map(|x| x.d()).collect::<Vec<f64>>()).collect::<Vec<_>>(), "tolerance": "256 eps (rows), 256 eps * sum |row_c origin_c| (translation), last row exact"})); }
                    }
                }
            } }
        }
        { let mut g = worst.lock().unwrap(); if wl > *g { *g = wl; } }
        cnt.flush(s, 4);
    });
    let eps = if T::NAME == "f64" { f64::EPSILON } else { f32::EPSILON as f64 };
    s.meta("worst_observed_translation_error_in_eps_times_scale", json!(*worst.lock().unwrap() / eps));
    s.meta("alphabet", json!({"axes": axes.len(), "angles": circ.len(), "mirror": 2, "origins": origins.len(), "origin_exponents": ks, "layouts": 2}));
    s.sample(json!({"axis": jxs(&axes[0]), "cos_sin": [jx(circ[3].0), jx(circ[3].1)], "type": T::NAME, "origin": [2, -1, 2], "origin_times_2^": -big}));
}
trait IntEl: Copy + Zero + One + PartialEq + fmt::Debug + Send + Sync + 'static { const NAME: &'static str; fn alphabet() -> Vec<Self>; }
impl IntEl for i32 { const NAME: &'static str = "i32"; fn alphabet() -> Vec<i32> { vec![i32::MIN, -7, 0, 1, 3, i32::MAX] } }
impl IntEl for u8 { const NAME: &'static str = "u8"; fn alphabet() -> Vec<u8> { vec![0, 1, 2, 9, 128, 255] } }
impl IntEl for i64 { const NAME: &'static str = "i64"; fn alphabet() -> Vec<i64> { vec![i64::MIN, -5, 0, 1, 11, i64::MAX] } }
fn l2b_integers<T: IntEl>(s: &Section) {
    // every one of the 12 inputs takes every alphabet value while the others hold pairwise distinct-as-possible fillers
    let al = T::alphabet();
    for slot in 0..12 { for (vi, v) in al.iter().enumerate() {
        let mut a = [T::zero(); 12];
        for n in 0..12 { a[n] = al[(n + vi + 1 + n / 6) % al.len()]; }
        a[slot] = *v;
        let (o, i, j, k) = ([a[0], a[1], a[2]], [a[3], a[4], a[5]], [a[6], a[7], a[8]], [a[9], a[10], a[11]]);
        for lay in 0..2 {
            s.eval(true);
            s.class(T::NAME);
            let st = format!("{}<{}>", bsite(lay, "local_to_basis"), T::NAME);
            let inp = || json!({"origin": jd(&o), "i": jd(&i), "j": jd(&j), "k": jd(&k)});
            if let Some(g) = s.call(&st, inp, || l2b::<T>(lay, &o, &i, &j, &k)) {
                let want = [[i[0], j[0], k[0], o[0]], [i[1], j[1], k[1], o[1]], [i[2], j[2], k[2], o[2]], [T::zero(), T::zero(), T::zero(), T::one()]];
                if g != want { emit(s, &st, "wrong-entry", 0, || json!({"input": inp(), "got": jd(&g), "want": jd(&want)})); }
            }
        }
    } }
}

// =================================================================================================
// audit additions (round 3): inputs around the special values a shortcut or an "equivalent" rewrite keys on.
//  * exact-by-construction float inputs (view along an axis, up in a coordinate plane containing it): every intermediate of
//    normalise / cross / normalise / dot is then exact for ARBITRARY magnitudes (sqrt(x*x) = |x|, x/|x| = +-1, y*0 = 0, y*1 = y),
//    so the matrix is a signed permutation with translation -+eye lane and is compared with ==
//  * general position with a derived bound: eye and view direction at different scales (close points far from the origin, far
//    target seen from near the origin) and narrow angles between up and the view
//  * change of basis on the exactly orthonormal float bases (signed permutations) with origins of mixed, awkward magnitudes
// =================================================================================================
trait FlX: Fl {
    const EPS: f64; const LIM: i32; const MAXV: f64; const MINPOS: f64; const MINSUB: f64;
    /// k units in the last place away from the positive value v (v representable in the type)
    fn bump(v: f64, k: i64) -> f64;
    /// v rounded once to the type
    fn r(v: f64) -> f64 { Self::f(v).d() }
}
impl FlX for f64 {
    const EPS: f64 = f64::EPSILON; const LIM: i32 = 500; const MAXV: f64 = f64::MAX; const MINPOS: f64 = f64::MIN_POSITIVE; const MINSUB: f64 = 5e-324;
    fn bump(v: f64, k: i64) -> f64 { f64::from_bits((v.to_bits() as i64 + k) as u64) }
}
impl FlX for f32 {
    const EPS: f64 = f32::EPSILON as f64; const LIM: i32 = 60; const MAXV: f64 = f32::MAX as f64; const MINPOS: f64 = f32::MIN_POSITIVE as f64; const MINSUB: f64 = 1.401298464324817e-45;
    fn bump(v: f64, k: i64) -> f64 { f32::from_bits(((v as f32).to_bits() as i64 + k) as u32) as f64 }
}
/// positive values of the type around everything a guard could key on; the first `core` entries are the quick tier's second factor.
/// Policy: 2^-LIM <= v <= 2^LIM, so v*v is a normal number of the type (each operand's own squared length is representable).
fn awkward<T: FlX>(th: bool) -> (Vec<f64>, usize) {
    let e = T::EPS;
    let mut v: Vec<f64> = vec![1.0, T::bump(1.0, 1), T::bump(1.0, -1), T::r(0.1), 49.0, e / 2.0, p2(-T::LIM), p2(T::LIM), T::r(1e-3), 7.0, T::bump(1.0, 3), p2(-30)];
    let core = v.len();
    for k in [-4i64, -2, 2, 4, 8] { v.push(T::bump(1.0, k)); }
    for x in [1.0 + p2(-10), 1.0 - p2(-10), 1.0 + 1e-4, 1.0 - 1e-6, 1.0 + 1e-6, 1.0 - 1e-3] { v.push(T::r(x)); }
    for t in [e, 4.0 * e, e.sqrt(), e * e, 1e-4, 1e-5, 1e-6, 1e-7, 1e-8, 1e-10, 1e-12, 1e-16] { for k in [-1i64, 0, 1] { v.push(T::bump(T::r(t), k)); } }
    for x in [0.3, 1.0 / 3.0, 0.7, 1.7, 2.3, 3.0, 5.0, 10.0, 41.0, 47.0, 97.0, 100.0, 103.0, 107.0, 1000.1, 3.0 * p2(T::LIM - 2), 3.0 * p2(-T::LIM), p2(T::LIM / 2), p2(-T::LIM / 2)] { v.push(T::r(x)); }
    if th { for n in 2..=200 { v.push(n as f64); } for n in 1..=60 { v.push(T::r(n as f64 / 61.0)); v.push(T::r(1.0 + n as f64 * 1e-3)); } }
    let mut out: Vec<f64> = Vec::new();
    for x in v { assert!(x > 0.0 && T::r(x) == x && x >= p2(-T::LIM) && x <= p2(T::LIM)); if !out.contains(&x) { out.push(x); } }
    (out, core)
}
/// reference for an axis-aligned camera from signs alone: f = sd e_a, u = sp e_b, s = u x f (lh) / f x u (rh); [view_lh, view_rh, model_lh, model_rh]
fn axis_want(a: usize, b: usize, sd: i32, sp: i32, eye: &[f64; 3]) -> [A<f64, 4>; 4] {
    let mut f = [0i32; 3]; f[a] = sd;
    let mut u = [0i32; 3]; u[b] = sp;
    let nf = [-f[0], -f[1], -f[2]];
    let build = |s: P, fz: P| -> (A<f64, 4>, A<f64, 4>) {
        let rows = [s, u, fz];
        let (mut v, mut m) = ([[0.0f64; 4]; 4], [[0.0f64; 4]; 4]);
        for i in 0..3 { for j in 0..3 { v[i][j] = rows[i][j] as f64; m[j][i] = rows[i][j] as f64; if rows[i][j] != 0 { v[i][3] = -(rows[i][j] as f64 * eye[j]); } } m[i][3] = eye[i]; }
        v[3][3] = 1.0; m[3][3] = 1.0;
        (v, m)
    };
    let (vl, ml) = build(cross_i(&u, &f), f);
    let (vr, mr) = build(cross_i(&f, &u), nf);
    [vl, vr, ml, mr]
}
fn eq4<T: Fl>(g: &A<T, 4>, w: &A<f64, 4>) -> bool { (0..4).all(|i| (0..4).all(|j| g[i][j].d() == w[i][j])) }
fn jf4<T: Fl>(g: &A<T, 4>) -> Value { json!(g.iter().map(|r| r.iter().map(|x| x.d()).collect::<Vec<f64>>()).collect::<Vec<_>>()) }

fn look_axis_exact<T: FlX>(s: &Section) {
    s.require_classes(&["view length nearly one (within 8 ulp, not one)", "perpendicular part of up nearly one (within 8 ulp, not one)", "view length with c * (1/c) != 1 in the type",
        "narrow angle: |p| <= 2^-20 |q|", "narrow angle: sin^2 below the type's epsilon", "view shorter than epsilon", "view longer than 2^LIM / 8", "up perpendicular part below epsilon", "non-dyadic length",
        "eye lane far from the origin, short view", "eye lane near the origin, far target (difference rounds)", "view along x", "view along y", "view along z", "view against the axis", "up against the axis",
        "eye lanes huge / subnormal", "reference agrees with the Gram-Schmidt reference on an integer camera"]);
    let th = s.thorough();
    let (al, core) = awkward::<T>(th);
    // machinery: the sign-only reference against the surd reference on integer cameras of all 24 configurations
    for a in 0..3 { for b in 0..3 { if a == b { continue; } for sd in [1, -1] { for sp in [1, -1] {
        let e: P = [1, -2, 3]; let mut t = e; t[a] += 2 * sd; let mut up: P = [0; 3]; up[b] = 3 * sp; up[a] = 1;
        let (vl, ml, _, _) = ref_view(&e, &t, &up, true); let (vr, mr, _, _) = ref_view(&e, &t, &up, false);
        let w = axis_want(a, b, sd, sp, &[1.0, -2.0, 3.0]);
        if [shadow4(&vl), shadow4(&vr), shadow4(&ml), shadow4(&mr)] != w { s.rep.machinery_error(format!("axis reference differs from the Gram-Schmidt reference at a={} b={} sd={} sp={}", a, b, sd, sp)); }
        s.class("reference agrees with the Gram-Schmidt reference on an integer camera");
    } } } }
    // (eye lane, target lane) along the view axis: (0, +-c) for every alphabet value, then pairs away from the origin whose difference is
    // whatever the type's subtraction makes of it (the oracle only needs its sign)
    let mut vps: Vec<(f64, f64, bool)> = Vec::new();
    for (n, &c) in al.iter().enumerate() { vps.push((0.0, c, n < core)); vps.push((0.0, -c, n < core)); }
    let far: Vec<(f64, f64)> = vec![(T::r(0.1), T::r(1.1)), (T::r(0.3), T::r(1.3)), (T::r(-0.7), T::r(0.3)), (T::r(100.1), T::r(101.1)), (3.0, p2(30)), (p2(30), 3.0), (1e6, 1e6 + 0.5),
        (T::r(-1e-3), T::r(1e-3)), (p2(20) + 1.0, p2(20)), (T::r(2.3), T::bump(T::r(2.3), 1)), (-5.0, p2(22) + 1.0), (T::r(1e6 + 0.25), T::r(1e6 - 0.75))];
    for &(x, y) in &far { vps.push((x, y, true)); vps.push((y, x, true)); }
    let qs: Vec<f64> = if th { vec![0.0, 1.0, -3.0 * p2(20), T::r(0.3), p2(T::LIM - 2)] } else { vec![0.0, 1.0, -3.0 * p2(20)] };
    let mut eos: Vec<(f64, f64)> = vec![(T::r(0.1), -T::r(2.3)), (-3.0 * p2(T::LIM), T::MINSUB)];
    if th { eos.push((0.0, 0.0)); eos.push((T::r(1e6 + 0.25), -T::r(1.0 / 3.0))); }
    let sites: Vec<Vec<String>> = (0..2).map(|lay| (0..6).map(|f| format!("{}<{}>", site(lay, f), T::NAME)).collect()).collect();
    let lo = p2(-T::LIM); let hi = p2(T::LIM);
    vps.par_iter().for_each(|&(ea, ta, vcore)| {
        let mut cnt = Cnt::default();
        let cd = (T::f(ta) - T::f(ea)).d(); // the view lane as the type computes it
        if !(cd.abs() >= lo && cd.abs() <= hi) { s.rep.machinery_error(format!("view lane {} - {} outside the magnitude policy", ta, ea)); return; }
        let sd = if ta > ea { 1 } else { -1 };
        let one = T::f(1.0);
        let recip_unsafe = (T::f(cd) * (one / T::f(cd))).d() != 1.0;
        for (pn, &pa) in al.iter().enumerate() {
            let _ = vcore; // (the quick tier used to restrict one factor to the core prefix; the section is cheap enough for the full product)
            for sp in [1i32, -1] { for &q in &qs { for (eon, &(eb, ec)) in eos.iter().enumerate() { for a in 0..3usize { for bsel in 0..2usize {
                let b = [[1, 2], [0, 2], [0, 1]][a][bsel]; let c = 3 - a - b;
                let p = pa * sp as f64;
                let (mut e, mut t, mut u) = ([0.0f64; 3], [0.0f64; 3], [0.0f64; 3]);
                e[a] = ea; e[b] = eb; e[c] = ec; t = { t[a] = ta; t[b] = eb; t[c] = ec; t }; u[b] = p; u[a] = q;
                cnt.triples += 1; if cd.abs() != 1.0 || pa != 1.0 { cnt.nontrivial += 1; }
                // classes
                let near1 = |x: f64| x != 1.0 && (x - 1.0).abs() <= 8.0 * T::EPS;
                if near1(cd.abs()) { cnt.hit("view length nearly one (within 8 ulp, not one)"); }
                if near1(pa) { cnt.hit("perpendicular part of up nearly one (within 8 ulp, not one)"); }
                if recip_unsafe { cnt.hit("view length with c * (1/c) != 1 in the type"); }
                if q != 0.0 && pa <= p2(-20) * q.abs() { cnt.hit("narrow angle: |p| <= 2^-20 |q|"); if (pa / q.abs()) * (pa / q.abs()) < T::EPS { cnt.hit("narrow angle: sin^2 below the type's epsilon"); } }
                if cd.abs() < T::EPS { cnt.hit("view shorter than epsilon"); } if cd.abs() >= hi / 8.0 { cnt.hit("view longer than 2^LIM / 8"); }
                if pa < T::EPS { cnt.hit("up perpendicular part below epsilon"); }
                if Q::from_f64(cd).map_or(true, |x| x.d > (1i128 << 20)) && cd.abs() > 1e-3 && cd.abs() < 1e3 { cnt.hit("non-dyadic length"); }
                if ea.abs() >= 1e5 && cd.abs() <= 2.0 { cnt.hit("eye lane far from the origin, short view"); }
                if ea != 0.0 && ea.abs() <= 8.0 && cd.abs() >= p2(20) { cnt.hit("eye lane near the origin, far target (difference rounds)"); }
                cnt.hit(["view along x", "view along y", "view along z"][a]);
                if sd < 0 { cnt.hit("view against the axis"); } if sp < 0 { cnt.hit("up against the axis"); }
                if eb.abs() > hi { cnt.hit("eye lanes huge / subnormal"); }
                let want = axis_want(a, b, sd, sp, &e);
                let (ef, tf, uf) = ([T::f(e[0]), T::f(e[1]), T::f(e[2])], [T::f(t[0]), T::f(t[1]), T::f(t[2])], [T::f(u[0]), T::f(u[1]), T::f(u[2])]);
                let inp = || json!({"eye": e, "target": t, "up": u, "type": T::NAME});
                for lay in 0..2 { for f in 0..6 {
                    let Some(g) = s.call(&sites[lay][f], inp, || call6::<T>(lay, f, &ef, &tf, &uf)) else { continue };
                    let cands: &[usize] = match f { 0 => &[0], 1 => &[1], 2 => &[2], 3 => &[3], 4 => &[0, 1], _ => &[2, 3] };
                    if !cands.iter().any(|&k| eq4(&g, &want[k])) {
                        let w = (pn as u64) + if q == 0.0 { 0 } else { 50 } + if ea == 0.0 { 0 } else { 100 } + 200 * eon as u64 + if sp < 0 { 2 } else { 0 } + a as u64 + bsel as u64;
                        emit(s, &sites[lay][f], "not-exact-on-axis-aligned-camera", w, || json!({"input": inp(), "got": jf4(&g), "want (exact: signed permutation, translation = -+ eye lane)": want[cands[0]],
                            "view_lane_as_computed": cd, "why_exact": "sqrt(c*c) = |c| and c/|c| = +-1 in binary floating point when c*c neither overflows nor underflows; every other product has a factor 0 or +-1"}));
                    }
                } }
            } } } } }
        }
        cnt.flush(s, 12);
    });
    s.meta("alphabet", json!({"lengths (view lane and perpendicular part of up)": al, "core_prefix": core, "view_lane_pairs_away_from_origin": far, "up_component_along_the_view": qs, "other_eye_lanes": eos,
        "magnitude_policy": format!("2^-{} <= |length| <= 2^{}", T::LIM, T::LIM)}));
    s.sample(json!({"eye": [0.0, T::r(0.1), -T::r(2.3)], "target": [T::bump(1.0, 1), T::r(0.1), -T::r(2.3)], "up": [-3.0 * p2(20), p2(-30), 0.0], "type": T::NAME,
        "look_at_rh (row-major)": jf4(&call6::<T>(0, 1, &[T::f(0.0), T::f(0.1), T::f(-2.3)], &[T::f(T::bump(1.0, 1)), T::f(0.1), T::f(-2.3)], &[T::f(-3.0 * p2(20)), T::f(p2(-30)), T::f(0.0)]))}));
}

/// entry-wise judgement of the float tiers: linear part within 256 eps kappa, translation (reference * tr_mul) within 256 eps kappa |eye|_1 tr_mul, last row exact
fn judge<T: Fl>(g: &A<T, 4>, want: &A<f64, 4>, kappa: f64, tr_mul: f64, eye1: f64) -> (bool, f64) {
    let mut ok = g[3][0].d() == 0.0 && g[3][1].d() == 0.0 && g[3][2].d() == 0.0 && g[3][3].d() == 1.0;
    let mut wst = 0.0f64;
    for i in 0..3 { for j in 0..4 {
        let (wv, sc) = if j < 3 { (want[i][j], kappa) } else { (want[i][3] * tr_mul, kappa * eye1 * tr_mul) };
        if !g[i][j].close(wv, sc) { ok = false; }
        if sc > 0.0 { let dd = (g[i][j].d() - wv).abs() / sc; if dd > wst || dd.is_nan() { wst = dd; } }
    } }
    (ok, wst)
}
fn best_of(rs: &[(bool, f64)]) -> (bool, f64) { rs.iter().cloned().fold((false, f64::INFINITY), |a, b| if b.0 && !a.0 { b } else if a.0 && !b.0 { a } else if b.1 < a.1 { b } else { a }) }

/// general position, derived bound. Part 1: eye * 2^ke, target = eye * 2^ke + d * 2^kd (exactly representable, checked), up unscaled: the
/// linear part is the one of the unscaled triple, the translation the unscaled one times 2^ke. Part 2: narrow angles, d = N B + o1,
/// up = +-N B + o2 (kappa ~ N), with up and the positions also scaled down by N.
fn look_float_mixed<T: FlX>(s: &Section) {
    s.require_classes(&["eye far, view short (close points far from the origin)", "eye near, view long (far target)", "narrow angle, up almost along the view", "narrow angle, up almost against the view",
        "narrow angle, |up| of order one", "kappa >= 2^8", "eye off origin"]);
    let th = s.thorough();
    let dl: i32 = if T::NAME == "f32" { 12 } else { 30 };
    let mut scales: Vec<(i32, i32)> = vec![(dl, 0), (0, dl), (dl - 4, -4), (-4, dl - 4)];
    if th { let d2 = dl * 3 / 2; scales.extend([(d2, 0), (0, d2), (-dl, -2 * dl), (3, 3 - dl)]); }
    let sites: Vec<Vec<String>> = (0..2).map(|lay| (0..6).map(|f| format!("{}<{}>", site(lay, f), T::NAME)).collect()).collect();
    let worst = std::sync::Mutex::new(0.0f64);
    let run = |e: &P, t: &P, up: &P, ef: [f64; 3], tf: [f64; 3], uf: [f64; 3], tr_mul: f64, kappa: f64, class: &'static str, cnt: &mut Cnt, wl: &mut f64, extra: Value| {
        for x in ef.iter().chain(tf.iter()).chain(uf.iter()) { if T::r(*x) != *x { s.rep.machinery_error(format!("input {} not representable in {}", x, T::NAME)); return; } }
        let (rv_lh, rm_lh, _, _) = ref_view(e, t, up, true);
        let (rv_rh, rm_rh, _, _) = ref_view(e, t, up, false);
        let refs = [shadow4(&rv_lh), shadow4(&rv_rh), shadow4(&rm_lh), shadow4(&rm_rh)];
        let eye1 = e.iter().map(|c| c.abs() as f64).sum::<f64>();
        cnt.triples += 1; cnt.nontrivial += 1; cnt.hit(class);
        if kappa >= 256.0 { cnt.hit("kappa >= 2^8"); } if *e != [0, 0, 0] { cnt.hit("eye off origin"); }
        let cv = |a: &[f64; 3]| [T::f(a[0]), T::f(a[1]), T::f(a[2])];
        let (e_, t_, u_) = (cv(&ef), cv(&tf), cv(&uf));
        let inp = || json!({"eye": ef, "target": tf, "up": uf, "integer triple (eye, target, up) of the reference": [e, t, up], "scaling": extra});
        for lay in 0..2 { for f in 0..6 {
            let Some(g) = s.call(&sites[lay][f], inp, || call6::<T>(lay, f, &e_, &t_, &u_)) else { continue };
            let cands: &[usize] = match f { 0 => &[0], 1 => &[1], 2 => &[2], 3 => &[3], 4 => &[0, 1], _ => &[2, 3] };
            let rs: Vec<(bool, f64)> = cands.iter().map(|&c| judge(&g, &refs[c], kappa, tr_mul, eye1)).collect();
            let best = best_of(&rs);
            if best.0 { if best.1 > *wl { *wl = best.1; } } else {
                emit(s, &sites[lay][f], "wrong-entry-at-mixed-scale-or-narrow-angle", weight(e, t, up), || json!({"input": inp(), "got": jf4(&g), "want (exact reference of the integer triple, rounded; translation column times tr_mul)": refs[cands[0]], "tr_mul": tr_mul,
                    "tolerance": "256 eps * kappa (linear part), 256 eps * kappa * |eye|_1 * tr_mul (translation), last row exact", "kappa": kappa}));
            }
        } }
    };
    // part 1: mixed scales
    let triples: Vec<(P, P, P)> = if th { let (pairs, ups) = look_space(false); let mut v = Vec::new(); for (e, t) in pairs { for u in &ups { v.push((e, t, *u)); } } v } else { small_triples(false) };
    triples.par_iter().for_each(|(e, t, up)| {
        let d = sub_i(t, e); let cr = cross_i(up, &d);
        if cr == [0, 0, 0] { return; }
        let (mut cnt, mut wl) = (Cnt::default(), 0.0f64);
        let kappa = ((dot_i(up, up) * dot_i(&d, &d)) as f64 / dot_i(&cr, &cr) as f64).sqrt();
        for &(ke, kd) in &scales {
            let (se, sdv) = (p2(ke), p2(kd));
            let ef = [e[0] as f64 * se, e[1] as f64 * se, e[2] as f64 * se];
            let tf = [ef[0] + d[0] as f64 * sdv, ef[1] + d[1] as f64 * sdv, ef[2] + d[2] as f64 * sdv]; // exact in f64 (a few bits each side of |ke - kd| <= 60)
            let uf = [up[0] as f64, up[1] as f64, up[2] as f64];
            run(e, t, up, ef, tf, uf, se, kappa, if ke > kd { "eye far, view short (close points far from the origin)" } else { "eye near, view long (far target)" }, &mut cnt, &mut wl, json!({"eye_times_2^": ke, "view_times_2^": kd}));
        }
        { let mut g = worst.lock().unwrap(); if wl > *g { *g = wl; } }
        cnt.flush(s, 12);
    });
    // part 2: narrow angles
    let n: i32 = if T::NAME == "f32" { 10 } else { 12 };
    let big = 1i32 << n;
    let bases: Vec<P> = if th { vec![[0, 0, 1], [1, 1, 0], [1, -2, 2], [0, -1, 0], [2, 1, -1], [-1, 0, 0], [1, 1, 1]] } else { vec![[0, 0, 1], [1, 1, 0], [1, -2, 2], [0, -1, 0]] };
    let o1s: [P; 3] = [[0, 0, 0], [1, 0, 0], [0, 1, -1]];
    let o2s: [P; 5] = [[0, 1, 0], [1, 0, 0], [1, -1, 1], [0, 0, 1], [-1, 2, 0]];
    let eyes: [P; 2] = [[0, 0, 0], [1, -2, 1]];
    let mut work: Vec<(P, P, P, bool)> = Vec::new();
    for b in &bases { for o1 in &o1s { for o2 in &o2s { for anti in [false, true] { for e in &eyes {
        let d = [big * b[0] + o1[0], big * b[1] + o1[1], big * b[2] + o1[2]];
        let sg = if anti { -1 } else { 1 };
        let up = [sg * big * b[0] + o2[0], sg * big * b[1] + o2[1], sg * big * b[2] + o2[2]];
        if cross_i(&up, &d) == [0, 0, 0] { continue; }
        work.push((*e, [e[0] + d[0], e[1] + d[1], e[2] + d[2]], up, anti));
    } } } } }
    work.par_iter().for_each(|(e, t, up, anti)| {
        let d = sub_i(t, e); let cr = cross_i(up, &d);
        let (mut cnt, mut wl) = (Cnt::default(), 0.0f64);
        let l2 = |v: &P| v.iter().map(|&c| (c as f64) * (c as f64)).sum::<f64>();
        let kappa = (l2(up) * l2(&d) / l2(&cr)).sqrt();
        for (kp, ku) in [(0, 0), (0, -n), (-n, -n), (-n, 0)] {
            let (sp_, su) = (p2(kp), p2(ku));
            let ef = [e[0] as f64 * sp_, e[1] as f64 * sp_, e[2] as f64 * sp_];
            let tf = [t[0] as f64 * sp_, t[1] as f64 * sp_, t[2] as f64 * sp_];
            let uf = [up[0] as f64 * su, up[1] as f64 * su, up[2] as f64 * su];
            if ku != 0 { cnt.hit("narrow angle, |up| of order one"); }
            run(e, t, up, ef, tf, uf, sp_, kappa, if *anti { "narrow angle, up almost against the view" } else { "narrow angle, up almost along the view" }, &mut cnt, &mut wl, json!({"positions_times_2^": kp, "up_times_2^": ku}));
        }
        { let mut g = worst.lock().unwrap(); if wl > *g { *g = wl; } }
        cnt.flush(s, 12);
    });
    s.meta("worst_observed_error_in_eps_times_scale", json!(*worst.lock().unwrap() / T::EPS));
    s.meta("allowed_eps_times_scale", json!(vx::fl::K));
    s.meta("alphabet", json!({"mixed_scale_triples": triples.len(), "(eye exponent, view exponent)": scales, "narrow": {"N": big, "base_directions": bases, "view_offsets": o1s, "up_offsets": o2s, "eyes": eyes, "cases": work.len(), "(positions exponent, up exponent)": [[0, 0], [0, -n], [-n, -n], [-n, 0]]}}));
    s.sample(json!({"eye": [p2(dl), -2.0 * p2(dl), p2(dl)], "target": [p2(dl) + 1.0, -2.0 * p2(dl), p2(dl) - 1.0], "up": [0, 1, 0], "type": T::NAME, "note": "close points far from the origin: target - eye is exact, |target|^2 + |eye|^2 - 2 target.eye is not"}));
}

/// change of basis on the 48 exactly orthonormal float bases (signed permutations) x origins of mixed awkward magnitudes: every product has a factor
/// 0 or +-1, so local_to_basis AND basis_to_local are exact: B = [rows | -+ origin lane]
fn basis_exact<T: FlX>(s: &Section) {
    s.require_classes(&["proper (det +1)", "mirror (det -1)", "origin lanes of mixed magnitude (ratio >= 2^60)", "origin lane subnormal", "origin lane at the type's maximum", "origin lane non-dyadic", "identity basis"]);
    let mut ol: Vec<f64> = vec![0.0, T::r(0.1), -T::r(2.3), p2(T::LIM / 2), -p2(-T::LIM / 2), T::MINSUB, -T::MAXV, T::bump(1.0, 1)];
    if s.thorough() { ol.extend([3.0, -T::MINPOS, T::EPS / 2.0, T::r(1e6 + 0.25), -T::r(1e-6), p2(T::LIM)]); }
    let perms: [[usize; 3]; 6] = [[0, 1, 2], [0, 2, 1], [1, 0, 2], [1, 2, 0], [2, 0, 1], [2, 1, 0]];
    let mut bases: Vec<([usize; 3], [i32; 3])> = Vec::new();
    for p in perms { for sg in 0..8 { bases.push((p, [if sg & 1 == 0 { 1 } else { -1 }, if sg & 2 == 0 { 1 } else { -1 }, if sg & 4 == 0 { 1 } else { -1 }])); } }
    let origins: Vec<[f64; 3]> = { let mut v = Vec::new(); for &a in &ol { for &b in &ol { for &c in &ol { v.push([a, b, c]); } } } v };
    let st_l: Vec<String> = (0..2).map(|lay| format!("{}<{}>", bsite(lay, "local_to_basis"), T::NAME)).collect();
    let st_b: Vec<String> = (0..2).map(|lay| format!("{}<{}>", bsite(lay, "basis_to_local"), T::NAME)).collect();
    bases.par_iter().for_each(|(p, sg)| {
        let mut cnt = Cnt::default();
        let vecs: Vec<[f64; 3]> = (0..3).map(|r| { let mut v = [0.0f64; 3]; v[p[r]] = sg[r] as f64; v }).collect(); // i, j, k
        let parity = { let mut inv = 0; for a in 0..3 { for b in a + 1..3 { if p[a] > p[b] { inv += 1; } } } if inv % 2 == 0 { 1 } else { -1 } } * sg[0] * sg[1] * sg[2];
        let cvt = |a: &[f64; 3]| [T::f(a[0]), T::f(a[1]), T::f(a[2])];
        let (i, j, k) = (cvt(&vecs[0]), cvt(&vecs[1]), cvt(&vecs[2]));
        for o in &origins {
            cnt.triples += 1; if *o != [0.0; 3] { cnt.nontrivial += 1; }
            cnt.hit(if parity > 0 { "proper (det +1)" } else { "mirror (det -1)" });
            if *p == [0, 1, 2] && *sg == [1, 1, 1] { cnt.hit("identity basis"); }
            let nzs: Vec<f64> = o.iter().filter(|x| **x != 0.0).map(|x| x.abs()).collect();
            if nzs.len() >= 2 { let (mn, mx) = (nzs.iter().cloned().fold(f64::INFINITY, f64::min), nzs.iter().cloned().fold(0.0, f64::max)); if mx / mn >= p2(60) { cnt.hit("origin lanes of mixed magnitude (ratio >= 2^60)"); } }
            if o.iter().any(|x| *x != 0.0 && x.abs() < T::MINPOS) { cnt.hit("origin lane subnormal"); }
            if o.iter().any(|x| x.abs() == T::MAXV) { cnt.hit("origin lane at the type's maximum"); }
            if o.iter().any(|x| *x == T::r(0.1) || *x == -T::r(2.3)) { cnt.hit("origin lane non-dyadic"); }
            let of = cvt(o);
            let mut wl = [[0.0f64; 4]; 4]; let mut wb = [[0.0f64; 4]; 4];
            for r in 0..3 { for c in 0..3 { wl[r][c] = vecs[c][r]; wb[r][c] = vecs[r][c]; } wl[r][3] = o[r]; wb[r][3] = -(sg[r] as f64 * o[p[r]]); }
            wl[3][3] = 1.0; wb[3][3] = 1.0;
            let inp = || json!({"origin": o, "i": vecs[0], "j": vecs[1], "k": vecs[2], "type": T::NAME});
            let w = o.iter().filter(|x| **x != 0.0).count() as u64;
            for lay in 0..2 {
                if let Some(g) = s.call(&st_l[lay], inp, || l2b::<T>(lay, &of, &i, &j, &k)) { if !eq4(&g, &wl) { emit(s, &st_l[lay], "not-exact-on-signed-permutation-basis", w, || json!({"input": inp(), "got": jf4(&g), "want": wl})); } }
                if let Some(g) = s.call(&st_b[lay], inp, || b2l::<T>(lay, &of, &i, &j, &k)) { if !eq4(&g, &wb) { emit(s, &st_b[lay], "not-exact-on-signed-permutation-basis", w, || json!({"input": inp(), "got": jf4(&g), "want (rows i, j, k; translation = -+ origin lane, exact)": wb})); } }
            }
        }
        cnt.flush(s, 4);
    });
    s.meta("alphabet", json!({"bases": bases.len(), "origin_lane_values": ol, "origins": origins.len(), "layouts": 2}));
    s.sample(json!({"i": [0, 0, -1], "j": [1, 0, 0], "k": [0, -1, 0], "origin": [p2(T::LIM / 2), T::MINSUB, T::r(0.1)], "type": T::NAME}));
}

fn main() {
    let rep = Report::start("C09", "exploration");
    let th = rep.thorough();

    // ---- 0. helper type ------------------------------------------------------------------------------
    rep.section("helper self-check: the surd field Sd (not vek)",
        "the exact type the look-at sections run vek on: for every n in 0..=4000 sqrt(n) = k sqrt(s) with k^2 s = n, s squarefree, and sqrt(n)^2 == n; for all pairs of small field elements a,b (products of 1, sqrt2, sqrt3, sqrt5, sqrt6 and sums of two): (a*b)/b == a, a+b-b == a, sign(a) agrees with the f64 value, sign(a*a) > 0; a failure is a machinery error; non-trivial: irrational operands", true, false, |s| {
        s.require_classes(&["perfect square", "irrational root"]);
        for n in 0..=4000i128 {
            let r = Sd::sqrt_q(Q::int(n));
            s.eval(r.as_q().is_none());
            s.class(if r.as_q().is_some() { "perfect square" } else { "irrational root" });
            let ok = r * r == Sd::int(n) && r.sign() >= 0 && r.n <= 1 && (n == 0 || { let (rad, c) = r.t[0]; square_part(rad as u128).0 == 1 && c.d == 1 });
            if !ok { s.rep.machinery_error(format!("Sd::sqrt wrong for {}", n)); }
        }
        let roots: Vec<Sd> = [1, 2, 3, 5, 6].iter().map(|&n| Sd::sqrt_q(Q::int(n))).collect();
        let mut elems: Vec<Sd> = Vec::new();
        for a in &roots { for c in [q(1, 1), q(-2, 3), q(5, 7)] { elems.push(*a * Sd::rat(c.rat())); } }
        let singles = elems.clone();
        for a in &singles { for b in &singles { if a.t[0].0 != b.t[0].0 { elems.push(*a + *b); } } }
        for a in &elems { for b in &elems {
            s.eval(true);
            let r = catch(|| (*a * *b) / *b == *a && (*a + *b) - *b == *a && (*a * *a).sign() > 0 && (a.n > 2 || (a.sign() as f64) * a.shadow() > 0.0) && (*a - *a).sign() == 0);
            match r { Ok(true) => {}, Ok(false) => s.rep.machinery_error(format!("Sd field law fails for {:?}, {:?}", a, b)), Err(Caught::Unmodelled(_)) => s.unmodelled("Sd self-check beyond 4 radicals"), Err(e) => s.rep.machinery_error(format!("Sd panicked: {:?}", e)) }
        } }
        s.sample(json!({"sqrt(12)": jd(&Sd::sqrt_q(Q::int(12))), "sqrt(2)*sqrt(6)": jd(&(roots[1] * roots[4])), "1/(sqrt2+sqrt3)": jd(&(Sd::int(1) / (roots[1] + roots[2])))}));
        s.meta("elements_in_pair_test", json!(elems.len()));
    });

    // ---- 1. look-at, exact ---------------------------------------------------------------------------
    rep.section("look-at: exact over the surd field, every integer camera triple of the box",
        "every (eye, target, up) of the tier's space - thorough: (eye, target, up) in ({-2..2}^3)^3 united with eye in {-5,0,3}^3, target-eye in {-3..3}^3, up in {-2..2}^3; quick: eye in {-2,0,1}^3, target-eye in {-2..2}^3, up in {-1..1}^3 + six longer vectors (see meta) - kept when target != eye and up x (target-eye) != 0; the six builders (look_at_lh/rh, model_look_at_lh/rh, the two deprecated aliases) x both layouts run on Sd (exact sums of rational multiples of square roots, so BOTH normalisations are exact for every triple) and decoded by field access. Clauses, compared with == in the field: last row (0,0,0,1); R R^T = I; det R = +1; M(eye,1) = (0,0,0,1); M(target,1) = (0,0,+|target-eye|,1) for lh, (0,0,-|target-eye|,1) for rh, either sign for the deprecated alias; M(up,0) has x = 0 and y > 0 (exact sign); model*view = I = view*model with vek's own view of the same handedness (deprecated model with deprecated view); model(0,0,0,1) = (eye,1). Column-major results are compared entry-wise with the row-major ones and re-judged when they differ. A matrix accepted by the clauses must equal the independent Gram-Schmidt reference (else machinery error). Triples whose two radicands are perfect squares are re-run on the harness' X type and must agree. An evaluation = one builder call in one layout; non-trivial: not (eye = 0 and view axis-aligned and up axis-aligned)",
        true, false, look_exact);

    // ---- 2. look-at, floats --------------------------------------------------------------------------
    let rule_f = "the same triples as the exact section: the six builders x both layouts on the float type vs the exact Gram-Schmidt reference matrix (surd field, rounded once to f64), entry-wise |got - want| <= 256 eps * scale, scale = (1 + |eye|_1) * kappa with kappa = |up||d| / |up x d| >= 1 the condition number of the normalised cross product (derivation: f has relative error <= 3 eps; each component of up x f is a difference of two rounded products, absolute error <= 8 eps |up|; dividing by |up x f| = |up| / kappa gives <= ~12 eps kappa on s and u; the translation entries are 3-term dot products with eye, <= ~16 eps kappa |eye|_1); the deprecated aliases may match the reference of either handedness; non-trivial as in the exact section";
    rep.section("look-at: f64 tier", rule_f, true, false, look_float::<f64>);
    rep.section("look-at: f32 tier", rule_f, true, false, look_float::<f32>);

    // ---- 3. change of basis: premise -----------------------------------------------------------------
    let degs = std::sync::Mutex::new((99u32, 99u32));
    rep.section("premise: local_to_basis / basis_to_local are branch-free polynomial maps",
        "one run of each builder in each layout on tropical degree values (every comparison, cast or sqrt panics): entry degree in the 12 inputs; non-trivial: all", true, true, |s| {
        let (dl, db) = basis_degrees(s);
        *degs.lock().unwrap() = (dl, db);
        s.meta("measured_degree", json!({"local_to_basis": dl, "basis_to_local": db}));
        s.sample(json!({"builder": "basis_to_local", "inputs": "12 degree-1 variables", "measured_entry_degree": db}));
        if dl > 1 || db > 2 { s.degrade("measured degree above the one the lattice orders below are derived from"); }
    });
    let (dl_measured, db_measured) = *degs.lock().unwrap();
    // robustness (audit round 2): a builder that is not branch-free ring arithmetic measures as degree 99, which used to turn the two
    // lattices below into L(15,102) / L(7,300) (the run never ended instead of judging). Fall back to the nominal degrees (1, 2) and
    // mark the sections as no longer complete; on the unchanged tree nothing changes.
    let premise_ok = dl_measured <= 1 && db_measured <= 2;
    let (dl, db) = if premise_ok { (dl_measured, db_measured) } else { (1, 2) };

    // ---- 4. local_to_basis as a polynomial identity --------------------------------------------------
    let extra = if th { 4 } else { 2 };
    let d_map = dl + 1 + extra;
    rep.section("local_to_basis: origin and unit axes (and every point) land where stated",
        "all points of the simplex lattice L(15, D): 12 coordinates of (origin, i, j, k) and 3 of a point p, small non-negative integers with sum <= D; the claim M (p,1) = origin + p_x i + p_y j + p_z k is a polynomial identity of degree (measured entry degree 1) + 1 = 2, so D >= 2 decides it for all real inputs, orthonormal or not; run at D = 2+2 (quick) / 2+4 (thorough); clauses: last row (0,0,0,1), M(0,1) = (origin,1), M(e_x,1) = (origin+i,1), M(e_y,1) = (origin+j,1), M(e_z,1) = (origin+k,1), general p; both layouts; non-trivial: origin != 0 and at least one basis vector != 0", true, true, |s| {
        s.require_classes(&["origin off zero", "skew (non-orthogonal) basis", "general point"]);
        if dl + 1 > d_map { s.degrade("lattice order below the degree"); }
        if !premise_ok { s.degrade("premise section failed: lattice order derived from the nominal degrees (1, 2); bounded evidence only"); }
        par_lattice(15, d_map, |a| {
            let (o, i, j, k, p) = (xs(&a[0..3]), xs(&a[3..6]), xs(&a[6..9]), xs(&a[9..12]), xs(&a[12..15]));
            let nz = a[0..3].iter().any(|&v| v != 0) && a[3..12].iter().any(|&v| v != 0);
            let w: u64 = a.iter().sum::<i64>() as u64;
            let inp = || json!({"origin": &a[0..3], "i": &a[3..6], "j": &a[6..9], "k": &a[9..12], "p": &a[12..15]});
            for lay in 0..2 {
                s.eval(nz);
                let st = bsite(lay, "local_to_basis");
                if let Some(m) = s.call(&st, inp, || l2b::<X>(lay, &o, &i, &j, &k)) {
                    let mut f = Vec::new(); l2b_clauses(&m, &o, &i, &j, &k, &p, &mut f);
                    for cl in f { emit(s, &st, cl, w, || json!({"input": inp(), "got": jmat(&m)})); }
                }
            }
            if w == d_map as u64 && nz && a[12..15].iter().any(|&v| v != 0) && s.wants_sample() { s.sample(json!({"input": inp(), "local_to_basis(row)": jmat(&l2b::<X>(0, &o, &i, &j, &k))})); }
        });
        let mut c = [0u64; 3];
        lattice(15, d_map, |a| { if a[0..3].iter().any(|&v| v != 0) { c[0] += 1; } if dotn(&xs(&a[3..6]), &xs(&a[6..9])) != qi(0) { c[1] += 1; } if a[12..15].iter().any(|&v| v != 0) { c[2] += 1; } });
        s.class_n("origin off zero", c[0]); s.class_n("skew (non-orthogonal) basis", c[1]); s.class_n("general point", c[2]);
        s.meta("lattice", json!({"variables": 15, "order": d_map, "degree": dl + 1, "points": lattice_count(15, d_map).to_string()}));
    });

    // ---- 5. basis_to_local undoes local_to_basis: complete over O(3) x R^3 ---------------------------
    let d_inv = 3 * (dl + db) + if th { 2 } else { 0 };
    rep.section("basis_to_local undoes local_to_basis for every orthonormal basis (Euler-Rodrigues parametrisation)",
        "all points (a,b,c,d,o_x,o_y,o_z) of the simplex lattice L(7, D): the basis is the columns of the rotation of the quaternion (w,x,y,z) = (a+1,b,c,d), R = N(w,x,y,z)/n with n = w^2+x^2+y^2+z^2 >= 1 on the lattice, and its mirror image (k -> -k), which together parametrise all of O(3); origin (o_x,o_y,o_z). With the measured entry degrees dB = 2, dL = 1 (premise section: polynomial, division-free) every input times n is a polynomial of degree <= 3, so n^(dB+dL) * (B L - I) and n^(dB+dL) * (L B - I) are polynomials of degree <= 3 (dB+dL) = 9 in the 7 variables; they vanish on L(7, 9) (run at 9, thorough 11) hence identically, i.e. for every real quaternion with n != 0 = every rotation, and every origin. Oracle self-check: R^T R = I, det = +-1 (machinery error otherwise). Products are formed by the reference mmul on the decoded arrays; both layouts; the local_to_basis clauses are re-checked on these inputs; non-trivial: rotation != identity and origin != 0", true, true, |s| {
        s.require_classes(&["proper (det +1)", "mirror (det -1)", "origin off zero", "rotation about a skew axis"]);
        if 3 * (dl + db) > d_inv { s.degrade("lattice order below the degree"); }
        if !premise_ok { s.degrade("premise section failed: lattice order derived from the nominal degrees (1, 2); bounded evidence only"); }
        par_lattice(7, d_inv, |a| {
            let (w, x, y, z) = (qi(a[0] as i128 + 1), qi(a[1] as i128), qi(a[2] as i128), qi(a[3] as i128));
            let n = w * w + x * x + y * y + z * z;
            let two = qi(2);
            let r: A<X, 3> = [
                [(w * w + x * x - y * y - z * z) / n, two * (x * y - w * z) / n, two * (x * z + w * y) / n],
                [two * (x * y + w * z) / n, (w * w - x * x + y * y - z * z) / n, two * (y * z - w * x) / n],
                [two * (x * z - w * y) / n, two * (y * z + w * x) / n, (w * w - x * x - y * y + z * z) / n]];
            let o = xs(&a[4..7]);
            let nz = a[1..4].iter().any(|&v| v != 0) && a[4..7].iter().any(|&v| v != 0);
            let wt: u64 = a.iter().sum::<i64>() as u64;
            for flip in [1i128, -1] {
                let (i, j, k) = ([r[0][0], r[1][0], r[2][0]], [r[0][1], r[1][1], r[2][1]], [r[0][2] * qi(flip), r[1][2] * qi(flip), r[2][2] * qi(flip)]);
                let bm: A<X, 3> = [[i[0], j[0], k[0]], [i[1], j[1], k[1]], [i[2], j[2], k[2]]];
                if mmul(&transpose(&bm), &bm) != ident::<X, 3>() || det3(&bm) != qi(flip) { s.rep.machinery_error(format!("Euler-Rodrigues reference not orthonormal at {:?}", a)); }
                let inp = || json!({"quaternion_wxyz": [a[0] + 1, a[1], a[2], a[3]], "mirror_k": flip == -1, "origin": &a[4..7], "i": jxs(&i), "j": jxs(&j), "k": jxs(&k)});
                for lay in 0..2 { s.eval(nz); inverse_clauses(s, lay, &o, &i, &j, &k, &inp, wt, true); }
                if wt == d_inv as u64 && nz && a[1] > 0 && a[2] > 0 && a[3] > 0 && flip == -1 && s.wants_sample() { s.sample(json!({"input": inp(), "basis_to_local(row)": jmat(&b2l::<X>(0, &o, &i, &j, &k))})); }
            }
        });
        let mut c = [0u64; 3];
        lattice(7, d_inv, |a| { c[0] += 1; if a[4..7].iter().any(|&v| v != 0) { c[1] += 1; } if a[1..4].iter().filter(|&&v| v != 0).count() >= 2 { c[2] += 1; } });
        s.class_n("proper (det +1)", c[0]); s.class_n("mirror (det -1)", c[0]); s.class_n("origin off zero", 2 * c[1]); s.class_n("rotation about a skew axis", 2 * c[2]);
        s.meta("lattice", json!({"variables": 7, "order": d_inv, "degree_bound": 3 * (dl + db), "points": lattice_count(7, d_inv).to_string()}));
    });

    // ---- 6. the design's finite family: Rodrigues rotations x origins --------------------------------
    rep.section("basis_to_local undoes local_to_basis on Rodrigues bases x origins {-1,0,2}^3",
        "bases = columns of the reference Rodrigues matrix for every axis of matx::unit_axes() (rational unit vectors from Pythagorean quadruples, count in meta; quick: every 4th) x every (cos, sin) of matx::circle_points() (12 rational angles), and their mirror images (k -> -k); origins {-1,0,2}^3; both layouts: B L = I = L B and the local_to_basis clauses; a bounded cross-check of the complete section on differently generated inputs; non-trivial: rotation != identity and origin != 0", true, false, |s| {
        s.require_classes(&["proper (det +1)", "mirror (det -1)", "origin off zero", "half turn", "identity rotation"]);
        let axes: Vec<[X; 3]> = unit_axes().into_iter().enumerate().filter(|(n, _)| th || n % 4 == 0).map(|(_, a)| a).collect();
        let circ = circle_points();
        let origins: Vec<[X; 3]> = { let al = [qi(-1), qi(0), qi(2)]; let mut v = Vec::new(); for a in al { for b in al { for c in al { v.push([a, b, c]); } } } v };
        let work: Vec<(usize, usize)> = (0..axes.len()).flat_map(|a| (0..circ.len()).map(move |c| (a, c))).collect();
        work.par_iter().for_each(|&(ai, ci)| {
            let (c, sn) = circ[ci];
            let r = rodrigues(&axes[ai], c, sn);
            let idr = r == ident::<X, 3>();
            for flip in [1i128, -1] {
                let (i, j, k) = ([r[0][0], r[1][0], r[2][0]], [r[0][1], r[1][1], r[2][1]], [r[0][2] * qi(flip), r[1][2] * qi(flip), r[2][2] * qi(flip)]);
                for o in &origins {
                    let nz = !idr && *o != [qi(0); 3];
                    let inp = || json!({"axis": jxs(&axes[ai]), "cos": jx(c), "sin": jx(sn), "mirror_k": flip == -1, "origin": jxs(o), "i": jxs(&i), "j": jxs(&j), "k": jxs(&k)});
                    for lay in 0..2 { s.eval(nz); inverse_clauses(s, lay, o, &i, &j, &k, &inp, (ai + ci) as u64, true); }
                }
            }
            let n = origins.len() as u64;
            s.class_n("proper (det +1)", n); s.class_n("mirror (det -1)", n); s.class_n("origin off zero", 2 * (n - 1));
            if c == qi(-1) { s.class_n("half turn", 2 * n); } if idr { s.class_n("identity rotation", 2 * n); }
        });
        s.meta("alphabet", json!({"axes": axes.len(), "angles": circ.len(), "mirror": 2, "origins": origins.len(), "layouts": 2}));
        s.sample(json!({"axis": jxs(&axes[1]), "cos_sin": [jx(circ[4].0), jx(circ[4].1)], "rotation": jmat(&rodrigues(&axes[1], circ[4].0, circ[4].1))}));
    });

    // ---- 7. look-at, exact, rescaled / rational / far inputs -------------------------------------------
    rep.section("look-at: exact, rational and rescaled camera triples (scale laws) and far irregular triples",
        "the quantifier's coordinates are rational, not integer: every triple of a box (quick: eye in {(-2,1,0),(0,0,0),(1,-2,1)}, target-eye in {-1..1}^3 \\ 0 + the six longer vectors, up in {-1..1}^3 + the six longer vectors; thorough: the whole quick space of the first look-at section) with eye and target multiplied by c_p and up by c_u for every (c_p, c_u) of meta.scale_pairs (1/2, 1/3, 3/7 & 5/2, 6 & 1/5, 2^+-40 in opposite and equal directions, 2^20), and 4 x 5 x 5 far irregular integer triples (coordinates up to 100, unscaled and times (1/64, 1/9)); the six builders x both layouts run on the exact surd field; the literal clauses of the first look-at section are evaluated on the scaled inputs (distance = c_p |target-eye|); an accepted matrix must equal the Gram-Schmidt reference of the unscaled triple with its translation column times c_p (machinery error otherwise); integer triples can never have 0 < |target-eye| < 1 or |up| < 1, these can; non-trivial: all",
        true, false, look_exact_scaled);

    // ---- 8. look-at, floats at extreme magnitudes ---------------------------------------------------
    let rule_fs = "the triples of the float tier with eye and target multiplied by 2^kp and up by 2^ku (exact in the float type; f32: kp in {-40,-3,5,40}, ku in {-40,0,40}; f64: kp in {-400,-3,5,400}, ku in {-400,0,400}; thorough: the quick space over the finer grid that adds +-20 / +-200, 0 and -2, then the thorough space over the coarse grid; (0,0) is the float tier itself): a look-at matrix does not depend on |up| and depends on the position scale only through its translation column, and vek's own arithmetic (normalise d, cross, normalise, dot) neither overflows nor underflows at these magnitudes, so the bound of the float tier applies per entry: linear part vs the exact Gram-Schmidt reference of the unscaled triple within 256 eps kappa, translation vs reference * 2^kp within 256 eps kappa |eye|_1 2^kp, last row exactly (0,0,0,1); a rewrite that multiplies squared lengths, or compares a length with an epsilon, overflows / misfires here; the deprecated aliases may match either handedness; non-trivial: all";
    rep.section("look-at: f64 at extreme magnitudes (positions and up scaled by powers of two)", rule_fs, true, false, look_float_scaled::<f64>);
    rep.section("look-at: f32 at extreme magnitudes (positions and up scaled by powers of two)", rule_fs, true, false, look_float_scaled::<f32>);

    // ---- 9. operand forms ---------------------------------------------------------------------------
    rep.section("operand forms: every builder called with Vec4, [T; 3], (T, T, T) and Vec2 operands",
        "the eight builders are generic in V: Into<Vec3<T>> and their doc examples pass Vec4; the sections above pass Vec3 only. Look-at: every non-degenerate triple of eye in {(-2,1,0),(0,0,0),(1,-2,1)}, target-eye in {-1..1}^3 \\ 0 + six longer vectors, up in {-1..1}^3 + six longer vectors, as Vec4 with w = (1,1,0) (point, point, direction) and with junk w = (7,-3,5), as arrays, as tuples, and (triples in the z = 0 plane only) as Vec2; six builders x both layouts on the exact surd field; the decoded matrix must equal the Gram-Schmidt reference (either handedness for the deprecated aliases). Change of basis: Rodrigues bases (quick: every 8th axis; thorough: all) x 12 angles x mirror, origin (2,-1,3/2), as Vec4 (w = 1,0,-4,9), arrays and tuples, both layouts: matrix == [i j k | o] resp. [i;j;k | -i.o,-j.o,-k.o] built from the definition; audit round 3 adds the remaining members of the Into<Vec3<T>> family on the same inputs: Extent3 (w,h,d), Rgb (r,g,b), Uvw (u,v,w), mint::Vector3, mint::Point3 and the pair (Vec2, T), and local_to_basis with scalar operands (From<T>, broadcast) on three 4-tuples; non-trivial: all",
        true, false, operand_forms);

    // ---- 10. change of basis on float / integer element types ---------------------------------------
    let rule_bf = "bases = columns of the reference Rodrigues matrix (axes of matx::unit_axes(), quick: every 4th; 12 rational angles; and the mirror image k -> -k), rounded once to the float type; origins {-1,0,2}^3 times 2^k (f32: k in {-40,-3,0,40}; f64: {-400,-3,0,400}; thorough adds +-20/+-200 and 7); both layouts. local_to_basis: its 12 inputs must sit unchanged (==) in the columns i, j, k, origin, last row (0,0,0,1) - the bound T: Zero + One admits no arithmetic. basis_to_local vs the inverse of the rigid map from the definition, [R^T | -R^T o]: rows within 256 eps of i, j, k; translation within 256 eps * sum |row_c o_c| of the exactly computed (rationals from the float inputs) -row.o; last row exactly (0,0,0,1); the dot product scales exactly with 2^k, so the bound is scale-free; an epsilon snap or guard misfires on the tiny origins; non-trivial: all";
    rep.section("change of basis: f64 tier (rounded rational rotations, origins over 800 binary orders of magnitude)", rule_bf, true, false, basis_float::<f64>);
    rep.section("change of basis: f32 tier (rounded rational rotations, origins over 80 binary orders of magnitude)", rule_bf, true, false, basis_float::<f32>);
    rep.section("local_to_basis on integer element types (i32, i64, u8)",
        "local_to_basis only needs T: Zero + One, so integers are admissible element types: each of the 12 input slots takes each value of the type's alphabet (incl. MIN, MAX, 0, 1) while the other slots hold rotating fillers; both layouts; the decoded matrix must be [i j k | origin; 0 0 0 1] entry for entry; non-trivial: all", true, false, |s| {
        s.require_classes(&["i32", "i64", "u8"]);
        l2b_integers::<i32>(s); l2b_integers::<i64>(s); l2b_integers::<u8>(s);
        s.sample(json!({"type": "u8", "origin": [255, 0, 1], "i": [2, 9, 128], "j": [255, 0, 1], "k": [2, 9, 128]}));
    });

    // ---- 11. audit round 3: special values (nearly unit, nearly parallel, thresholds, non-dyadic, mixed scales) ------------
    let rule_ax = "cameras whose view direction is along a coordinate axis a (either sense) and whose up vector lies in a coordinate plane containing it, up = p e_b + q e_a: view lane pairs (eye_a, target_a) = (0, +-c) for every c of meta.alphabet (around 1 by 1..8 ulp, 1 +- 2^-10, 1e-3..1e-16 and the type's epsilon, 4 epsilon, sqrt epsilon, epsilon^2 each with both neighbours, non-dyadic decimals, integers whose reciprocal does not multiply back to 1, 2^+-LIM/2, 2^+-LIM) plus pairs away from the origin (0.1 -> 1.1, 1e6 -> 1e6 + 0.5, 3 -> 2^30 and reversed, ...); |p| over the same alphabet, both signs; q in {0, 1, -3*2^20} (thorough: + 0.3, 2^(LIM-2)), i.e. angles between up and the view down to 2^-LIM; the other two eye lanes (0.1, -2.3) or (-3*2^LIM, smallest subnormal); all 6 (a, b) x senses; the full product in both tiers (thorough: longer alphabets: integers 2..200, n/61, 1 + n/1000). ORACLE, exact: in binary floating point sqrt(c*c) = |c| and c/|c| = +-1 whenever c*c neither overflows nor underflows (magnitude policy 2^-LIM <= |c|,|p| <= 2^LIM, LIM = 60 for f32, 500 for f64), up x f has the single non-zero lane -+p because every other product has a factor 0, and each translation entry is one eye lane times +-1 plus zeros; hence view = [s; u; +-f | -+eye lanes] with s, u, f signed unit axes from the signs alone (f = sgn(target_a - eye_a) e_a, u = sgn(p) e_b, s = u x f lh / f x u rh), compared with == entry by entry (either handedness for the deprecated aliases), model likewise; nothing here depends on a tolerance, so a skipped normalisation of a nearly-unit vector, a multiplication by a rounded reciprocal, an epsilon guard on the raw cross product or on a squared length, or a square root of a rounded difference all show; non-trivial: |c| != 1 or |p| != 1";
    rep.section("look-at: f64, axis-aligned cameras with awkward magnitudes (exact by construction)", rule_ax, true, false, look_axis_exact::<f64>);
    rep.section("look-at: f32, axis-aligned cameras with awkward magnitudes (exact by construction)", rule_ax, true, false, look_axis_exact::<f32>);
    let rule_mx = "general position, derived bound of the float tier (linear part within 256 eps kappa of the exact Gram-Schmidt reference of the integer triple, translation within 256 eps kappa |eye|_1 2^ke of reference * 2^ke, last row exact; kappa = |up||d|/|up x d|). Part 1, mixed scales: integer triples (quick: 3 eyes x 32 views x 33 ups; thorough: the quick look-at space) with eye * 2^ke and target = eye * 2^ke + (target - eye) * 2^kd, exactly representable (checked), for (ke, kd) in meta: D = 12 (f32) / 30 (f64): (D,0) (0,D) (D-4,-4) (-4,D-4), thorough + (3D/2,0) (0,3D/2) (-D,-2D) (3,3-D): vek's target - eye is exact, so the reference linear part is the unscaled one and the translation scales with 2^ke; a squared distance expanded as |t|^2 + |e|^2 - 2 t.e, or a translation taken through the target, loses every digit here. Part 2, narrow angles: d = N B + o1, up = +-N B + o2 (N = 2^10 f32 / 2^12 f64, B a small integer direction, o1, o2 small offsets, kappa of order N), unscaled and with up and/or the positions times 1/N (|up| of order one); the bound scales with kappa, a formula whose error scales with kappa^2 (|up x f| = sqrt(|up|^2 - (up.f)^2)) does not fit; non-trivial: all";
    rep.section("look-at: f64, eye and view at different scales, narrow angles (general position)", rule_mx, true, false, look_float_mixed::<f64>);
    rep.section("look-at: f32, eye and view at different scales, narrow angles (general position)", rule_mx, true, false, look_float_mixed::<f32>);
    let rule_be = "the 48 signed permutation matrices are the float bases that are orthonormal exactly; for each, origins = all triples over the lane alphabet {0, 0.1, -2.3, 2^(LIM/2), -2^(-LIM/2), smallest subnormal, -MAX, 1 + ulp} (thorough: + 3, -MIN_POSITIVE, eps/2, 1e6+0.25, -1e-6, 2^LIM), i.e. lanes of wildly different magnitude in one origin; both layouts. Exact oracle (every product has a factor 0 or +-1, no squaring, so no magnitude restriction): local_to_basis == [i j k | origin], basis_to_local == [i; j; k | -(+-origin lane)], last rows (0,0,0,1), compared with ==; a translation snapped or guarded relative to the other lanes, or rebuilt by adding and subtracting a larger term, shows; non-trivial: origin != 0";
    rep.section("change of basis: f64, signed-permutation bases x origins of mixed awkward magnitudes (exact)", rule_be, true, false, basis_exact::<f64>);
    rep.section("change of basis: f32, signed-permutation bases x origins of mixed awkward magnitudes (exact)", rule_be, true, false, basis_exact::<f32>);

    rep.extra("violations_counted_but_not_materialised", json!(NOT_MATERIALISED.load(Relaxed)));
    std::process::exit(rep.finish());
}
