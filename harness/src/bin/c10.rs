//! C10 — viewport projection, unprojection and the picking matrix are consistent.
//!
//! Oracle (plain arrays, never a vek call): clip = P·(MV·(p,1)), ndc = clip/clip.w,
//! window = (vp.x + (ndc.x+1)/2·vp.w, vp.y + (ndc.y+1)/2·vp.h, (ndc.z+1)/2 | ndc.z);
//! unprojection must return the projected point; the picking matrix applied to the four corners of the
//! window rectangle [c-d/2, c+d/2], written in clip coordinates through the inverse viewport map, must give (±1,±1).
use num_traits::{Num, NumCast, One, ToPrimitive, Zero};
use rayon::prelude::*;
use std::cell::Cell;
use std::cmp::Ordering;
use std::ops::*;
use std::sync::atomic::{AtomicU64, Ordering::Relaxed};
use vek::geom::{FrustumPlanes, Rect};
use vek::num_traits::real::Real;
use vek::ops::MulAdd;
use vx::fr::{Deg, Fr};
use vx::lattice::*;
use vx::matx::*;
use vx::q::{angle_base_t, unmodelled};
use vx::*;

// ---------------------------------------------------------------------------------------------------
// reference pipeline, generic over the scalar (X: values, Fr: formal fractions, Deg/DegA: degrees)

trait Fld: Ring + Div<Output = Self> {}
impl<T: Ring + Div<Output = T>> Fld for T {}

#[derive(Clone, Copy, PartialEq, Eq, Debug)]
enum Fl { NO, ZO }
impl Fl { fn s(self) -> &'static str { match self { Fl::NO => "no", Fl::ZO => "zo" } } }
const FLS: [Fl; 2] = [Fl::NO, Fl::ZO];
fn lay(row: bool) -> &'static str { if row { "row" } else { "col" } }

fn two<T: Fld>() -> T { T::one() + T::one() }
/// clip = P (MV (p,1))
fn ref_clip<T: Fld>(mv: &A<T, 4>, p: &A<T, 4>, pt: &[T; 3]) -> [T; 4] { mvec(p, &mvec(mv, &[pt[0], pt[1], pt[2], T::one()])) }
/// perspective divide and viewport map (the caller guarantees clip.w != 0 where T has no 1/0)
fn ref_window<T: Fld>(clip: &[T; 4], vp: &[T; 4], fl: Fl) -> [T; 3] {
    let ndc = [clip[0] / clip[3], clip[1] / clip[3], clip[2] / clip[3]];
    [vp[0] + (ndc[0] + T::one()) / two() * vp[2], vp[1] + (ndc[1] + T::one()) / two() * vp[3], match fl { Fl::NO => (ndc[2] + T::one()) / two(), Fl::ZO => ndc[2] }]
}
/// window -> ndc -> homogeneous object coordinates through a given inverse of P·MV (before the division by w)
fn ref_unproject_h<T: Fld>(inv: &A<T, 4>, vp: &[T; 4], ray: &[T; 3], fl: Fl) -> [T; 4] {
    let nx = (ray[0] - vp[0]) / vp[2] * two() - T::one();
    let ny = (ray[1] - vp[1]) / vp[3] * two() - T::one();
    let nz = match fl { Fl::NO => ray[2] * two() - T::one(), Fl::ZO => ray[2] };
    mvec(inv, &[nx, ny, nz, T::one()])
}
/// corner (sx,sy) of the window rectangle [c-d/2, c+d/2] in clip coordinates (w = 1, depth z), mapped by m (homogeneous result)
fn pick_corner_h<T: Fld>(m: &A<T, 4>, c: &[T; 2], d: &[T; 2], vp: &[T; 4], sx: T, sy: T, z: T) -> [T; 4] {
    let wx = c[0] + sx * d[0] / two();
    let wy = c[1] + sy * d[1] / two();
    let nx = (wx - vp[0]) / vp[2] * two() - T::one();
    let ny = (wy - vp[1]) / vp[3] * two() - T::one();
    mvec(m, &[nx, ny, z, T::one()])
}

// ---------------------------------------------------------------------------------------------------
// the real calls (inputs by struct literal, outputs by field access)

fn real_w2v<T: Real + MulAdd<T, T, Output = T>>(row: bool, fl: Fl, pt: &[T; 3], mv: &A<T, 4>, p: &A<T, 4>, vp: &[T; 4]) -> [T; 3] {
    let o = Vec3 { x: pt[0], y: pt[1], z: pt[2] };
    let r = Rect { x: vp[0], y: vp[1], w: vp[2], h: vp[3] };
    let v = match (row, fl) {
        (true, Fl::NO) => rm::Mat4::world_to_viewport_no(o, r4(mv), r4(p), r),
        (true, Fl::ZO) => rm::Mat4::world_to_viewport_zo(o, r4(mv), r4(p), r),
        (false, Fl::NO) => cm::Mat4::world_to_viewport_no(o, c4(mv), c4(p), r),
        (false, Fl::ZO) => cm::Mat4::world_to_viewport_zo(o, c4(mv), c4(p), r),
    };
    dv3(&v)
}
fn real_v2w<T: Real + MulAdd<T, T, Output = T>>(row: bool, fl: Fl, ray: &[T; 3], mv: &A<T, 4>, p: &A<T, 4>, vp: &[T; 4]) -> [T; 3] {
    let o = Vec3 { x: ray[0], y: ray[1], z: ray[2] };
    let r = Rect { x: vp[0], y: vp[1], w: vp[2], h: vp[3] };
    let v = match (row, fl) {
        (true, Fl::NO) => rm::Mat4::viewport_to_world_no(o, r4(mv), r4(p), r),
        (true, Fl::ZO) => rm::Mat4::viewport_to_world_zo(o, r4(mv), r4(p), r),
        (false, Fl::NO) => cm::Mat4::viewport_to_world_no(o, c4(mv), c4(p), r),
        (false, Fl::ZO) => cm::Mat4::viewport_to_world_zo(o, c4(mv), c4(p), r),
    };
    dv3(&v)
}
/// same entry points, the point handed over as a plain array (`Into<Vec3<T>>`)
fn real_v2w_arr(row: bool, fl: Fl, ray: &[X; 3], mv: &A<X, 4>, p: &A<X, 4>, vp: &[X; 4]) -> [X; 3] {
    let r = Rect { x: vp[0], y: vp[1], w: vp[2], h: vp[3] };
    let v = match (row, fl) {
        (true, Fl::NO) => rm::Mat4::viewport_to_world_no(*ray, r4(mv), r4(p), r),
        (true, Fl::ZO) => rm::Mat4::viewport_to_world_zo(*ray, r4(mv), r4(p), r),
        (false, Fl::NO) => cm::Mat4::viewport_to_world_no(*ray, c4(mv), c4(p), r),
        (false, Fl::ZO) => cm::Mat4::viewport_to_world_zo(*ray, c4(mv), c4(p), r),
    };
    dv3(&v)
}
fn real_pick<T: Real + MulAdd<T, T, Output = T>>(row: bool, c: &[T; 2], d: &[T; 2], vp: &[T; 4]) -> A<T, 4> {
    let (cv, dv) = (Vec2 { x: c[0], y: c[1] }, Vec2 { x: d[0], y: d[1] });
    let r = Rect { x: vp[0], y: vp[1], w: vp[2], h: vp[3] };
    if row { dr4(&rm::Mat4::picking_region(cv, dv, r)) } else { dc4(&cm::Mat4::picking_region(cv, dv, r)) }
}
fn real_pick_arr(row: bool, c: &[X; 2], d: &[X; 2], vp: &[X; 4]) -> A<X, 4> {
    let r = Rect { x: vp[0], y: vp[1], w: vp[2], h: vp[3] };
    if row { dr4(&rm::Mat4::picking_region(*c, *d, r)) } else { dc4(&cm::Mat4::picking_region(*c, *d, r)) }
}

// ---------------------------------------------------------------------------------------------------
// DegA: tropical degrees that let the two documented precondition asserts of picking_region pass.
// Every ordering comparison is counted and answered "greater"; equality tests stay forbidden. A run
// with exactly the two documented comparisons is branch-free on the documented domain delta > 0.

thread_local! { static CMPS: Cell<u32> = Cell::new(0); }
/// `zero`: the value is structurally the additive identity (it came from `T::zero()` or from a product with
/// it); 0 + x = x and 0 * x = 0 hold in every ring, so these do not raise the degree.
#[derive(Clone, Copy, Debug)]
struct DegA { deg: Deg, zero: bool }
const DA_VAR: DegA = DegA { deg: Deg::VAR, zero: false };
const DA_CONST: DegA = DegA { deg: Deg::CONST, zero: false };
const DA_ZERO: DegA = DegA { deg: Deg::CONST, zero: true };
fn da(deg: Deg) -> DegA { DegA { deg, zero: false } }
impl Add for DegA { type Output = DegA; fn add(self, o: DegA) -> DegA { if self.zero { o } else if o.zero { self } else { da(self.deg + o.deg) } } }
impl Sub for DegA { type Output = DegA; fn sub(self, o: DegA) -> DegA { if self.zero { o } else if o.zero { self } else { da(self.deg - o.deg) } } }
impl Mul for DegA { type Output = DegA; fn mul(self, o: DegA) -> DegA { if self.zero || o.zero { DA_ZERO } else { da(self.deg * o.deg) } } }
impl Div for DegA { type Output = DegA; fn div(self, o: DegA) -> DegA { if o.zero { unmodelled("division by a structural zero") } else if self.zero { DA_ZERO } else { da(self.deg / o.deg) } } }
impl Rem for DegA { type Output = DegA; fn rem(self, _: DegA) -> DegA { unmodelled("DegA %") } }
impl Neg for DegA { type Output = DegA; fn neg(self) -> DegA { self } }
impl PartialEq for DegA { fn eq(&self, _: &DegA) -> bool { unmodelled("DegA == (code branches on values)") } }
impl PartialOrd for DegA { fn partial_cmp(&self, _: &DegA) -> Option<Ordering> { CMPS.with(|c| c.set(c.get() + 1)); Some(Ordering::Greater) } }
impl Zero for DegA { fn zero() -> DegA { DA_ZERO } fn is_zero(&self) -> bool { unmodelled("DegA is_zero") } }
impl One for DegA { fn one() -> DegA { DA_CONST } }
impl Num for DegA { type FromStrRadixErr = (); fn from_str_radix(_: &str, _: u32) -> Result<DegA, ()> { Err(()) } }
impl ToPrimitive for DegA { fn to_i64(&self) -> Option<i64> { unmodelled("cast of a symbolic value") } fn to_u64(&self) -> Option<u64> { unmodelled("cast of a symbolic value") } }
impl NumCast for DegA { fn from<T: ToPrimitive>(_: T) -> Option<DegA> { unmodelled("numcast to a symbolic value") } }
impl MulAdd<DegA, DegA> for DegA { type Output = DegA; fn mul_add(self, a: DegA, b: DegA) -> DegA { self * a + b } }
macro_rules! un0 { ($($f:ident),*) => { $(fn $f() -> DegA { unmodelled(stringify!($f)) })* } }
macro_rules! un1 { ($($f:ident),*) => { $(fn $f(self) -> DegA { unmodelled(stringify!($f)) })* } }
macro_rules! un2 { ($($f:ident),*) => { $(fn $f(self, _: DegA) -> DegA { unmodelled(stringify!($f)) })* } }
impl Real for DegA {
    un0!(min_value, min_positive_value, epsilon, max_value);
    un1!(floor, ceil, round, trunc, fract, abs, signum, sqrt, exp, exp2, ln, log2, log10, to_degrees, to_radians, cbrt, sin, cos, tan, asin, acos, atan, exp_m1, ln_1p, sinh, cosh, tanh, asinh, acosh, atanh);
    un2!(powf, log, max, min, abs_sub, hypot, atan2);
    fn is_sign_positive(self) -> bool { unmodelled("sign") }
    fn is_sign_negative(self) -> bool { unmodelled("sign") }
    fn mul_add(self, a: DegA, b: DegA) -> DegA { self * a + b }
    fn recip(self) -> DegA { DA_CONST / self }
    fn powi(self, n: i32) -> DegA { let mut r = DA_CONST; for _ in 0..n.unsigned_abs() { r = r * self; } if n < 0 { DA_CONST / r } else { r } }
    fn sin_cos(self) -> (DegA, DegA) { unmodelled("sin_cos") }
}

// ---------------------------------------------------------------------------------------------------
// input alphabets (reference arrays; the vek projection builders are only *generators*: their decoded
// fields are the input matrix, whatever they contain)

fn xi(v: i64) -> X { qi(v as i128) }
fn xfr(x: X) -> Fr { let r = x.rat(); Fr { n: r.n, d: r.d } }
fn map4<S: Copy, T: Copy>(a: &A<S, 4>, f: impl Fn(S) -> T) -> A<T, 4> { let mut o = [[f(a[0][0]); 4]; 4]; for i in 0..4 { for j in 0..4 { o[i][j] = f(a[i][j]); } } o }
fn ints4(v: [[i64; 4]; 4]) -> A<X, 4> { map4(&v, xi) }

#[derive(Clone)]
struct Mv { name: String, kind: &'static str, m: A<X, 4> }
#[derive(Clone)]
struct Pj { name: String, family: &'static str, m: A<X, 4> }

/// the step alphabet of C07 as textbook matrices (translation in the last column)
fn steps() -> Vec<(String, A<X, 4>)> {
    let tr = |t: [i64; 3]| { let mut m = ident::<X, 4>(); for i in 0..3 { m[i][3] = xi(t[i]); } (format!("T{:?}", t), m) };
    let sc = |n: [i128; 3], d: i128| { let mut m = ident::<X, 4>(); for i in 0..3 { m[i][i] = q(n[i], d); } (format!("S{:?}/{}", n, d), m) };
    let rot = |axis: [X; 3], c: X, s: X, name: &str| (name.to_string(), affine4(&rodrigues(&axis, c, s), &[qi(0); 3]));
    let (ex, ey, ez) = ([qi(1), qi(0), qi(0)], [qi(0), qi(1), qi(0)], [qi(0), qi(0), qi(1)]);
    vec![
        tr([3, -1, 0]), tr([1, 2, 3]), tr([-2, 0, 5]), sc([2, 1, 3], 1), sc([1, -3, 1], 2),
        rot(ex, q(3, 5), q(4, 5), "RX(3/5,4/5)"), rot(ey, q(3, 5), q(4, 5), "RY(3/5,4/5)"), rot(ez, q(-7, 25), q(-24, 25), "RZ(-7/25,-24/25)"),
        rot(ex, q(4, 5), q(-3, 5), "RX(4/5,-3/5)"), rot(ez, q(5, 13), q(12, 13), "RZ(5/13,12/13)"), rot([q(1, 3), q(2, 3), q(2, 3)], q(3, 5), q(4, 5), "R[(1,2,2)/3](3/5,4/5)"),
    ]
}
fn modelviews(depth: usize) -> Vec<Mv> {
    let st = steps();
    let mut out = vec![Mv { name: "identity".into(), kind: "identity-modelview", m: ident::<X, 4>() }];
    for (n, m) in &st { out.push(Mv { name: n.clone(), kind: "affine-modelview", m: *m }); }
    if depth >= 2 { for (n1, m1) in &st { for (n2, m2) in &st { out.push(Mv { name: format!("{} then {}", n1, n2), kind: "affine-modelview", m: mmul(m2, m1) }); } } }
    // dense, non-affine invertible matrices (the property quantifies over all invertible matrices): all 16 entries matter
    out.push(Mv { name: "dense#1".into(), kind: "general-modelview", m: ints4([[2, 1, 0, 3], [1, 3, 1, -1], [0, -2, 1, 2], [1, 0, 1, 1]]) });
    out.push(Mv { name: "dense#2".into(), kind: "general-modelview", m: ints4([[1, -2, 3, 1], [2, 1, -1, 4], [-3, 1, 2, 1], [1, 1, -1, 2]]) });
    out.push(Mv { name: "dense#3".into(), kind: "general-modelview", m: map4(&[[1i64, 2, 0, -1], [0, 1, 3, 2], [2, 0, 1, 1], [1, -1, 0, 3]], |v| q(v as i128, 2)) });
    out
}
/// projections generated by the real builders (decoded through fields) plus dense general ones
fn projections() -> (Vec<Pj>, Vec<String>) {
    let fp = |v: [i128; 6], d: i128| FrustumPlanes { left: q(v[0], d), right: q(v[1], d), bottom: q(v[2], d), top: q(v[3], d), near: q(v[4], d), far: q(v[5], d) };
    let (a, b, c) = (fp([-1, 3, -2, 1, 1, 5], 1), fp([-2, 2, -1, 1, -1, 2], 1), fp([-4, 4, -3, 3, 2, 7], 2));
    let (b1, b2) = (angle_base_t(1, 2), angle_base_t(1, 3));
    let (fov1, fov2) = (X::tok(b1, 2), X::tok(b2, 2)); // tan(fov/2) = 4/3 and 3/4
    type M = rm::Mat4<X>;
    let mut gens: Vec<(String, &'static str, Box<dyn Fn() -> M>)> = Vec::new();
    macro_rules! g { ($fam:expr, $name:expr, $e:expr) => { gens.push(($name.to_string(), $fam, Box::new(move || $e))); } }
    g!("orthographic", "orthographic_without_depth_planes(off-centre)", M::orthographic_without_depth_planes(a));
    macro_rules! planes { ($fam:expr, $f:ident, $p1:expr, $p2:expr) => { g!($fam, concat!(stringify!($f), "(off-centre)"), M::$f($p1)); g!($fam, concat!(stringify!($f), "(centred)"), M::$f($p2)); } }
    planes!("orthographic", orthographic_lh_zo, a, b); planes!("orthographic", orthographic_lh_no, a, b); planes!("orthographic", orthographic_rh_zo, a, b); planes!("orthographic", orthographic_rh_no, a, b);
    planes!("frustum", frustum_lh_zo, a, c); planes!("frustum", frustum_lh_no, a, c); planes!("frustum", frustum_rh_zo, a, c); planes!("frustum", frustum_rh_no, a, c);
    macro_rules! persp { ($f:ident) => { g!("perspective", concat!(stringify!($f), "(tan=4/3,aspect 2)"), M::$f(fov1, qi(2), qi(1), qi(5))); g!("perspective", concat!(stringify!($f), "(tan=3/4,aspect 16/9)"), M::$f(fov2, q(16, 9), q(1, 2), qi(10))); } }
    persp!(perspective_rh_zo); persp!(perspective_lh_zo); persp!(perspective_rh_no); persp!(perspective_lh_no);
    macro_rules! pfov { ($f:ident) => { g!("perspective_fov", concat!(stringify!($f), "(tan=4/3,640x480)"), M::$f(fov1, qi(640), qi(480), qi(1), qi(5))); g!("perspective_fov", concat!(stringify!($f), "(tan=3/4,3x7)"), M::$f(fov2, qi(3), qi(7), qi(2), qi(3))); } }
    pfov!(perspective_fov_rh_zo); pfov!(perspective_fov_lh_zo); pfov!(perspective_fov_rh_no); pfov!(perspective_fov_lh_no);
    let (mut out, mut failed) = (Vec::new(), Vec::new());
    for (name, family, f) in gens {
        match catch(|| f().decode()) {
            Ok(m) => match catch(|| det(&m)) { Ok(d) if d != qi(0) => out.push(Pj { name, family, m }), _ => failed.push(format!("{}: not invertible", name)) },
            Err(e) => failed.push(format!("{}: {:?}", name, e)),
        }
    }
    out.push(Pj { name: "dense-projective#1".into(), family: "general-projection", m: ints4([[2, 0, 1, 1], [1, 3, 0, -2], [0, 1, 2, 1], [1, -1, 1, 3]]) });
    out.push(Pj { name: "dense-projective#2".into(), family: "general-projection", m: map4(&[[3i64, 1, -1, 2], [0, 2, 1, 1], [1, 0, -2, 3], [2, 1, 1, -1]], |v| q(v as i128, 3)) });
    (out, failed)
}
fn viewports() -> Vec<[X; 4]> { vec![[qi(0), qi(0), qi(640), qi(480)], [qi(10), qi(-20), qi(3), qi(7)], [qi(-5), qi(5), qi(1), qi(1)]] }
/// {-r..r}^3 ordered by L1 norm (so that the first failing point of a work item is a smallest one)
fn cube(r: i64) -> Vec<[X; 3]> { let mut v = Vec::new(); for x in -r..=r { for y in -r..=r { for z in -r..=r { v.push([x, y, z]); } } } v.sort_by_key(|p| p.iter().map(|c| c.abs()).sum::<i64>()); v.into_iter().map(|p| [xi(p[0]), xi(p[1]), xi(p[2])]).collect() }

const CLS_FWD: &str = "not-the-viewport-mapped-perspective-divide";
const CLS_RT: &str = "unprojecting-the-projection-does-not-return-the-point";
const CLS_UN: &str = "not-the-inverse-of-the-projection";
const CLS_PICK: &str = "window-rectangle-not-mapped-onto-the-clip-square";
const CLS_PICK_ST: &str = "composes-scale*translate(offset-gets-scaled)-so-the-window-rectangle-misses-the-clip-square";

/// par_lattice with a deeper split: vx's splitter stops at 8 coordinates, which for n = 39 leaves a quarter of the
/// whole lattice in the single all-zero prefix; splitting on the first `k` coordinates keeps every work item small.
fn par_lattice_deep(n: usize, d: u32, k: usize, cap: u32, total: &AtomicU64, f: impl Fn(&[i64], &mut Thr) + Sync) {
    fn rec(buf: &mut [i64], pos: usize, left: u32, f: &mut dyn FnMut(&[i64])) {
        if pos == buf.len() { f(buf); return; }
        for v in 0..=left { buf[pos] = v as i64; rec(buf, pos + 1, left - v, f); }
    }
    let mut prefixes: Vec<Vec<u8>> = Vec::new();
    lattice(k, d, |p| prefixes.push(p.iter().map(|&v| v as u8).collect()));
    prefixes.sort_by_key(|p| p.iter().map(|&v| v as u32).sum::<u32>());
    prefixes.par_iter().for_each(|p| {
        let used: u32 = p.iter().map(|&v| v as u32).sum();
        let mut buf = vec![0i64; n];
        for (i, v) in p.iter().enumerate() { buf[i] = *v as i64; }
        let mut thr = Thr::new(cap, total);
        let mut g = |b: &[i64]| f(b, &mut thr);
        rec(&mut buf, k, d - used, &mut g);
    });
}
/// deterministic throttle for mass failures: every failing case is counted (reported in the section meta), each
/// sequential work item (one matrix pair / one lattice prefix) keeps the full record of its first `cap` failures per
/// site|class; work items enumerate in a fixed order, so the recorded set does not depend on scheduling
struct Thr<'a> { seen: Vec<(String, u32)>, cap: u32, total: &'a AtomicU64 }
impl<'a> Thr<'a> {
    fn new(cap: u32, total: &'a AtomicU64) -> Thr<'a> { Thr { seen: Vec::new(), cap, total } }
    fn allow(&mut self, site: &str, class: &str) -> bool {
        self.total.fetch_add(1, Relaxed);
        let key = format!("{}|{}", site, class);
        match self.seen.iter_mut().find(|e| e.0 == key) { Some(e) => { e.1 += 1; e.1 <= self.cap } None => { self.seen.push((key, 1)); true } }
    }
}

struct Cnt(Vec<(&'static str, AtomicU64)>);
impl Cnt {
    fn new(names: &[&'static str]) -> Cnt { Cnt(names.iter().map(|n| (*n, AtomicU64::new(0))).collect()) }
    fn add(&self, name: &str, n: u64) { self.0.iter().find(|e| e.0 == name).unwrap_or_else(|| panic!("undeclared counter {}", name)).1.fetch_add(n, Relaxed); }
    fn flush(&self, s: &Section) { for (n, c) in &self.0 { let v = c.load(Relaxed); if v > 0 { s.class_n(n, v); } } }
}

/// picking: check the 4 corners at 3 depths; returns the first failing corner
fn pick_bad(m: &A<X, 4>, c: &[X; 2], d: &[X; 2], vp: &[X; 4]) -> Option<serde_json::Value> {
    for z in [qi(0), qi(1), qi(-2)] { for sx in [qi(-1), qi(1)] { for sy in [qi(-1), qi(1)] {
        let h = pick_corner_h(m, c, d, vp, sx, sy, z);
        if h[3] == qi(0) { return Some(json!({"corner": jxs(&[sx, sy]), "clip_depth": jx(z), "image(homogeneous)": jxs(&h), "what": "image at infinity"})); }
        let (gx, gy) = (h[0] / h[3], h[1] / h[3]);
        if gx != sx || gy != sy { return Some(json!({"corner": jxs(&[sx, sy]), "clip_depth": jx(z), "image": jxs(&[gx, gy]), "want": jxs(&[sx, sy])})); }
    } } }
    None
}
/// diagnosis only (never a verdict): does the matrix equal S(sc)·T(tr) with GLM's sc, tr, and does that differ from T·S?
fn pick_class(m: &A<X, 4>, c: &[X; 2], d: &[X; 2], vp: &[X; 4]) -> &'static str {
    let sc = [vp[2] / d[0], vp[3] / d[1]];
    let tr = [(vp[2] - qi(2) * (c[0] - vp[0])) / d[0], (vp[3] - qi(2) * (c[1] - vp[1])) / d[1]];
    let mut st = ident::<X, 4>();
    for i in 0..2 { st[i][i] = sc[i]; st[i][3] = sc[i] * tr[i]; }
    if *m == st { CLS_PICK_ST } else { CLS_PICK }
}

struct Premise { fwd: u32, un7: u32, un39: u32, pick: u32, pick_cmps: Vec<u32>, runs: u64, degraded: Vec<String> }
/// degree / branch-freedom measurement on the code as it is on disk (run before the sections so that replays use the same lattice orders)
fn measure() -> Premise {
    let (var4, cst4) = ([[Deg::VAR; 4]; 4], [[Deg::CONST; 4]; 4]);
    let (vp, pt) = ([Deg::VAR; 4], [Deg::VAR; 3]);
    let cross = |g: &[Deg; 3], r: &[Deg; 3]| (0..3).map(|i| (g[i].n + r[i].d).max(r[i].n + g[i].d)).max().unwrap();
    let mut pm = Premise { fwd: 0, un7: 0, un39: 0, pick: 0, pick_cmps: Vec::new(), runs: 0, degraded: Vec::new() };
    for row in [true, false] { for fl in FLS {
        pm.runs += 2;
        match catch(|| real_w2v::<Deg>(row, fl, &pt, &var4, &var4, &vp)) {
            Ok(g) => { let r = ref_window(&ref_clip(&var4, &var4, &pt), &vp, fl); pm.fwd = pm.fwd.max(cross(&g, &r)); }
            Err(e) => { pm.fwd = 99; pm.degraded.push(format!("world_to_viewport_{} <{}>: {:?}", fl.s(), lay(row), e)); }
        }
        match catch(|| real_v2w::<Deg>(row, fl, &pt, &cst4, &cst4, &vp)) {
            Ok(g) => { let h = ref_unproject_h(&cst4, &vp, &pt, fl); let r = [h[0] / h[3], h[1] / h[3], h[2] / h[3]]; pm.un7 = pm.un7.max(cross(&g, &r)); }
            Err(e) => { pm.un7 = 99; pm.degraded.push(format!("viewport_to_world_{} <{}>: {:?}", fl.s(), lay(row), e)); }
        }
        if let Ok(g) = catch(|| real_v2w::<Deg>(row, fl, &pt, &var4, &var4, &vp)) { pm.un39 = pm.un39.max(g.iter().map(|d| d.n + d.d).max().unwrap()); }
    } }
    for row in [true, false] {
        pm.runs += 1;
        CMPS.with(|c| c.set(0));
        match catch(|| real_pick::<DegA>(row, &[DA_VAR; 2], &[DA_VAR; 2], &[DA_VAR; 4])) {
            Ok(m) => {
                let n = CMPS.with(|c| c.get());
                pm.pick_cmps.push(n);
                if n != 2 { pm.degraded.push(format!("picking_region <{}> performed {} ordering comparisons, expected the 2 documented asserts", lay(row), n)); }
                match catch(|| { let h = pick_corner_h(&m, &[DA_VAR; 2], &[DA_VAR; 2], &[DA_VAR; 4], DA_CONST, DA_CONST, DA_CONST); [(h[0] / h[3]).deg, (h[1] / h[3]).deg] }) {
                    Ok(rs) => for r in rs { pm.pick = pm.pick.max(r.n.max(r.d)); },
                    Err(e) => { pm.pick = 99; pm.degraded.push(format!("picking_region <{}> corner identity: {:?}", lay(row), e)); }
                }
            }
            Err(e) => { pm.pick = 99; pm.degraded.push(format!("picking_region <{}>: {:?}", lay(row), e)); }
        }
    }
    pm
}

fn main() {
    let rep = Report::start("C10", "exploration");
    let th = rep.thorough();
    let mvs = modelviews(if th { 2 } else { 1 });
    let (pjs, pj_failed) = projections();
    let vps = viewports();

    // -------------------------------------------------------------------------------------------------
    let pm = measure();
    let (d_fwd, d_un7, d_pick) = (pm.fwd, pm.un7, pm.pick);
    rep.section("premise: the five functions are branch-free rational expressions of measured degree",
        "one run of each function x layout (x flavour) on tropical degree values (any value inspection panics; picking_region's two documented `delta > 0` asserts are counted and must be the only comparisons; structural zeros from T::zero() do not raise a degree): cross-degree of world_to_viewport against the reference in all 39 inputs, of viewport_to_world in the 7 window/viewport inputs (matrices constant), of the picking corner identity in its 8 inputs; non-trivial: all", true, true, |s| {
        s.evals(pm.runs, pm.runs);
        for d in &pm.degraded { s.degrade(d); }
        s.meta("measured_cross_degree", json!({"world_to_viewport (39 variables)": pm.fwd, "viewport_to_world (7 variables, matrices constant)": pm.un7, "picking corner identity (8 variables)": pm.pick,
            "viewport_to_world numerator+denominator bound over all 39 variables (not enumerated: far beyond any lattice)": pm.un39}));
        s.meta("picking_region ordering comparisons per call (the documented asserts)", json!(pm.pick_cmps));
        s.sample(json!({"function": "world_to_viewport_no <row>", "inputs": "16+16 matrix entries, 4 viewport fields, 3 coordinates = degree-1 variables", "measured_cross_degree": pm.fwd}));
    });

    // -------------------------------------------------------------------------------------------------
    let extra = if th { 4 } else { 2 };
    let pick_order = d_pick.min(12) + extra;
    rep.section("picking_region maps the window rectangle onto the clip square (lattice over the 8 parameters)",
        "all points of the simplex lattice L(8, D + extra) (D = measured degree of the corner identity, extra = 2 quick / 4 thorough) translated to centre (0,0), size (1,1), viewport (0,0,1,1) so that every size and viewport extent is >= 1: real picking_region of both layouts, decoded through fields, applied by the reference product to the 4 corners (c +- d/2) written in clip coordinates (2(x - vp.x)/vp.w - 1, w = 1, depths {0,1,-2}); each image divided by its w must be (+-1,+-1); non-trivial: the region is off-centre and not of viewport size in at least one axis", true, true, |s| {
        s.require_classes(&["region-centred-in-viewport", "region-of-viewport-size(one-axis-or-both)", "generic-region", "layout-row", "layout-col"]);
        if d_pick > 12 { s.degrade("degree premise failed"); }
        let cnt = Cnt::new(&["region-centred-in-viewport", "region-of-viewport-size(one-axis-or-both)", "generic-region", "layout-row", "layout-col"]);
        let nbad = AtomicU64::new(0);
        par_lattice(8, pick_order, |a| {
            let c = [xi(a[0]), xi(a[1])]; let d = [xi(1 + a[2]), xi(1 + a[3])]; let vp = [xi(a[4]), xi(a[5]), xi(1 + a[6]), xi(1 + a[7])];
            let centred = |i: usize| qi(2) * (c[i] - vp[i]) == vp[2 + i];
            let full = |i: usize| d[i] == vp[2 + i];
            let nontriv = (0..2).any(|i| !centred(i) && !full(i));
            cnt.add(if centred(0) && centred(1) { "region-centred-in-viewport" } else if full(0) || full(1) { "region-of-viewport-size(one-axis-or-both)" } else { "generic-region" }, 1);
            let w = a.iter().sum::<i64>() as u64;
            let inp = || json!({"center": jxs(&c), "delta": jxs(&d), "viewport(x,y,w,h)": jxs(&vp)});
            for row in [true, false] {
                s.eval(nontriv); cnt.add(if row { "layout-row" } else { "layout-col" }, 1);
                let site = format!("Mat4<{}>::picking_region", lay(row));
                if let Some(m) = s.call(&site, inp, || real_pick::<X>(row, &c, &d, &vp)) {
                    match catch(|| pick_bad(&m, &c, &d, &vp)) {
                        // every failing case is counted (meta); the full record is kept for the points of weight <= 3 (deterministic)
                        Ok(Some(bad)) => { nbad.fetch_add(1, Relaxed); if w <= 3 { s.violation_w(&site, pick_class(&m, &c, &d, &vp), json!({"input": inp(), "matrix": jmat(&m), "first_failing_corner": bad}), w); } }
                        Ok(None) => {}
                        Err(_) => s.unmodelled("overflow in the reference"),
                    }
                }
            }
            if nontriv && w == pick_order as u64 && s.wants_sample() { s.sample(json!({"input": inp(), "law": "M * clip(c + s*d/2) = s for the four sign pairs s"})); }
        });
        cnt.flush(s);
        s.meta("lattice", json!({"n": 8, "measured_degree": d_pick, "order": pick_order, "points": lattice_count(8, pick_order).to_string(), "failing (point, layout) cases": nbad.load(Relaxed)}));
    });

    rep.section("picking_region on the concrete grid (arguments passed as arrays)",
        "3 viewports {(0,0,640,480),(10,-20,3,7),(-5,5,1,1)} x 7 centres (viewport centre, bottom-left corner, inside off-centre, outside, fractional) x 6 sizes (1x1, 5x3, 1/2 x 2, viewport size, twice the viewport, 7/3 x 1/5), both layouts, centre and size handed over as [T;2]: same corner law as above; non-trivial: off-centre and not of viewport size in at least one axis", true, false, |s| {
        s.require_classes(&["region-centred-in-viewport", "region-of-viewport-size(one-axis-or-both)", "generic-region"]);
        for (vi, vp) in vps.iter().enumerate() {
            let centre = [vp[0] + vp[2] / qi(2), vp[1] + vp[3] / qi(2)];
            let centres = [centre, [vp[0], vp[1]], [vp[0] + vp[2] / qi(4), vp[1] + vp[3] * q(2, 3)], [vp[0] - qi(3), vp[1] + vp[3] + qi(2)], [q(-9, 2), q(11, 2)], [qi(0), qi(0)], [centre[0], vp[1] + qi(1)]];
            let sizes = [[qi(1), qi(1)], [qi(5), qi(3)], [q(1, 2), qi(2)], [vp[2], vp[3]], [vp[2] * qi(2), vp[3] * qi(2)], [q(7, 3), q(1, 5)]];
            for (ci, c) in centres.iter().enumerate() { for (di, d) in sizes.iter().enumerate() {
                let centred = |i: usize| qi(2) * (c[i] - vp[i]) == vp[2 + i];
                let full = |i: usize| d[i] == vp[2 + i];
                let nontriv = (0..2).any(|i| !centred(i) && !full(i));
                s.class(if centred(0) && centred(1) { "region-centred-in-viewport" } else if full(0) || full(1) { "region-of-viewport-size(one-axis-or-both)" } else { "generic-region" });
                let inp = || json!({"center": jxs(c), "delta": jxs(d), "viewport(x,y,w,h)": jxs(vp)});
                for row in [true, false] {
                    s.eval(nontriv);
                    let site = format!("Mat4<{}>::picking_region", lay(row));
                    if let Some(m) = s.call(&site, inp, || real_pick_arr(row, c, d, vp)) {
                        match catch(|| pick_bad(&m, c, d, vp)) {
                            Ok(Some(bad)) => s.violation_w(&site, pick_class(&m, c, d, vp), json!({"input": inp(), "matrix": jmat(&m), "first_failing_corner": bad}), 1000 + (vi * 100 + ci * 10 + di) as u64),
                            Ok(None) => {}
                            Err(_) => s.unmodelled("overflow in the reference"),
                        }
                    }
                }
                if nontriv && s.wants_sample() { s.sample(json!({"input": inp()})); }
            } }
        }
    });

    // -------------------------------------------------------------------------------------------------
    let pts = cube(if th { 3 } else { 2 });
    let pairs: Vec<(usize, usize)> = (0..mvs.len()).flat_map(|i| (0..pjs.len()).map(move |j| (i, j))).collect();
    let fams = ["orthographic", "frustum", "perspective", "perspective_fov", "general-projection"];
    let grid_rule = "model-views {identity, the 11 C07 steps (3 translations, 2 scalings, 5 axis rotations, 1 rotation about (1,2,2)/3), thorough: all 121 two-step chains, 3 dense non-affine invertible matrices} x projections {orthographic_without_depth_planes, orthographic_*, frustum_*, perspective_*, perspective_fov_* (each lh/rh x zo/no, two parameter sets incl. off-centre volumes; built by the real constructors, decoded through fields and used as the input matrix whatever they contain), 2 dense projective matrices} x viewports {(0,0,640,480),(10,-20,3,7),(-5,5,1,1)} x points {-2..2}^3 (thorough {-3..3}^3) x {_no,_zo} x {row,col}";
    rep.section("world_to_viewport = viewport-mapped perspective divide (exact grid)",
        &format!("{}: real result vs clip = P(MV(p,1)), ndc = clip/w, window = (vp.x + (ndc.x+1)/2 vp.w, vp.y + (ndc.y+1)/2 vp.h, (ndc.z+1)/2 | ndc.z) on arrays; points with clip w = 0 are outside the property and skipped (counted); non-trivial: clip w != 0 and ndc.xy != (0,0)", grid_rule), true, false, |s| {
        let names = ["orthographic", "frustum", "perspective", "perspective_fov", "general-projection", "identity-modelview", "affine-modelview", "general-modelview", "clip-w-positive", "clip-w-negative", "clip-w-not-1(genuine divide)", "clip-w-zero(skipped)", "depth-outside-the-clip-range", "flavour-no", "flavour-zo", "layout-row", "layout-col"];
        s.require_classes(&names);
        let cnt = Cnt::new(&names);
        let nfail = AtomicU64::new(0);
        pairs.par_iter().for_each(|&(mi, pi)| {
            let (mv, pj) = (&mvs[mi], &pjs[pi]);
            let mut thr = Thr::new(3, &nfail);
            for (vi, vp) in vps.iter().enumerate() { for pt in &pts {
                let clip = match catch(|| ref_clip(&mv.m, &pj.m, pt)) { Ok(c) => c, Err(_) => { s.eval(false); s.unmodelled("overflow in the reference"); continue; } };
                if clip[3] == qi(0) { s.eval(false); cnt.add("clip-w-zero(skipped)", 1); continue; }
                cnt.add(pj.family, 1); cnt.add(mv.kind, 1);
                cnt.add(if clip[3] > qi(0) { "clip-w-positive" } else { "clip-w-negative" }, 1);
                if clip[3] != qi(1) { cnt.add("clip-w-not-1(genuine divide)", 1); }
                let nontriv = clip[0] != qi(0) || clip[1] != qi(0);
                let wgt = (mi * 100 + pi) as u64 * 100 + (vi as u64) * 30 + pt.iter().map(|c| c.rat().n.unsigned_abs() as u64).sum::<u64>();
                for fl in FLS {
                    let want = match catch(|| ref_window(&clip, vp, fl)) { Ok(w) => w, Err(_) => { s.eval(false); s.unmodelled("overflow in the reference"); continue; } };
                    if fl == Fl::ZO && (want[2] < qi(0) || want[2] > qi(1)) { cnt.add("depth-outside-the-clip-range", 1); }
                    for row in [true, false] {
                        s.eval(nontriv); cnt.add(if fl == Fl::NO { "flavour-no" } else { "flavour-zo" }, 1); cnt.add(if row { "layout-row" } else { "layout-col" }, 1);
                        let site = format!("Mat4<{}>::world_to_viewport_{}", lay(row), fl.s());
                        let inp = || json!({"modelview": mv.name, "MV": jmat(&mv.m), "projection": pj.name, "P": jmat(&pj.m), "viewport(x,y,w,h)": jxs(vp), "point": jxs(pt)});
                        if let Some(got) = s.call(&site, inp, || real_w2v::<X>(row, fl, pt, &mv.m, &pj.m, vp)) {
                            if got != want { if thr.allow(&site, CLS_FWD) { s.violation_w(&site, CLS_FWD, json!({"input": inp(), "clip": jxs(&clip), "got": jxs(&got), "want": jxs(&want)}), wgt); } }
                            else if nontriv && mi > 0 && clip[3] != qi(1) && s.wants_sample() { s.sample(json!({"input": inp(), "clip": jxs(&clip), "window": jxs(&want), "flavour": fl.s()})); }
                        }
                    }
                }
            } }
        });
        cnt.flush(s);
        s.meta("alphabet", json!({"modelviews": mvs.len(), "projections": pjs.len(), "projection_builders_dropped": pj_failed, "viewports": vps.len(), "points": pts.len(), "flavours": 2, "layouts": 2}));
        s.meta("failing_cases(all counted; first 3 per matrix pair and site recorded)", json!(nfail.load(Relaxed)));
    });

    rep.section("viewport_to_world(world_to_viewport(p)) = p and window -> world -> window (exact grid)",
        &format!("{}: (a) the real unprojection of the real projection returns the point exactly; (b) for the 27 window points {{vp.x, vp.x+vp.w/2, vp.x+vp.w+1}} x {{vp.y, vp.y+vp.h/3, vp.y-2}} x depths {{0, 1/2, 1}} whose reference pre-image (adj(P MV)/det applied to the ndc point) is finite: real viewport_to_world (point passed as [T;3]) equals that pre-image and the real projection brings it back to the window point; non-trivial: clip w != 1 or model-view not the identity", grid_rule), true, false, |s| {
        let names = ["orthographic", "frustum", "perspective", "perspective_fov", "general-projection", "identity-modelview", "affine-modelview", "general-modelview", "round-trip-world", "round-trip-window", "clip-w-zero(skipped)", "pre-image-at-infinity(skipped)", "flavour-no", "flavour-zo", "layout-row", "layout-col"];
        s.require_classes(&names[..10]); s.require_classes(&names[12..]);
        let cnt = Cnt::new(&names);
        let nfail = AtomicU64::new(0);
        pairs.par_iter().for_each(|&(mi, pi)| {
            let (mv, pj) = (&mvs[mi], &pjs[pi]);
            let mut thr = Thr::new(3, &nfail);
            let inv = match catch(|| { let pm = mmul(&pj.m, &mv.m); let d = det(&pm); map4(&adjugate(&pm), |e| e / d) }) { Ok(i) => i, Err(_) => { s.eval(false); s.unmodelled("overflow in the reference"); return; } };
            for (vi, vp) in vps.iter().enumerate() {
                for pt in &pts {
                    let clip = match catch(|| ref_clip(&mv.m, &pj.m, pt)) { Ok(c) => c, Err(_) => { s.eval(false); s.unmodelled("overflow in the reference"); continue; } };
                    if clip[3] == qi(0) { s.eval(false); cnt.add("clip-w-zero(skipped)", 1); continue; }
                    cnt.add(pj.family, 1); cnt.add(mv.kind, 1);
                    let nontriv = clip[3] != qi(1) || mi > 0;
                    let wgt = (mi * 100 + pi) as u64 * 100 + (vi as u64) * 30 + pt.iter().map(|c| c.rat().n.unsigned_abs() as u64).sum::<u64>();
                    for fl in FLS { for row in [true, false] {
                        s.eval(nontriv); cnt.add("round-trip-world", 1); cnt.add(if fl == Fl::NO { "flavour-no" } else { "flavour-zo" }, 1); cnt.add(if row { "layout-row" } else { "layout-col" }, 1);
                        let site = format!("Mat4<{}>::viewport_to_world_{}", lay(row), fl.s());
                        let inp = || json!({"modelview": mv.name, "MV": jmat(&mv.m), "projection": pj.name, "P": jmat(&pj.m), "viewport(x,y,w,h)": jxs(vp), "point": jxs(pt)});
                        let Some(win) = s.call(&format!("Mat4<{}>::world_to_viewport_{}", lay(row), fl.s()), inp, || real_w2v::<X>(row, fl, pt, &mv.m, &pj.m, vp)) else { continue };
                        if let Some(back) = s.call(&site, inp, || real_v2w::<X>(row, fl, &win, &mv.m, &pj.m, vp)) {
                            if back != *pt { if !thr.allow(&site, CLS_RT) { continue; } s.violation_w(&site, CLS_RT, json!({"input": inp(), "window": jxs(&win), "got": jxs(&back), "want": jxs(pt)}), wgt); }
                            else if nontriv && clip[3] != qi(1) && s.wants_sample() { s.sample(json!({"input": inp(), "window": jxs(&win), "back": jxs(&back), "flavour": fl.s()})); }
                        }
                    } }
                }
                // (b) window points
                let (xs, ys, zs) = ([vp[0], vp[0] + vp[2] / qi(2), vp[0] + vp[2] + qi(1)], [vp[1], vp[1] + vp[3] / qi(3), vp[1] - qi(2)], [qi(0), q(1, 2), qi(1)]);
                let mut rays: Vec<[X; 3]> = Vec::new();
                for x in xs { for y in ys { for z in zs { rays.push([x, y, z]); } } }
                for (k, ray) in rays.into_iter().enumerate() { for fl in FLS {
                    let h = match catch(|| ref_unproject_h(&inv, vp, &ray, fl)) { Ok(h) => h, Err(_) => { s.eval(false); s.unmodelled("overflow in the reference"); continue; } };
                    if h[3] == qi(0) { s.eval(false); cnt.add("pre-image-at-infinity(skipped)", 1); continue; }
                    let want = match catch(|| [h[0] / h[3], h[1] / h[3], h[2] / h[3]]) { Ok(w) => w, Err(_) => { s.eval(false); s.unmodelled("overflow in the reference"); continue; } };
                    for row in [true, false] {
                        s.eval(true); cnt.add("round-trip-window", 1);
                        let site = format!("Mat4<{}>::viewport_to_world_{}", lay(row), fl.s());
                        let inp = || json!({"modelview": mv.name, "MV": jmat(&mv.m), "projection": pj.name, "P": jmat(&pj.m), "viewport(x,y,w,h)": jxs(vp), "window_point": jxs(&ray)});
                        let wgt = (mi * 100 + pi) as u64 * 100 + (vi as u64) * 30 + k as u64;
                        if let Some(got) = s.call(&site, inp, || real_v2w_arr(row, fl, &ray, &mv.m, &pj.m, vp)) {
                            if got != want { if thr.allow(&site, CLS_UN) { s.violation_w(&site, CLS_UN, json!({"input": inp(), "got": jxs(&got), "want(pre-image under the reference projection)": jxs(&want)}), wgt); } continue; }
                            let fsite = format!("Mat4<{}>::world_to_viewport_{}", lay(row), fl.s());
                            if let Some(again) = s.call(&fsite, inp, || real_w2v::<X>(row, fl, &got, &mv.m, &pj.m, vp)) {
                                if again != ray && thr.allow(&fsite, CLS_FWD) { s.violation_w(&fsite, CLS_FWD, json!({"input": inp(), "world(real unprojection)": jxs(&got), "got": jxs(&again), "want": jxs(&ray)}), wgt); }
                            }
                        }
                    }
                } }
            }
        });
        cnt.flush(s);
        s.meta("alphabet", json!({"modelviews": mvs.len(), "projections": pjs.len(), "viewports": vps.len(), "points": pts.len(), "window_points_per_viewport": 27}));
        s.meta("failing_cases(all counted; first 3 per matrix pair and site|class recorded)", json!(nfail.load(Relaxed)));
    });

    // -------------------------------------------------------------------------------------------------
    let fwd_order = if th { d_fwd.min(7) } else { 4 };
    rep.section("world_to_viewport as a formal rational identity in all 39 inputs (formal fractions on the simplex lattice)",
        "all points of L(39, D) (16 + 16 matrix entries as deviations from the identity, viewport (0,0,1,1) + deviation, point = deviation), D = 4 quick / the measured cross-degree (7) thorough: the real functions of both layouts and flavours run on formal fractions n/d (no quotient is formed, so clip w = 0 is not skipped) and every component must cross-multiply to the reference pipeline evaluated on the same formal fractions; complete (decides every matrix pair, viewport and point) when D >= the measured degree, otherwise a bounded sweep; non-trivial: clip w != 0", true, th, |s| {
        s.require_classes(&["clip-w-nonzero"]);
        if d_fwd > fwd_order { s.degrade(&format!("lattice order {} below the measured cross-degree {} (quick tier; the thorough tier runs the full order)", fwd_order, d_fwd)); }
        let cnt = Cnt::new(&["clip-w-nonzero", "clip-w-zero(formal)"]);
        let nfail = AtomicU64::new(0);
        par_lattice_deep(39, fwd_order, 20, 1, &nfail, |a, thr| {
            let mut mv = [[Fr::int(0); 4]; 4]; let mut p = mv; let mut mvi = [[0i128; 4]; 4]; let mut pi_ = mvi;
            for i in 0..4 { for j in 0..4 {
                mvi[i][j] = a[4 * i + j] as i128 + (i == j) as i128; pi_[i][j] = a[16 + 4 * i + j] as i128 + (i == j) as i128;
                mv[i][j] = Fr::int(mvi[i][j]); p[i][j] = Fr::int(pi_[i][j]);
            } }
            let vp = [Fr::int(a[32] as i128), Fr::int(a[33] as i128), Fr::int(1 + a[34] as i128), Fr::int(1 + a[35] as i128)];
            let pt = [Fr::int(a[36] as i128), Fr::int(a[37] as i128), Fr::int(a[38] as i128)];
            let wclip = mvec(&pi_, &mvec(&mvi, &[a[36] as i128, a[37] as i128, a[38] as i128, 1]))[3];
            cnt.add(if wclip != 0 { "clip-w-nonzero" } else { "clip-w-zero(formal)" }, 1);
            let clip = ref_clip(&mv, &p, &pt);
            let wgt = a.iter().sum::<i64>() as u64;
            for fl in FLS {
                let want = ref_window(&clip, &vp, fl);
                for row in [true, false] {
                    s.eval(wclip != 0);
                    let site = format!("Mat4<{}>::world_to_viewport_{}", lay(row), fl.s());
                    let inp = || json!({"lattice_point(MV-I row-major, P-I row-major, viewport-(0,0,1,1), point)": a});
                    if let Some(got) = s.call(&site, inp, || real_w2v::<Fr>(row, fl, &pt, &mv, &p, &vp)) {
                        match catch(|| (0..3).find(|&i| !got[i].cross_eq(want[i]))) {
                            Ok(Some(i)) => if thr.allow(&site, CLS_FWD) { s.violation_w(&site, CLS_FWD, json!({"input": inp(), "component": i, "got": format!("{}/{}", got[i].n, got[i].d), "want": format!("{}/{}", want[i].n, want[i].d)}), 1_000_000 + wgt) },
                            Ok(None) => {}
                            Err(_) => s.unmodelled("overflow in cross multiplication"),
                        }
                    }
                }
            }
            if wclip != 0 && wclip != 1 && wgt == fwd_order as u64 && s.wants_sample() { s.sample(json!({"lattice_point": a, "clip_w": wclip.to_string()})); }
        });
        cnt.flush(s);
        s.meta("lattice", json!({"n": 39, "measured_cross_degree": d_fwd, "order": fwd_order, "points": lattice_count(39, fwd_order).to_string(), "failing_cases(all counted; the first per 20-coordinate prefix and site recorded)": nfail.load(Relaxed)}));
    });

    // -------------------------------------------------------------------------------------------------
    let un_order = d_un7.min(12) + if th { 2 } else { 0 };
    rep.section("viewport_to_world as a formal rational identity in the window point and the viewport, per matrix pair",
        "for each of the selected matrix pairs (quick: 8, thorough: 40, spread over all projection families and model-view kinds): all points of L(7, D) (window point = deviation, viewport (0,0,1,1) + deviation), D = measured cross-degree in these 7 inputs (+2 thorough): the real functions (both layouts, both flavours) run on formal fractions must cross-multiply, component by component, to adj(P MV)/det(P MV) applied to the ndc point and divided by its w; decides every window point and viewport for the enumerated pairs, bounded in the matrices; non-trivial: reference pre-image finite", true, false, |s| {
        s.require_classes(&["pre-image-finite", "orthographic", "frustum", "perspective", "perspective_fov", "general-projection", "affine-modelview", "general-modelview"]);
        if d_un7 > 12 { s.degrade("degree premise failed"); }
        let want_pairs = if th { 40 } else { 8 };
        // deterministic spread: projection families round-robin, model-views with stride 4 (reaches the dense ones)
        let by_fam: Vec<Vec<usize>> = fams.iter().map(|f| (0..pjs.len()).filter(|&i| pjs[i].family == *f).collect()).collect();
        let sel: Vec<(usize, usize)> = (0..want_pairs).map(|k| { let f = &by_fam[k % fams.len()]; ((k * 4 + 1) % mvs.len(), f[(k / fams.len() * 3 + k % fams.len()) % f.len()]) }).collect();
        let cnt = Cnt::new(&["pre-image-finite", "pre-image-at-infinity(formal)", "orthographic", "frustum", "perspective", "perspective_fov", "general-projection", "identity-modelview", "affine-modelview", "general-modelview"]);
        let mut used = Vec::new();
        let nfail = AtomicU64::new(0);
        for &(mi, pi) in &sel {
            let (mv, pj) = (&mvs[mi], &pjs[pi]);
            let Ok(invx) = catch(|| { let pm = mmul(&pj.m, &mv.m); let d = det(&pm); map4(&adjugate(&pm), |e| e / d) }) else { s.unmodelled("overflow in the reference"); continue };
            let (inv, mvf, pf) = (map4(&invx, xfr), map4(&mv.m, xfr), map4(&pj.m, xfr));
            used.push(format!("{} | {}", mv.name, pj.name));
            par_lattice_deep(7, un_order, 3, 1, &nfail, |a, thr| {
                let ray = [Fr::int(a[0] as i128), Fr::int(a[1] as i128), Fr::int(a[2] as i128)];
                let vp = [Fr::int(a[3] as i128), Fr::int(a[4] as i128), Fr::int(1 + a[5] as i128), Fr::int(1 + a[6] as i128)];
                let (rx, vx) = ([xi(a[0]), xi(a[1]), xi(a[2])], [xi(a[3]), xi(a[4]), xi(1 + a[5]), xi(1 + a[6])]);
                for fl in FLS {
                    let finite = match catch(|| ref_unproject_h(&invx, &vx, &rx, fl)[3] != qi(0)) { Ok(f) => f, Err(_) => { s.eval(false); s.unmodelled("overflow in the reference"); continue; } };
                    let want = match catch(|| { let h = ref_unproject_h(&inv, &vp, &ray, fl); [h[0] / h[3], h[1] / h[3], h[2] / h[3]] }) { Ok(w) => w, Err(_) => { s.eval(false); s.unmodelled("overflow in the reference"); continue; } };
                    for row in [true, false] {
                        s.eval(finite);
                        cnt.add(if finite { "pre-image-finite" } else { "pre-image-at-infinity(formal)" }, 1); cnt.add(pj.family, 1); cnt.add(mv.kind, 1);
                        let site = format!("Mat4<{}>::viewport_to_world_{}", lay(row), fl.s());
                        let inp = || json!({"modelview": mv.name, "MV": jmat(&mv.m), "projection": pj.name, "P": jmat(&pj.m), "lattice_point(window point, viewport-(0,0,1,1))": a});
                        if let Some(got) = s.call(&site, inp, || real_v2w::<Fr>(row, fl, &ray, &mvf, &pf, &vp)) {
                            match catch(|| (0..3).find(|&i| !got[i].cross_eq(want[i]))) {
                                Ok(Some(i)) => if thr.allow(&site, CLS_UN) { s.violation_w(&site, CLS_UN, json!({"input": inp(), "component": i, "got": format!("{}/{}", got[i].n, got[i].d), "want": format!("{}/{}", want[i].n, want[i].d)}), 1_000_000 + (mi * 100 + pi) as u64 * 100 + a.iter().sum::<i64>() as u64) },
                                Ok(None) => {}
                                Err(_) => s.unmodelled("overflow in cross multiplication"),
                            }
                        }
                    }
                }
            });
        }
        cnt.flush(s);
        s.sample(json!({"pair": used.first(), "law": "viewport_to_world(r) * w(r) = adj(P MV)/det * ndc(r) as formal fractions"}));
        s.meta("lattice", json!({"n": 7, "measured_cross_degree": d_un7, "order": un_order, "points_per_pair": lattice_count(7, un_order).to_string(), "pairs": used, "failing_cases(all counted; the first per 3-coordinate prefix and site recorded)": nfail.load(Relaxed)}));
    });
    std::process::exit(rep.finish());
}
