//! C10 — viewport projection, unprojection and the picking matrix are consistent.
//!
//! Oracle (plain arrays, never a vek call): clip = P·(MV·(p,1)), ndc = clip/clip.w,
//! window = (vp.x + (ndc.x+1)/2·vp.w, vp.y + (ndc.y+1)/2·vp.h, (ndc.z+1)/2 | ndc.z);
//! unprojection must return the projected point; the picking matrix applied to the four corners of the
//! window rectangle [c-d/2, c+d/2], written in clip coordinates through the inverse viewport map, must give (±1,±1).
use num_traits::{Num, NumCast, One, ToPrimitive, Zero};
use rayon::prelude::*;
use std::cell::Cell;
use std::cmp::Ordering;
use std::ops::*;
use std::sync::atomic::{AtomicU64, Ordering::Relaxed};
use vek::geom::{FrustumPlanes, Rect};
use vek::num_traits::real::Real;
use vek::ops::MulAdd;
use vx::fr::{Deg, Fr};
use vx::lattice::*;
use vx::matx::*;
use vx::q::{angle_base_t, unmodelled};
use vx::*;

// ---------------------------------------------------------------------------------------------------
// reference pipeline, generic over the scalar (X: values, Fr: formal fractions, Deg/DegA: degrees)

trait Fld: Ring + Div<Output = Self> {}
impl<T: Ring + Div<Output = T>> Fld for T {}

#[derive(Clone, Copy, PartialEq, Eq, Debug)]
enum Fl { NO, ZO }
impl Fl { fn s(self) -> &'static str { match self { Fl::NO => "no", Fl::ZO => "zo" } } }
const FLS: [Fl; 2] = [Fl::NO, Fl::ZO];
fn lay(row: bool) -> &'static str { if row { "row" } else { "col" } }

fn two<T: Fld>() -> T { T::one() + T::one() }
/// clip = P (MV (p,1))
fn ref_clip<T: Fld>(mv: &A<T, 4>, p: &A<T, 4>, pt: &[T; 3]) -> [T; 4] { mvec(p, &mvec(mv, &[pt[0], pt[1], pt[2], T::one()])) }
/// perspective divide and viewport map (the caller guarantees clip.w != 0 where T has no 1/0)
fn ref_window<T: Fld>(clip: &[T; 4], vp: &[T; 4], fl: Fl) -> [T; 3] {
    let ndc = [clip[0] / clip[3], clip[1] / clip[3], clip[2] / clip[3]];
    [vp[0] + (ndc[0] + T::one()) / two() * vp[2], vp[1] + (ndc[1] + T::one()) / two() * vp[3], match fl { Fl::NO => (ndc[2] + T::one()) / two(), Fl::ZO => ndc[2] }]
}
/// window -> ndc -> homogeneous object coordinates through a given inverse of P·MV (before the division by w)
fn ref_unproject_h<T: Fld>(inv: &A<T, 4>, vp: &[T; 4], ray: &[T; 3], fl: Fl) -> [T; 4] {
    let nx = (ray[0] - vp[0]) / vp[2] * two() - T::one();
    let ny = (ray[1] - vp[1]) / vp[3] * two() - T::one();
    let nz = match fl { Fl::NO => ray[2] * two() - T::one(), Fl::ZO => ray[2] };
    mvec(inv, &[nx, ny, nz, T::one()])
}
/// corner (sx,sy) of the window rectangle [c-d/2, c+d/2] in clip coordinates (w = 1, depth z), mapped by m (homogeneous result)
fn pick_corner_h<T: Fld>(m: &A<T, 4>, c: &[T; 2], d: &[T; 2], vp: &[T; 4], sx: T, sy: T, z: T) -> [T; 4] {
    let wx = c[0] + sx * d[0] / two();
    let wy = c[1] + sy * d[1] / two();
    let nx = (wx - vp[0]) / vp[2] * two() - T::one();
    let ny = (wy - vp[1]) / vp[3] * two() - T::one();
    mvec(m, &[nx, ny, z, T::one()])
}

// ---------------------------------------------------------------------------------------------------
// the real calls (inputs by struct literal, outputs by field access)

fn real_w2v<T: Real + MulAdd<T, T, Output = T>>(row: bool, fl: Fl, pt: &[T; 3], mv: &A<T, 4>, p: &A<T, 4>, vp: &[T; 4]) -> [T; 3] {
    let o = Vec3 { x: pt[0], y: pt[1], z: pt[2] };
    let r = Rect { x: vp[0], y: vp[1], w: vp[2], h: vp[3] };
    let v = match (row, fl) {
        (true, Fl::NO) => rm::Mat4::world_to_viewport_no(o, r4(mv), r4(p), r),
        (true, Fl::ZO) => rm::Mat4::world_to_viewport_zo(o, r4(mv), r4(p), r),
        (false, Fl::NO) => cm::Mat4::world_to_viewport_no(o, c4(mv), c4(p), r),
        (false, Fl::ZO) => cm::Mat4::world_to_viewport_zo(o, c4(mv), c4(p), r),
    };
    dv3(&v)
}
fn real_v2w<T: Real + MulAdd<T, T, Output = T>>(row: bool, fl: Fl, ray: &[T; 3], mv: &A<T, 4>, p: &A<T, 4>, vp: &[T; 4]) -> [T; 3] {
    let o = Vec3 { x: ray[0], y: ray[1], z: ray[2] };
    let r = Rect { x: vp[0], y: vp[1], w: vp[2], h: vp[3] };
    let v = match (row, fl) {
        (true, Fl::NO) => rm::Mat4::viewport_to_world_no(o, r4(mv), r4(p), r),
        (true, Fl::ZO) => rm::Mat4::viewport_to_world_zo(o, r4(mv), r4(p), r),
        (false, Fl::NO) => cm::Mat4::viewport_to_world_no(o, c4(mv), c4(p), r),
        (false, Fl::ZO) => cm::Mat4::viewport_to_world_zo(o, c4(mv), c4(p), r),
    };
    dv3(&v)
}
/// same entry points, the point handed over as a plain array (`Into<Vec3<T>>`)
fn real_v2w_arr(row: bool, fl: Fl, ray: &[X; 3], mv: &A<X, 4>, p: &A<X, 4>, vp: &[X; 4]) -> [X; 3] {
    let r = Rect { x: vp[0], y: vp[1], w: vp[2], h: vp[3] };
    let v = match (row, fl) {
        (true, Fl::NO) => rm::Mat4::viewport_to_world_no(*ray, r4(mv), r4(p), r),
        (true, Fl::ZO) => rm::Mat4::viewport_to_world_zo(*ray, r4(mv), r4(p), r),
        (false, Fl::NO) => cm::Mat4::viewport_to_world_no(*ray, c4(mv), c4(p), r),
        (false, Fl::ZO) => cm::Mat4::viewport_to_world_zo(*ray, c4(mv), c4(p), r),
    };
    dv3(&v)
}
fn real_pick<T: Real + MulAdd<T, T, Output = T>>(row: bool, c: &[T; 2], d: &[T; 2], vp: &[T; 4]) -> A<T, 4> {
    let (cv, dv) = (Vec2 { x: c[0], y: c[1] }, Vec2 { x: d[0], y: d[1] });
    let r = Rect { x: vp[0], y: vp[1], w: vp[2], h: vp[3] };
    if row { dr4(&rm::Mat4::picking_region(cv, dv, r)) } else { dc4(&cm::Mat4::picking_region(cv, dv, r)) }
}
fn real_pick_arr(row: bool, c: &[X; 2], d: &[X; 2], vp: &[X; 4]) -> A<X, 4> {
    let r = Rect { x: vp[0], y: vp[1], w: vp[2], h: vp[3] };
    if row { dr4(&rm::Mat4::picking_region(*c, *d, r)) } else { dc4(&cm::Mat4::picking_region(*c, *d, r)) }
}

// ---------------------------------------------------------------------------------------------------
// DegA: tropical degrees that let the two documented precondition asserts of picking_region pass.
// Every ordering comparison is counted and answered "greater"; equality tests stay forbidden. A run
// with exactly the two documented comparisons is branch-free on the documented domain delta > 0.

thread_local! { static CMPS: Cell<u32> = Cell::new(0); }
/// `zero`: the value is structurally the additive identity (it came from `T::zero()` or from a product with
/// it); 0 + x = x and 0 * x = 0 hold in every ring, so these do not raise the degree.
#[derive(Clone, Copy, Debug)]
struct DegA { deg: Deg, zero: bool }
const DA_VAR: DegA = DegA { deg: Deg::VAR, zero: false };
const DA_CONST: DegA = DegA { deg: Deg::CONST, zero: false };
const DA_ZERO: DegA = DegA { deg: Deg::CONST, zero: true };
fn da(deg: Deg) -> DegA { DegA { deg, zero: false } }
impl Add for DegA { type Output = DegA; fn add(self, o: DegA) -> DegA { if self.zero { o } else if o.zero { self } else { da(self.deg + o.deg) } } }
impl Sub for DegA { type Output = DegA; fn sub(self, o: DegA) -> DegA { if self.zero { o } else if o.zero { self } else { da(self.deg - o.deg) } } }
impl Mul for DegA { type Output = DegA; fn mul(self, o: DegA) -> DegA { if self.zero || o.zero { DA_ZERO } else { da(self.deg * o.deg) } } }
impl Div for DegA { type Output = DegA; fn div(self, o: DegA) -> DegA { if o.zero { unmodelled("division by a structural zero") } else if self.zero { DA_ZERO } else { da(self.deg / o.deg) } } }
impl Rem for DegA { type Output = DegA; fn rem(self, _: DegA) -> DegA { unmodelled("DegA %") } }
impl Neg for DegA { type Output = DegA; fn neg(self) -> DegA { self } }
impl PartialEq for DegA { fn eq(&self, _: &DegA) -> bool { unmodelled("DegA == (code branches on values)") } }
impl PartialOrd for DegA { fn partial_cmp(&self, _: &DegA) -> Option<Ordering> { CMPS.with(|c| c.set(c.get() + 1)); Some(Ordering::Greater) } }
impl Zero for DegA { fn zero() -> DegA { DA_ZERO } fn is_zero(&self) -> bool { unmodelled("DegA is_zero") } }
impl One for DegA { fn one() -> DegA { DA_CONST } }
impl Num for DegA { type FromStrRadixErr = (); fn from_str_radix(_: &str, _: u32) -> Result<DegA, ()> { Err(()) } }
impl ToPrimitive for DegA { fn to_i64(&self) -> Option<i64> { unmodelled("cast of a symbolic value") } fn to_u64(&self) -> Option<u64> { unmodelled("cast of a symbolic value") } }
impl NumCast for DegA { fn from<T: ToPrimitive>(_: T) -> Option<DegA> { unmodelled("numcast to a symbolic value") } }
impl MulAdd<DegA, DegA> for DegA { type Output = DegA; fn mul_add(self, a: DegA, b: DegA) -> DegA { self * a + b } }
macro_rules! un0 { ($($f:ident),*) => { $(fn $f() -> DegA { unmodelled(stringify!($f)) })* } }
macro_rules! un1 { ($($f:ident),*) => { $(fn $f(self) -> DegA { unmodelled(stringify!($f)) })* } }
macro_rules! un2 { ($($f:ident),*) => { $(fn $f(self, _: DegA) -> DegA { unmodelled(stringify!($f)) })* } }
impl Real for DegA {
    un0!(min_value, min_positive_value, epsilon, max_value);
    un1!(floor, ceil, round, trunc, fract, abs, signum, sqrt, exp, exp2, ln, log2, log10, to_degrees, to_radians, cbrt, sin, cos, tan, asin, acos, atan, exp_m1, ln_1p, sinh, cosh, tanh, asinh, acosh, atanh);
    un2!(powf, log, max, min, abs_sub, hypot, atan2);
    fn is_sign_positive(self) -> bool { unmodelled("sign") }
    fn is_sign_negative(self) -> bool { unmodelled("sign") }
    fn mul_add(self, a: DegA, b: DegA) -> DegA { self * a + b }
    fn recip(self) -> DegA { DA_CONST / self }
    fn powi(self, n: i32) -> DegA { let mut r = DA_CONST; for _ in 0..n.unsigned_abs() { r = r * self; } if n < 0 { DA_CONST / r } else { r } }
    fn sin_cos(self) -> (DegA, DegA) { unmodelled("sin_cos") }
}

// ---------------------------------------------------------------------------------------------------
// input alphabets (reference arrays; the vek projection builders are only *generators*: their decoded
// fields are the input matrix, whatever they contain)

fn xi(v: i64) -> X { qi(v as i128) }
fn xfr(x: X) -> Fr { let r = x.rat(); Fr { n: r.n, d: r.d } }
fn map4<S: Copy, T: Copy>(a: &A<S, 4>, f: impl Fn(S) -> T) -> A<T, 4> { let mut o = [[f(a[0][0]); 4]; 4]; for i in 0..4 { for j in 0..4 { o[i][j] = f(a[i][j]); } } o }
fn ints4(v: [[i64; 4]; 4]) -> A<X, 4> { map4(&v, xi) }

#[derive(Clone)]
struct Mv { name: String, kind: &'static str, m: A<X, 4> }
#[derive(Clone)]
struct Pj { name: String, family: &'static str, m: A<X, 4> }

/// the step alphabet of C07 as textbook matrices (translation in the last column)
fn steps() -> Vec<(String, A<X, 4>)> {
    let tr = |t: [i64; 3]| { let mut m = ident::<X, 4>(); for i in 0..3 { m[i][3] = xi(t[i]); } (format!("T{:?}", t), m) };
    let sc = |n: [i128; 3], d: i128| { let mut m = ident::<X, 4>(); for i in 0..3 { m[i][i] = q(n[i], d); } (format!("S{:?}/{}", n, d), m) };
    let rot = |axis: [X; 3], c: X, s: X, name: &str| (name.to_string(), affine4(&rodrigues(&axis, c, s), &[qi(0); 3]));
    let (ex, ey, ez) = ([qi(1), qi(0), qi(0)], [qi(0), qi(1), qi(0)], [qi(0), qi(0), qi(1)]);
    vec![
        tr([3, -1, 0]), tr([1, 2, 3]), tr([-2, 0, 5]), sc([2, 1, 3], 1), sc([1, -3, 1], 2),
        rot(ex, q(3, 5), q(4, 5), "RX(3/5,4/5)"), rot(ey, q(3, 5), q(4, 5), "RY(3/5,4/5)"), rot(ez, q(-7, 25), q(-24, 25), "RZ(-7/25,-24/25)"),
        rot(ex, q(4, 5), q(-3, 5), "RX(4/5,-3/5)"), rot(ez, q(5, 13), q(12, 13), "RZ(5/13,12/13)"), rot([q(1, 3), q(2, 3), q(2, 3)], q(3, 5), q(4, 5), "R[(1,2,2)/3](3/5,4/5)"),
    ]
}
fn modelviews(depth: usize) -> Vec<Mv> {
    let st = steps();
    let mut out = vec![Mv { name: "identity".into(), kind: "identity-modelview", m: ident::<X, 4>() }];
    for (n, m) in &st { out.push(Mv { name: n.clone(), kind: "affine-modelview", m: *m }); }
    if depth >= 2 { for (n1, m1) in &st { for (n2, m2) in &st { out.push(Mv { name: format!("{} then {}", n1, n2), kind: "affine-modelview", m: mmul(m2, m1) }); } } }
    // dense, non-affine invertible matrices (the property quantifies over all invertible matrices): all 16 entries matter
    out.push(Mv { name: "dense#1".into(), kind: "general-modelview", m: ints4([[2, 1, 0, 3], [1, 3, 1, -1], [0, -2, 1, 2], [1, 0, 1, 1]]) });
    out.push(Mv { name: "dense#2".into(), kind: "general-modelview", m: ints4([[1, -2, 3, 1], [2, 1, -1, 4], [-3, 1, 2, 1], [1, 1, -1, 2]]) });
    out.push(Mv { name: "dense#3".into(), kind: "general-modelview", m: map4(&[[1i64, 2, 0, -1], [0, 1, 3, 2], [2, 0, 1, 1], [1, -1, 0, 3]], |v| q(v as i128, 2)) });
    out
}
/// projections generated by the real builders (decoded through fields) plus dense general ones
fn projections() -> (Vec<Pj>, Vec<String>) {
    let fp = |v: [i128; 6], d: i128| FrustumPlanes { left: q(v[0], d), right: q(v[1], d), bottom: q(v[2], d), top: q(v[3], d), near: q(v[4], d), far: q(v[5], d) };
    let (a, b, c) = (fp([-1, 3, -2, 1, 1, 5], 1), fp([-2, 2, -1, 1, -1, 2], 1), fp([-4, 4, -3, 3, 2, 7], 2));
    let (b1, b2) = (angle_base_t(1, 2), angle_base_t(1, 3));
    let (fov1, fov2) = (X::tok(b1, 2), X::tok(b2, 2)); // tan(fov/2) = 4/3 and 3/4
    type M = rm::Mat4<X>;
    let mut gens: Vec<(String, &'static str, Box<dyn Fn() -> M>)> = Vec::new();
    macro_rules! g { ($fam:expr, $name:expr, $e:expr) => { gens.push(($name.to_string(), $fam, Box::new(move || $e))); } }
    g!("orthographic", "orthographic_without_depth_planes(off-centre)", M::orthographic_without_depth_planes(a));
    macro_rules! planes { ($fam:expr, $f:ident, $p1:expr, $p2:expr) => { g!($fam, concat!(stringify!($f), "(off-centre)"), M::$f($p1)); g!($fam, concat!(stringify!($f), "(centred)"), M::$f($p2)); } }
    planes!("orthographic", orthographic_lh_zo, a, b); planes!("orthographic", orthographic_lh_no, a, b); planes!("orthographic", orthographic_rh_zo, a, b); planes!("orthographic", orthographic_rh_no, a, b);
    planes!("frustum", frustum_lh_zo, a, c); planes!("frustum", frustum_lh_no, a, c); planes!("frustum", frustum_rh_zo, a, c); planes!("frustum", frustum_rh_no, a, c);
    macro_rules! persp { ($f:ident) => { g!("perspective", concat!(stringify!($f), "(tan=4/3,aspect 2)"), M::$f(fov1, qi(2), qi(1), qi(5))); g!("perspective", concat!(stringify!($f), "(tan=3/4,aspect 16/9)"), M::$f(fov2, q(16, 9), q(1, 2), qi(10))); } }
    persp!(perspective_rh_zo); persp!(perspective_lh_zo); persp!(perspective_rh_no); persp!(perspective_lh_no);
    macro_rules! pfov { ($f:ident) => { g!("perspective_fov", concat!(stringify!($f), "(tan=4/3,640x480)"), M::$f(fov1, qi(640), qi(480), qi(1), qi(5))); g!("perspective_fov", concat!(stringify!($f), "(tan=3/4,3x7)"), M::$f(fov2, qi(3), qi(7), qi(2), qi(3))); } }
    pfov!(perspective_fov_rh_zo); pfov!(perspective_fov_lh_zo); pfov!(perspective_fov_rh_no); pfov!(perspective_fov_lh_no);
    let (mut out, mut failed) = (Vec::new(), Vec::new());
    for (name, family, f) in gens {
        match catch(|| f().decode()) {
            Ok(m) => match catch(|| det(&m)) { Ok(d) if d != qi(0) => out.push(Pj { name, family, m }), _ => failed.push(format!("{}: not invertible", name)) },
            Err(e) => failed.push(format!("{}: {:?}", name, e)),
        }
    }
    out.push(Pj { name: "dense-projective#1".into(), family: "general-projection", m: ints4([[2, 0, 1, 1], [1, 3, 0, -2], [0, 1, 2, 1], [1, -1, 1, 3]]) });
    out.push(Pj { name: "dense-projective#2".into(), family: "general-projection", m: map4(&[[3i64, 1, -1, 2], [0, 2, 1, 1], [1, 0, -2, 3], [2, 1, 1, -1]], |v| q(v as i128, 3)) });
    // audit: dense-projective#2 has determinant 0 (only the forward sections can use it); #3 differs in one entry and is invertible (det -18/81)
    out.push(Pj { name: "dense-projective#3".into(), family: "general-projection", m: map4(&[[3i64, 1, -1, 2], [0, 2, 1, 1], [1, 0, -2, 3], [2, 1, 1, 1]], |v| q(v as i128, 3)) });
    (out, failed)
}
fn viewports() -> Vec<[X; 4]> { vec![[qi(0), qi(0), qi(640), qi(480)], [qi(10), qi(-20), qi(3), qi(7)], [qi(-5), qi(5), qi(1), qi(1)]] }
/// {-r..r}^3 ordered by L1 norm (so that the first failing point of a work item is a smallest one)
fn cube(r: i64) -> Vec<[X; 3]> { let mut v = Vec::new(); for x in -r..=r { for y in -r..=r { for z in -r..=r { v.push([x, y, z]); } } } v.sort_by_key(|p| p.iter().map(|c| c.abs()).sum::<i64>()); v.into_iter().map(|p| [xi(p[0]), xi(p[1]), xi(p[2])]).collect() }

const CLS_FWD: &str = "not-the-viewport-mapped-perspective-divide";
const CLS_RT: &str = "unprojecting-the-projection-does-not-return-the-point";
const CLS_UN: &str = "not-the-inverse-of-the-projection";
const CLS_PICK: &str = "window-rectangle-not-mapped-onto-the-clip-square";
const CLS_PICK_ST: &str = "composes-scale*translate(offset-gets-scaled)-so-the-window-rectangle-misses-the-clip-square";

/// par_lattice with a deeper split: vx's splitter stops at 8 coordinates, which for n = 39 leaves a quarter of the
/// whole lattice in the single all-zero prefix; splitting on the first `k` coordinates keeps every work item small.
fn par_lattice_deep(n: usize, d: u32, k: usize, cap: u32, total: &AtomicU64, f: impl Fn(&[i64], &mut Thr) + Sync) {
    fn rec(buf: &mut [i64], pos: usize, left: u32, f: &mut dyn FnMut(&[i64])) {
        if pos == buf.len() { f(buf); return; }
        for v in 0..=left { buf[pos] = v as i64; rec(buf, pos + 1, left - v, f); }
    }
    let mut prefixes: Vec<Vec<u8>> = Vec::new();
    lattice(k, d, |p| prefixes.push(p.iter().map(|&v| v as u8).collect()));
    prefixes.sort_by_key(|p| p.iter().map(|&v| v as u32).sum::<u32>());
    prefixes.par_iter().for_each(|p| {
        let used: u32 = p.iter().map(|&v| v as u32).sum();
        let mut buf = vec![0i64; n];
        for (i, v) in p.iter().enumerate() { buf[i] = *v as i64; }
        let mut thr = Thr::new(cap, total);
        let mut g = |b: &[i64]| f(b, &mut thr);
        rec(&mut buf, k, d - used, &mut g);
    });
}
/// deterministic throttle for mass failures: every failing case is counted (reported in the section meta), each
/// sequential work item (one matrix pair / one lattice prefix) keeps the full record of its first `cap` failures per
/// site|class; work items enumerate in a fixed order, so the recorded set does not depend on scheduling
struct Thr<'a> { seen: Vec<(String, u32)>, cap: u32, total: &'a AtomicU64 }
impl<'a> Thr<'a> {
    fn new(cap: u32, total: &'a AtomicU64) -> Thr<'a> { Thr { seen: Vec::new(), cap, total } }
    fn allow(&mut self, site: &str, class: &str) -> bool {
        self.total.fetch_add(1, Relaxed);
        let key = format!("{}|{}", site, class);
        match self.seen.iter_mut().find(|e| e.0 == key) { Some(e) => { e.1 += 1; e.1 <= self.cap } None => { self.seen.push((key, 1)); true } }
    }
}

struct Cnt(Vec<(&'static str, AtomicU64)>);
impl Cnt {
    fn new(names: &[&'static str]) -> Cnt { Cnt(names.iter().map(|n| (*n, AtomicU64::new(0))).collect()) }
    fn add(&self, name: &str, n: u64) { self.0.iter().find(|e| e.0 == name).unwrap_or_else(|| panic!("undeclared counter {}", name)).1.fetch_add(n, Relaxed); }
    fn flush(&self, s: &Section) { for (n, c) in &self.0 { let v = c.load(Relaxed); if v > 0 { s.class_n(n, v); } } }
}

/// picking: check the 4 corners at 3 depths; returns the first failing corner
fn pick_bad(m: &A<X, 4>, c: &[X; 2], d: &[X; 2], vp: &[X; 4]) -> Option<serde_json::Value> {
    for z in [qi(0), qi(1), qi(-2)] { for sx in [qi(-1), qi(1)] { for sy in [qi(-1), qi(1)] {
        let h = pick_corner_h(m, c, d, vp, sx, sy, z);
        if h[3] == qi(0) { return Some(json!({"corner": jxs(&[sx, sy]), "clip_depth": jx(z), "image(homogeneous)": jxs(&h), "what": "image at infinity"})); }
        let (gx, gy) = (h[0] / h[3], h[1] / h[3]);
        if gx != sx || gy != sy { return Some(json!({"corner": jxs(&[sx, sy]), "clip_depth": jx(z), "image": jxs(&[gx, gy]), "want": jxs(&[sx, sy])})); }
    } } }
    None
}
/// diagnosis only (never a verdict): does the matrix equal S(sc)·T(tr) with GLM's sc, tr, and does that differ from T·S?
fn pick_class(m: &A<X, 4>, c: &[X; 2], d: &[X; 2], vp: &[X; 4]) -> &'static str {
    let sc = [vp[2] / d[0], vp[3] / d[1]];
    let tr = [(vp[2] - qi(2) * (c[0] - vp[0])) / d[0], (vp[3] - qi(2) * (c[1] - vp[1])) / d[1]];
    let mut st = ident::<X, 4>();
    for i in 0..2 { st[i][i] = sc[i]; st[i][3] = sc[i] * tr[i]; }
    if *m == st { CLS_PICK_ST } else { CLS_PICK }
}

struct Premise { fwd: u32, un7: u32, un39: u32, pick: u32, pick_cmps: Vec<u32>, runs: u64, degraded: Vec<String> }
/// degree / branch-freedom measurement on the code as it is on disk (run before the sections so that replays use the same lattice orders)
fn measure() -> Premise {
    let (var4, cst4) = ([[Deg::VAR; 4]; 4], [[Deg::CONST; 4]; 4]);
    let (vp, pt) = ([Deg::VAR; 4], [Deg::VAR; 3]);
    let cross = |g: &[Deg; 3], r: &[Deg; 3]| (0..3).map(|i| (g[i].n + r[i].d).max(r[i].n + g[i].d)).max().unwrap();
    let mut pm = Premise { fwd: 0, un7: 0, un39: 0, pick: 0, pick_cmps: Vec::new(), runs: 0, degraded: Vec::new() };
    for row in [true, false] { for fl in FLS {
        pm.runs += 2;
        match catch(|| real_w2v::<Deg>(row, fl, &pt, &var4, &var4, &vp)) {
            Ok(g) => { let r = ref_window(&ref_clip(&var4, &var4, &pt), &vp, fl); pm.fwd = pm.fwd.max(cross(&g, &r)); }
            Err(e) => { pm.fwd = 99; pm.degraded.push(format!("world_to_viewport_{} <{}>: {:?}", fl.s(), lay(row), e)); }
        }
        match catch(|| real_v2w::<Deg>(row, fl, &pt, &cst4, &cst4, &vp)) {
            Ok(g) => { let h = ref_unproject_h(&cst4, &vp, &pt, fl); let r = [h[0] / h[3], h[1] / h[3], h[2] / h[3]]; pm.un7 = pm.un7.max(cross(&g, &r)); }
            Err(e) => { pm.un7 = 99; pm.degraded.push(format!("viewport_to_world_{} <{}>: {:?}", fl.s(), lay(row), e)); }
        }
        if let Ok(g) = catch(|| real_v2w::<Deg>(row, fl, &pt, &var4, &var4, &vp)) { pm.un39 = pm.un39.max(g.iter().map(|d| d.n + d.d).max().unwrap()); }
    } }
    for row in [true, false] {
        pm.runs += 1;
        CMPS.with(|c| c.set(0));
        match catch(|| real_pick::<DegA>(row, &[DA_VAR; 2], &[DA_VAR; 2], &[DA_VAR; 4])) {
            Ok(m) => {
                let n = CMPS.with(|c| c.get());
                pm.pick_cmps.push(n);
                if n != 2 { pm.degraded.push(format!("picking_region <{}> performed {} ordering comparisons, expected the 2 documented asserts", lay(row), n)); }
                match catch(|| { let h = pick_corner_h(&m, &[DA_VAR; 2], &[DA_VAR; 2], &[DA_VAR; 4], DA_CONST, DA_CONST, DA_CONST); [(h[0] / h[3]).deg, (h[1] / h[3]).deg] }) {
                    Ok(rs) => for r in rs { pm.pick = pm.pick.max(r.n.max(r.d)); },
                    Err(e) => { pm.pick = 99; pm.degraded.push(format!("picking_region <{}> corner identity: {:?}", lay(row), e)); }
                }
            }
            Err(e) => { pm.pick = 99; pm.degraded.push(format!("picking_region <{}>: {:?}", lay(row), e)); }
        }
    }
    pm
}

// ---------------------------------------------------------------------------------------------------
// audit additions: argument forms, structured extremes, floats

/// the four `Into<Vec3<T>>` forms a caller can hand a point in (the Vec4 form carries a junk w = 2 that must be dropped)
#[derive(Clone, Copy, PartialEq, Eq, Debug)]
enum Form { V3, Arr, Tup, V4 }
const FORMS: [Form; 4] = [Form::V3, Form::Arr, Form::Tup, Form::V4];
impl Form { fn s(self) -> &'static str { match self { Form::V3 => "form-vec3", Form::Arr => "form-array", Form::Tup => "form-tuple", Form::V4 => "form-vec4(w dropped)" } } }
macro_rules! call4 { ($no:ident, $zo:ident, $row:expr, $fl:expr, $o:expr, $mv:expr, $p:expr, $r:expr) => { match ($row, $fl) {
    (true, Fl::NO) => rm::Mat4::$no($o, r4($mv), r4($p), $r), (true, Fl::ZO) => rm::Mat4::$zo($o, r4($mv), r4($p), $r),
    (false, Fl::NO) => cm::Mat4::$no($o, c4($mv), c4($p), $r), (false, Fl::ZO) => cm::Mat4::$zo($o, c4($mv), c4($p), $r),
} } }
macro_rules! by_form { ($no:ident, $zo:ident, $form:expr, $row:expr, $fl:expr, $a:expr, $mv:expr, $p:expr, $vp:expr) => { {
    let r = Rect { x: $vp[0], y: $vp[1], w: $vp[2], h: $vp[3] };
    let a = $a;
    let v = match $form {
        Form::V3 => call4!($no, $zo, $row, $fl, Vec3 { x: a[0], y: a[1], z: a[2] }, $mv, $p, r),
        Form::Arr => call4!($no, $zo, $row, $fl, *a, $mv, $p, r),
        Form::Tup => call4!($no, $zo, $row, $fl, (a[0], a[1], a[2]), $mv, $p, r),
        Form::V4 => call4!($no, $zo, $row, $fl, Vec4 { x: a[0], y: a[1], z: a[2], w: two::<T>() }, $mv, $p, r),
    };
    dv3(&v)
} } }
fn w2v_form<T: Real + MulAdd<T, T, Output = T>>(form: Form, row: bool, fl: Fl, pt: &[T; 3], mv: &A<T, 4>, p: &A<T, 4>, vp: &[T; 4]) -> [T; 3] { by_form!(world_to_viewport_no, world_to_viewport_zo, form, row, fl, pt, mv, p, vp) }
fn v2w_form<T: Real + MulAdd<T, T, Output = T>>(form: Form, row: bool, fl: Fl, ray: &[T; 3], mv: &A<T, 4>, p: &A<T, 4>, vp: &[T; 4]) -> [T; 3] { by_form!(viewport_to_world_no, viewport_to_world_zo, form, row, fl, ray, mv, p, vp) }
/// picking_region with centre and size handed over as Vec2 (0), [T;2] (1) or (T,T) (2)
fn pick_form<T: Real + MulAdd<T, T, Output = T>>(form: usize, row: bool, c: &[T; 2], d: &[T; 2], vp: &[T; 4]) -> A<T, 4> {
    let r = Rect { x: vp[0], y: vp[1], w: vp[2], h: vp[3] };
    match (form % 3, row) {
        (0, true) => dr4(&rm::Mat4::picking_region(Vec2 { x: c[0], y: c[1] }, Vec2 { x: d[0], y: d[1] }, r)),
        (0, false) => dc4(&cm::Mat4::picking_region(Vec2 { x: c[0], y: c[1] }, Vec2 { x: d[0], y: d[1] }, r)),
        (1, true) => dr4(&rm::Mat4::picking_region(*c, *d, r)),
        (1, false) => dc4(&cm::Mat4::picking_region(*c, *d, r)),
        (_, true) => dr4(&rm::Mat4::picking_region((c[0], c[1]), (d[0], d[1]), r)),
        (_, false) => dc4(&cm::Mat4::picking_region((c[0], c[1]), (d[0], d[1]), r)),
    }
}
const PICK_FORMS: [&str; 3] = ["form-vec2", "form-array", "form-tuple"];

fn pow2(k: i32) -> X { if k >= 0 { qi(1i128 << k) } else { q(1, 1i128 << (-k)) } }
fn scale4(m: &A<X, 4>, k: X) -> A<X, 4> { map4(m, |e| e * k) }
fn inv4(pm: &A<X, 4>) -> A<X, 4> { let d = det(pm); map4(&adjugate(pm), |e| e / d) }

/// further generators for the projection slot: the (tweaked) infinite perspectives, decoded through fields
fn extra_projections() -> Vec<Pj> {
    let b1 = angle_base_t(1, 2);
    let fov = X::tok(b1, 2);
    type M = rm::Mat4<X>;
    let gens: Vec<(&str, Box<dyn Fn() -> M>)> = vec![
        ("infinite_perspective_rh(tan=4/3,aspect 2)", Box::new(move || M::infinite_perspective_rh(fov, qi(2), qi(1)))),
        ("infinite_perspective_lh(tan=4/3,aspect 3/2)", Box::new(move || M::infinite_perspective_lh(fov, q(3, 2), q(1, 2)))),
        ("tweaked_infinite_perspective_rh(eps=1/1024)", Box::new(move || M::tweaked_infinite_perspective_rh(fov, qi(2), qi(1), q(1, 1024)))),
        ("tweaked_infinite_perspective_lh(eps=1/1024)", Box::new(move || M::tweaked_infinite_perspective_lh(fov, q(3, 2), q(1, 2), q(1, 1024)))),
    ];
    let mut out = Vec::new();
    for (name, f) in gens { if let Ok(m) = catch(|| f().decode()) { if let Ok(d) = catch(|| det(&m)) { if d != qi(0) { out.push(Pj { name: name.to_string(), family: "infinite-perspective", m }); } } } }
    out
}

// ---- floats: the same generic code instantiated at f32 / f64 ----------------------------------------
trait Flt: Real + vek::num_traits::FloatConst + MulAdd<Self, Self, Output = Self> + std::fmt::Debug + Send + Sync + 'static {
    const NAME: &'static str; const EPS: f64;
    /// exponent of the extreme scale (2^+-K must leave every intermediate of the ORIGINAL code in the normal range)
    const KBIG: i32;
    /// exponent applied to each of P and MV where the general inverse is involved (its determinant scales with the 4th power of the product)
    const KMAT: i32;
    fn of(v: f64) -> Self; fn f(self) -> f64;
}
impl Flt for f32 { const NAME: &'static str = "f32"; const EPS: f64 = f32::EPSILON as f64; const KBIG: i32 = 40; const KMAT: i32 = 10; fn of(v: f64) -> f32 { v as f32 } fn f(self) -> f64 { self as f64 } }
impl Flt for f64 { const NAME: &'static str = "f64"; const EPS: f64 = f64::EPSILON; const KBIG: i32 = 400; const KMAT: i32 = 100; fn of(v: f64) -> f64 { v } fn f(self) -> f64 { self } }
fn fp2<F: Flt>(k: i32) -> F { F::of(2f64.powi(k)) }
/// exact conversion of a dyadic rational input (machinery panic if the float type cannot hold it exactly)
fn to_f<F: Flt>(x: X) -> F { let v = F::of(x.shadow()); assert!(vx::fl::qf(v.f()) == x.rat(), "float alphabet entry {:?} is not exactly representable in {}", x, F::NAME); v }
fn arr_f<F: Flt, const N: usize>(a: &[X; N]) -> [F; N] { let mut o = [F::zero(); N]; for i in 0..N { o[i] = to_f(a[i]); } o }
fn mat_f<F: Flt>(a: &A<X, 4>) -> A<F, 4> { map4(a, to_f::<F>) }
fn absm(a: &A<X, 4>) -> A<f64, 4> { map4(a, |e| e.shadow().abs()) }
/// sum of the absolute values of the Leibniz terms of the minor (r,c) / of the determinant: the magnitude any
/// evaluation scheme of that polynomial works at (forward error <= small constant * eps * this)
fn perm_minor(a: &A<f64, 4>, r: usize, c: usize) -> f64 { minor(&map4(a, |e| Pos(e)), r, c).0 }
fn perm4(a: &A<f64, 4>) -> f64 { det(&map4(a, |e| Pos(e))).0 }
/// non-negative magnitudes: subtraction and negation add (so det/minor become permanents)
#[derive(Clone, Copy)] struct Pos(f64);
impl Add for Pos { type Output = Pos; fn add(self, o: Pos) -> Pos { Pos(self.0 + o.0) } }
impl Sub for Pos { type Output = Pos; fn sub(self, o: Pos) -> Pos { Pos(self.0 + o.0) } }
impl Mul for Pos { type Output = Pos; fn mul(self, o: Pos) -> Pos { Pos(self.0 * o.0) } }
impl Neg for Pos { type Output = Pos; fn neg(self) -> Pos { self } }
impl Zero for Pos { fn zero() -> Pos { Pos(0.0) } fn is_zero(&self) -> bool { self.0 == 0.0 } }
impl One for Pos { fn one() -> Pos { Pos(1.0) } }

/// dyadic alphabets (every entry exactly representable in f32): exact rational reference and float run share the inputs
fn dy(v: [[i64; 4]; 4], den: i128) -> A<X, 4> { map4(&v, |e| q(e as i128, den)) }
fn float_modelviews() -> Vec<(&'static str, A<X, 4>)> { vec![
    ("T(1,2,-3) S(2,1/2,1)", dy([[4, 0, 0, 2], [0, 1, 0, 4], [0, 0, 2, -6], [0, 0, 0, 2]], 2)),
    ("RZ(90) shear T(-1,3,1/2)", dy([[0, -4, 2, -4], [4, 0, 0, 12], [0, 1, 4, 2], [0, 0, 0, 4]], 4)),
    ("dense#1", dy([[2, 1, 0, 3], [1, 3, 1, -1], [0, -2, 1, 2], [1, 0, 1, 1]], 1)),
    ("dense#3", dy([[1, 2, 0, -1], [0, 1, 3, 2], [2, 0, 1, 1], [1, -1, 0, 3]], 2)),
] }
fn float_projections() -> Vec<(&'static str, A<X, 4>)> { vec![
    // glFrustum(-1,3,-2,2,1,5): 2n/(r-l), (r+l)/(r-l), 2n/(t-b), (t+b)/(t-b), -(f+n)/(f-n), -2fn/(f-n)
    ("frustum-like off-centre (rh, no)", dy([[2, 0, 2, 0], [0, 2, 0, 0], [0, 0, -6, -10], [0, 0, -4, 0]], 4)),
    // glOrtho(-1,3,-2,2,1,5)
    ("ortho-like off-centre (rh, no)", dy([[2, 0, 0, -2], [0, 2, 0, 0], [0, 0, -2, -6], [0, 0, 0, 4]], 4)),
    ("perspective-like (lh, zo)", dy([[3, 0, 0, 0], [0, 4, 0, 0], [0, 0, 5, -5], [0, 0, 4, 0]], 4)),
    ("dense-projective#1", dy([[2, 0, 1, 1], [1, 3, 0, -2], [0, 1, 2, 1], [1, -1, 1, 3]], 1)),
] }

fn main() {
    let rep = Report::start("C10", "exploration");
    let th = rep.thorough();
    let mvs = modelviews(if th { 2 } else { 1 });
    let (pjs, pj_failed) = projections();
    let vps = viewports();

    // -------------------------------------------------------------------------------------------------
    let pm = measure();
    let (d_fwd, d_un7, d_pick) = (pm.fwd, pm.un7, pm.pick);
    rep.section("premise: the five functions are branch-free rational expressions of measured degree",
        "one run of each function x layout (x flavour) on tropical degree values (any value inspection panics; picking_region's two documented `delta > 0` asserts are counted and must be the only comparisons; structural zeros from T::zero() do not raise a degree): cross-degree of world_to_viewport against the reference in all 39 inputs, of viewport_to_world in the 7 window/viewport inputs (matrices constant), of the picking corner identity in its 8 inputs; non-trivial: all", true, true, |s| {
        s.evals(pm.runs, pm.runs);
        for d in &pm.degraded { s.degrade(d); }
        s.meta("measured_cross_degree", json!({"world_to_viewport (39 variables)": pm.fwd, "viewport_to_world (7 variables, matrices constant)": pm.un7, "picking corner identity (8 variables)": pm.pick,
            "viewport_to_world numerator+denominator bound over all 39 variables (not enumerated: far beyond any lattice)": pm.un39}));
        s.meta("picking_region ordering comparisons per call (the documented asserts)", json!(pm.pick_cmps));
        s.sample(json!({"function": "world_to_viewport_no <row>", "inputs": "16+16 matrix entries, 4 viewport fields, 3 coordinates = degree-1 variables", "measured_cross_degree": pm.fwd}));
    });

    // -------------------------------------------------------------------------------------------------
    let extra = if th { 8 } else { 2 }; // audit: thorough raised from 4 (the whole section took 0.1 s)
    let pick_order = d_pick.min(12) + extra;
    rep.section("picking_region maps the window rectangle onto the clip square (lattice over the 8 parameters)",
        "all points of the simplex lattice L(8, D + extra) (D = measured degree of the corner identity, extra = 2 quick / 8 thorough) translated to centre (0,0), size (1,1), viewport (0,0,1,1) so that every size and viewport extent is >= 1: real picking_region of both layouts, decoded through fields, applied by the reference product to the 4 corners (c +- d/2) written in clip coordinates (2(x - vp.x)/vp.w - 1, w = 1, depths {0,1,-2}); each image divided by its w must be (+-1,+-1); non-trivial: the region is off-centre and not of viewport size in at least one axis", true, true, |s| {
        s.require_classes(&["region-centred-in-viewport", "region-of-viewport-size(one-axis-or-both)", "generic-region", "layout-row", "layout-col"]);
        if d_pick > 12 { s.degrade("degree premise failed"); }
        let cnt = Cnt::new(&["region-centred-in-viewport", "region-of-viewport-size(one-axis-or-both)", "generic-region", "layout-row", "layout-col"]);
        let nbad = AtomicU64::new(0);
        par_lattice(8, pick_order, |a| {
            let c = [xi(a[0]), xi(a[1])]; let d = [xi(1 + a[2]), xi(1 + a[3])]; let vp = [xi(a[4]), xi(a[5]), xi(1 + a[6]), xi(1 + a[7])];
            let centred = |i: usize| qi(2) * (c[i] - vp[i]) == vp[2 + i];
            let full = |i: usize| d[i] == vp[2 + i];
            let nontriv = (0..2).any(|i| !centred(i) && !full(i));
            cnt.add(if centred(0) && centred(1) { "region-centred-in-viewport" } else if full(0) || full(1) { "region-of-viewport-size(one-axis-or-both)" } else { "generic-region" }, 1);
            let w = a.iter().sum::<i64>() as u64;
            let inp = || json!({"center": jxs(&c), "delta": jxs(&d), "viewport(x,y,w,h)": jxs(&vp)});
            for row in [true, false] {
                s.eval(nontriv); cnt.add(if row { "layout-row" } else { "layout-col" }, 1);
                let site = format!("Mat4<{}>::picking_region", lay(row));
                if let Some(m) = s.call(&site, inp, || real_pick::<X>(row, &c, &d, &vp)) {
                    match catch(|| pick_bad(&m, &c, &d, &vp)) {
                        // every failing case is counted (meta); the full record is kept for the points of weight <= 3 (deterministic)
                        Ok(Some(bad)) => { nbad.fetch_add(1, Relaxed); if w <= 3 { s.violation_w(&site, pick_class(&m, &c, &d, &vp), json!({"input": inp(), "matrix": jmat(&m), "first_failing_corner": bad}), w); } }
                        Ok(None) => {}
                        Err(_) => s.unmodelled("overflow in the reference"),
                    }
                }
            }
            if nontriv && w == pick_order as u64 && s.wants_sample() { s.sample(json!({"input": inp(), "law": "M * clip(c + s*d/2) = s for the four sign pairs s"})); }
        });
        cnt.flush(s);
        s.meta("lattice", json!({"n": 8, "measured_degree": d_pick, "order": pick_order, "points": lattice_count(8, pick_order).to_string(), "failing (point, layout) cases": nbad.load(Relaxed)}));
    });

    rep.section("picking_region on the concrete grid (arguments passed as arrays)",
        "3 viewports {(0,0,640,480),(10,-20,3,7),(-5,5,1,1)} x 7 centres (viewport centre, bottom-left corner, inside off-centre, outside, fractional) x 6 sizes (1x1, 5x3, 1/2 x 2, viewport size, twice the viewport, 7/3 x 1/5), both layouts, centre and size handed over as [T;2]: same corner law as above; non-trivial: off-centre and not of viewport size in at least one axis", true, false, |s| {
        s.require_classes(&["region-centred-in-viewport", "region-of-viewport-size(one-axis-or-both)", "generic-region"]);
        for (vi, vp) in vps.iter().enumerate() {
            let centre = [vp[0] + vp[2] / qi(2), vp[1] + vp[3] / qi(2)];
            let centres = [centre, [vp[0], vp[1]], [vp[0] + vp[2] / qi(4), vp[1] + vp[3] * q(2, 3)], [vp[0] - qi(3), vp[1] + vp[3] + qi(2)], [q(-9, 2), q(11, 2)], [qi(0), qi(0)], [centre[0], vp[1] + qi(1)]];
            let sizes = [[qi(1), qi(1)], [qi(5), qi(3)], [q(1, 2), qi(2)], [vp[2], vp[3]], [vp[2] * qi(2), vp[3] * qi(2)], [q(7, 3), q(1, 5)]];
            for (ci, c) in centres.iter().enumerate() { for (di, d) in sizes.iter().enumerate() {
                let centred = |i: usize| qi(2) * (c[i] - vp[i]) == vp[2 + i];
                let full = |i: usize| d[i] == vp[2 + i];
                let nontriv = (0..2).any(|i| !centred(i) && !full(i));
                s.class(if centred(0) && centred(1) { "region-centred-in-viewport" } else if full(0) || full(1) { "region-of-viewport-size(one-axis-or-both)" } else { "generic-region" });
                let inp = || json!({"center": jxs(c), "delta": jxs(d), "viewport(x,y,w,h)": jxs(vp)});
                for row in [true, false] {
                    s.eval(nontriv);
                    let site = format!("Mat4<{}>::picking_region", lay(row));
                    if let Some(m) = s.call(&site, inp, || real_pick_arr(row, c, d, vp)) {
                        match catch(|| pick_bad(&m, c, d, vp)) {
                            Ok(Some(bad)) => s.violation_w(&site, pick_class(&m, c, d, vp), json!({"input": inp(), "matrix": jmat(&m), "first_failing_corner": bad}), 1000 + (vi * 100 + ci * 10 + di) as u64),
                            Ok(None) => {}
                            Err(_) => s.unmodelled("overflow in the reference"),
                        }
                    }
                }
                if nontriv && s.wants_sample() { s.sample(json!({"input": inp()})); }
            } }
        }
    });

    // -------------------------------------------------------------------------------------------------
    let pts = cube(if th { 3 } else { 2 });
    let pairs: Vec<(usize, usize)> = (0..mvs.len()).flat_map(|i| (0..pjs.len()).map(move |j| (i, j))).collect();
    let fams = ["orthographic", "frustum", "perspective", "perspective_fov", "general-projection"];
    let grid_rule = "model-views {identity, the 11 C07 steps (3 translations, 2 scalings, 5 axis rotations, 1 rotation about (1,2,2)/3), thorough: all 121 two-step chains, 3 dense non-affine invertible matrices} x projections {orthographic_without_depth_planes, orthographic_*, frustum_*, perspective_*, perspective_fov_* (each lh/rh x zo/no, two parameter sets incl. off-centre volumes; built by the real constructors, decoded through fields and used as the input matrix whatever they contain), 3 dense projective matrices (#2 is singular: forward sections only)} x viewports {(0,0,640,480),(10,-20,3,7),(-5,5,1,1)} x points {-2..2}^3 (thorough {-3..3}^3) x {_no,_zo} x {row,col}";
    rep.section("world_to_viewport = viewport-mapped perspective divide (exact grid)",
        &format!("{}: real result vs clip = P(MV(p,1)), ndc = clip/w, window = (vp.x + (ndc.x+1)/2 vp.w, vp.y + (ndc.y+1)/2 vp.h, (ndc.z+1)/2 | ndc.z) on arrays; points with clip w = 0 are outside the property and skipped (counted); non-trivial: clip w != 0 and ndc.xy != (0,0)", grid_rule), true, false, |s| {
        let names = ["orthographic", "frustum", "perspective", "perspective_fov", "general-projection", "identity-modelview", "affine-modelview", "general-modelview", "clip-w-positive", "clip-w-negative", "clip-w-not-1(genuine divide)", "clip-w-zero(skipped)", "depth-outside-the-clip-range", "flavour-no", "flavour-zo", "layout-row", "layout-col"];
        s.require_classes(&names);
        let cnt = Cnt::new(&names);
        let nfail = AtomicU64::new(0);
        pairs.par_iter().for_each(|&(mi, pi)| {
            let (mv, pj) = (&mvs[mi], &pjs[pi]);
            let mut thr = Thr::new(3, &nfail);
            for (vi, vp) in vps.iter().enumerate() { for pt in &pts {
                let clip = match catch(|| ref_clip(&mv.m, &pj.m, pt)) { Ok(c) => c, Err(_) => { s.eval(false); s.unmodelled("overflow in the reference"); continue; } };
                if clip[3] == qi(0) { s.eval(false); cnt.add("clip-w-zero(skipped)", 1); continue; }
                cnt.add(pj.family, 1); cnt.add(mv.kind, 1);
                cnt.add(if clip[3] > qi(0) { "clip-w-positive" } else { "clip-w-negative" }, 1);
                if clip[3] != qi(1) { cnt.add("clip-w-not-1(genuine divide)", 1); }
                let nontriv = clip[0] != qi(0) || clip[1] != qi(0);
                let wgt = (mi * 100 + pi) as u64 * 100 + (vi as u64) * 30 + pt.iter().map(|c| c.rat().n.unsigned_abs() as u64).sum::<u64>();
                for fl in FLS {
                    let want = match catch(|| ref_window(&clip, vp, fl)) { Ok(w) => w, Err(_) => { s.eval(false); s.unmodelled("overflow in the reference"); continue; } };
                    if fl == Fl::ZO && (want[2] < qi(0) || want[2] > qi(1)) { cnt.add("depth-outside-the-clip-range", 1); }
                    for row in [true, false] {
                        s.eval(nontriv); cnt.add(if fl == Fl::NO { "flavour-no" } else { "flavour-zo" }, 1); cnt.add(if row { "layout-row" } else { "layout-col" }, 1);
                        let site = format!("Mat4<{}>::world_to_viewport_{}", lay(row), fl.s());
                        let inp = || json!({"modelview": mv.name, "MV": jmat(&mv.m), "projection": pj.name, "P": jmat(&pj.m), "viewport(x,y,w,h)": jxs(vp), "point": jxs(pt)});
                        if let Some(got) = s.call(&site, inp, || real_w2v::<X>(row, fl, pt, &mv.m, &pj.m, vp)) {
                            if got != want { if thr.allow(&site, CLS_FWD) { s.violation_w(&site, CLS_FWD, json!({"input": inp(), "clip": jxs(&clip), "got": jxs(&got), "want": jxs(&want)}), wgt); } }
                            else if nontriv && mi > 0 && clip[3] != qi(1) && s.wants_sample() { s.sample(json!({"input": inp(), "clip": jxs(&clip), "window": jxs(&want), "flavour": fl.s()})); }
                        }
                    }
                }
            } }
        });
        cnt.flush(s);
        s.meta("alphabet", json!({"modelviews": mvs.len(), "projections": pjs.len(), "projection_builders_dropped": pj_failed, "viewports": vps.len(), "points": pts.len(), "flavours": 2, "layouts": 2}));
        s.meta("failing_cases(all counted; first 3 per matrix pair and site recorded)", json!(nfail.load(Relaxed)));
    });

    rep.section("viewport_to_world(world_to_viewport(p)) = p and window -> world -> window (exact grid)",
        &format!("{}: (a) the real unprojection of the real projection returns the point exactly; (b) for the 27 window points {{vp.x, vp.x+vp.w/2, vp.x+vp.w+1}} x {{vp.y, vp.y+vp.h/3, vp.y-2}} x depths {{0, 1/2, 1}} whose reference pre-image (adj(P MV)/det applied to the ndc point) is finite: real viewport_to_world (point passed as [T;3]) equals that pre-image and the real projection brings it back to the window point; non-trivial: clip w != 1 or model-view not the identity", grid_rule), true, false, |s| {
        let names = ["orthographic", "frustum", "perspective", "perspective_fov", "general-projection", "identity-modelview", "affine-modelview", "general-modelview", "round-trip-world", "round-trip-window", "clip-w-zero(skipped)", "pre-image-at-infinity(skipped)", "flavour-no", "flavour-zo", "layout-row", "layout-col"];
        s.require_classes(&names[..10]); s.require_classes(&names[12..]);
        let cnt = Cnt::new(&names);
        let nfail = AtomicU64::new(0);
        pairs.par_iter().for_each(|&(mi, pi)| {
            let (mv, pj) = (&mvs[mi], &pjs[pi]);
            let mut thr = Thr::new(3, &nfail);
            let inv = match catch(|| { let pm = mmul(&pj.m, &mv.m); let d = det(&pm); map4(&adjugate(&pm), |e| e / d) }) { Ok(i) => i, Err(_) => { s.eval(false); s.unmodelled("overflow in the reference"); return; } };
            for (vi, vp) in vps.iter().enumerate() {
                for pt in &pts {
                    let clip = match catch(|| ref_clip(&mv.m, &pj.m, pt)) { Ok(c) => c, Err(_) => { s.eval(false); s.unmodelled("overflow in the reference"); continue; } };
                    if clip[3] == qi(0) { s.eval(false); cnt.add("clip-w-zero(skipped)", 1); continue; }
                    cnt.add(pj.family, 1); cnt.add(mv.kind, 1);
                    let nontriv = clip[3] != qi(1) || mi > 0;
                    let wgt = (mi * 100 + pi) as u64 * 100 + (vi as u64) * 30 + pt.iter().map(|c| c.rat().n.unsigned_abs() as u64).sum::<u64>();
                    for fl in FLS { for row in [true, false] {
                        s.eval(nontriv); cnt.add("round-trip-world", 1); cnt.add(if fl == Fl::NO { "flavour-no" } else { "flavour-zo" }, 1); cnt.add(if row { "layout-row" } else { "layout-col" }, 1);
                        let site = format!("Mat4<{}>::viewport_to_world_{}", lay(row), fl.s());
                        let inp = || json!({"modelview": mv.name, "MV": jmat(&mv.m), "projection": pj.name, "P": jmat(&pj.m), "viewport(x,y,w,h)": jxs(vp), "point": jxs(pt)});
                        let Some(win) = s.call(&format!("Mat4<{}>::world_to_viewport_{}", lay(row), fl.s()), inp, || real_w2v::<X>(row, fl, pt, &mv.m, &pj.m, vp)) else { continue };
                        if let Some(back) = s.call(&site, inp, || real_v2w::<X>(row, fl, &win, &mv.m, &pj.m, vp)) {
                            if back != *pt { if !thr.allow(&site, CLS_RT) { continue; } s.violation_w(&site, CLS_RT, json!({"input": inp(), "window": jxs(&win), "got": jxs(&back), "want": jxs(pt)}), wgt); }
                            else if nontriv && clip[3] != qi(1) && s.wants_sample() { s.sample(json!({"input": inp(), "window": jxs(&win), "back": jxs(&back), "flavour": fl.s()})); }
                        }
                    } }
                }
                // (b) window points
                let (xs, ys, zs) = ([vp[0], vp[0] + vp[2] / qi(2), vp[0] + vp[2] + qi(1)], [vp[1], vp[1] + vp[3] / qi(3), vp[1] - qi(2)], [qi(0), q(1, 2), qi(1)]);
                let mut rays: Vec<[X; 3]> = Vec::new();
                for x in xs { for y in ys { for z in zs { rays.push([x, y, z]); } } }
                for (k, ray) in rays.into_iter().enumerate() { for fl in FLS {
                    let h = match catch(|| ref_unproject_h(&inv, vp, &ray, fl)) { Ok(h) => h, Err(_) => { s.eval(false); s.unmodelled("overflow in the reference"); continue; } };
                    if h[3] == qi(0) { s.eval(false); cnt.add("pre-image-at-infinity(skipped)", 1); continue; }
                    let want = match catch(|| [h[0] / h[3], h[1] / h[3], h[2] / h[3]]) { Ok(w) => w, Err(_) => { s.eval(false); s.unmodelled("overflow in the reference"); continue; } };
                    for row in [true, false] {
                        s.eval(true); cnt.add("round-trip-window", 1);
                        let site = format!("Mat4<{}>::viewport_to_world_{}", lay(row), fl.s());
                        let inp = || json!({"modelview": mv.name, "MV": jmat(&mv.m), "projection": pj.name, "P": jmat(&pj.m), "viewport(x,y,w,h)": jxs(vp), "window_point": jxs(&ray)});
                        let wgt = (mi * 100 + pi) as u64 * 100 + (vi as u64) * 30 + k as u64;
                        if let Some(got) = s.call(&site, inp, || real_v2w_arr(row, fl, &ray, &mv.m, &pj.m, vp)) {
                            if got != want { if thr.allow(&site, CLS_UN) { s.violation_w(&site, CLS_UN, json!({"input": inp(), "got": jxs(&got), "want(pre-image under the reference projection)": jxs(&want)}), wgt); } continue; }
                            let fsite = format!("Mat4<{}>::world_to_viewport_{}", lay(row), fl.s());
                            if let Some(again) = s.call(&fsite, inp, || real_w2v::<X>(row, fl, &got, &mv.m, &pj.m, vp)) {
                                if again != ray && thr.allow(&fsite, CLS_FWD) { s.violation_w(&fsite, CLS_FWD, json!({"input": inp(), "world(real unprojection)": jxs(&got), "got": jxs(&again), "want": jxs(&ray)}), wgt); }
                            }
                        }
                    }
                } }
            }
        });
        cnt.flush(s);
        s.meta("alphabet", json!({"modelviews": mvs.len(), "projections": pjs.len(), "viewports": vps.len(), "points": pts.len(), "window_points_per_viewport": 27}));
        s.meta("failing_cases(all counted; first 3 per matrix pair and site|class recorded)", json!(nfail.load(Relaxed)));
    });

    // -------------------------------------------------------------------------------------------------
    let fwd_order = if th { d_fwd.min(7) } else { 4 };
    rep.section("world_to_viewport as a formal rational identity in all 39 inputs (formal fractions on the simplex lattice)",
        "all points of L(39, D) (16 + 16 matrix entries as deviations from the identity, viewport (0,0,1,1) + deviation, point = deviation), D = 4 quick / the measured cross-degree (7) thorough: the real functions of both layouts and flavours run on formal fractions n/d (no quotient is formed, so clip w = 0 is not skipped) and every component must cross-multiply to the reference pipeline evaluated on the same formal fractions; complete (decides every matrix pair, viewport and point) when D >= the measured degree, otherwise a bounded sweep; non-trivial: clip w != 0", true, th, |s| {
        s.require_classes(&["clip-w-nonzero"]);
        if d_fwd > fwd_order { s.degrade(&format!("lattice order {} below the measured cross-degree {} (quick tier; the thorough tier runs the full order)", fwd_order, d_fwd)); }
        let cnt = Cnt::new(&["clip-w-nonzero", "clip-w-zero(formal)"]);
        let nfail = AtomicU64::new(0);
        par_lattice_deep(39, fwd_order, 20, 1, &nfail, |a, thr| {
            let mut mv = [[Fr::int(0); 4]; 4]; let mut p = mv; let mut mvi = [[0i128; 4]; 4]; let mut pi_ = mvi;
            for i in 0..4 { for j in 0..4 {
                mvi[i][j] = a[4 * i + j] as i128 + (i == j) as i128; pi_[i][j] = a[16 + 4 * i + j] as i128 + (i == j) as i128;
                mv[i][j] = Fr::int(mvi[i][j]); p[i][j] = Fr::int(pi_[i][j]);
            } }
            let vp = [Fr::int(a[32] as i128), Fr::int(a[33] as i128), Fr::int(1 + a[34] as i128), Fr::int(1 + a[35] as i128)];
            let pt = [Fr::int(a[36] as i128), Fr::int(a[37] as i128), Fr::int(a[38] as i128)];
            let wclip = mvec(&pi_, &mvec(&mvi, &[a[36] as i128, a[37] as i128, a[38] as i128, 1]))[3];
            cnt.add(if wclip != 0 { "clip-w-nonzero" } else { "clip-w-zero(formal)" }, 1);
            let clip = ref_clip(&mv, &p, &pt);
            let wgt = a.iter().sum::<i64>() as u64;
            for fl in FLS {
                let want = ref_window(&clip, &vp, fl);
                for row in [true, false] {
                    s.eval(wclip != 0);
                    let site = format!("Mat4<{}>::world_to_viewport_{}", lay(row), fl.s());
                    let inp = || json!({"lattice_point(MV-I row-major, P-I row-major, viewport-(0,0,1,1), point)": a});
                    if let Some(got) = s.call(&site, inp, || real_w2v::<Fr>(row, fl, &pt, &mv, &p, &vp)) {
                        match catch(|| (0..3).find(|&i| !got[i].cross_eq(want[i]))) {
                            Ok(Some(i)) => if thr.allow(&site, CLS_FWD) { s.violation_w(&site, CLS_FWD, json!({"input": inp(), "component": i, "got": format!("{}/{}", got[i].n, got[i].d), "want": format!("{}/{}", want[i].n, want[i].d)}), 1_000_000 + wgt) },
                            Ok(None) => {}
                            Err(_) => s.unmodelled("overflow in cross multiplication"),
                        }
                    }
                }
            }
            if wclip != 0 && wclip != 1 && wgt == fwd_order as u64 && s.wants_sample() { s.sample(json!({"lattice_point": a, "clip_w": wclip.to_string()})); }
        });
        cnt.flush(s);
        s.meta("lattice", json!({"n": 39, "measured_cross_degree": d_fwd, "order": fwd_order, "points": lattice_count(39, fwd_order).to_string(), "failing_cases(all counted; the first per 20-coordinate prefix and site recorded)": nfail.load(Relaxed)}));
    });

    // -------------------------------------------------------------------------------------------------
    let un_order = d_un7.min(12) + if th { 2 } else { 0 };
    rep.section("viewport_to_world as a formal rational identity in the window point and the viewport, per matrix pair",
        "for each of the selected matrix pairs (quick: 8, thorough: 40, spread over all projection families and model-view kinds): all points of L(7, D) (window point = deviation, viewport (0,0,1,1) + deviation), D = measured cross-degree in these 7 inputs (+2 thorough): the real functions (both layouts, both flavours) run on formal fractions must cross-multiply, component by component, to adj(P MV)/det(P MV) applied to the ndc point and divided by its w; decides every window point and viewport for the enumerated pairs, bounded in the matrices; non-trivial: reference pre-image finite", true, false, |s| {
        s.require_classes(&["pre-image-finite", "orthographic", "frustum", "perspective", "perspective_fov", "general-projection", "affine-modelview", "general-modelview"]);
        if d_un7 > 12 { s.degrade("degree premise failed"); }
        let want_pairs = if th { 40 } else { 8 };
        // deterministic spread: projection families round-robin, model-views with stride 4 (reaches the dense ones)
        // (audit: singular projections, i.e. dense-projective#2, are outside the property and have no inverse to compare with)
        let by_fam: Vec<Vec<usize>> = fams.iter().map(|f| (0..pjs.len()).filter(|&i| pjs[i].family == *f && catch(|| det(&pjs[i].m) != qi(0)).unwrap_or(false)).collect()).collect();
        let sel: Vec<(usize, usize)> = (0..want_pairs).map(|k| { let f = &by_fam[k % fams.len()]; ((k * 4 + 1) % mvs.len(), f[(k / fams.len() * 3 + k % fams.len()) % f.len()]) }).collect();
        let cnt = Cnt::new(&["pre-image-finite", "pre-image-at-infinity(formal)", "orthographic", "frustum", "perspective", "perspective_fov", "general-projection", "identity-modelview", "affine-modelview", "general-modelview"]);
        let mut used = Vec::new();
        let nfail = AtomicU64::new(0);
        for &(mi, pi) in &sel {
            let (mv, pj) = (&mvs[mi], &pjs[pi]);
            let Ok(invx) = catch(|| { let pm = mmul(&pj.m, &mv.m); let d = det(&pm); map4(&adjugate(&pm), |e| e / d) }) else { s.unmodelled("overflow in the reference"); continue };
            let (inv, mvf, pf) = (map4(&invx, xfr), map4(&mv.m, xfr), map4(&pj.m, xfr));
            used.push(format!("{} | {}", mv.name, pj.name));
            par_lattice_deep(7, un_order, 3, 1, &nfail, |a, thr| {
                let ray = [Fr::int(a[0] as i128), Fr::int(a[1] as i128), Fr::int(a[2] as i128)];
                let vp = [Fr::int(a[3] as i128), Fr::int(a[4] as i128), Fr::int(1 + a[5] as i128), Fr::int(1 + a[6] as i128)];
                let (rx, vx) = ([xi(a[0]), xi(a[1]), xi(a[2])], [xi(a[3]), xi(a[4]), xi(1 + a[5]), xi(1 + a[6])]);
                for fl in FLS {
                    let finite = match catch(|| ref_unproject_h(&invx, &vx, &rx, fl)[3] != qi(0)) { Ok(f) => f, Err(_) => { s.eval(false); s.unmodelled("overflow in the reference"); continue; } };
                    let want = match catch(|| { let h = ref_unproject_h(&inv, &vp, &ray, fl); [h[0] / h[3], h[1] / h[3], h[2] / h[3]] }) { Ok(w) => w, Err(_) => { s.eval(false); s.unmodelled("overflow in the reference"); continue; } };
                    for row in [true, false] {
                        s.eval(finite);
                        cnt.add(if finite { "pre-image-finite" } else { "pre-image-at-infinity(formal)" }, 1); cnt.add(pj.family, 1); cnt.add(mv.kind, 1);
                        let site = format!("Mat4<{}>::viewport_to_world_{}", lay(row), fl.s());
                        let inp = || json!({"modelview": mv.name, "MV": jmat(&mv.m), "projection": pj.name, "P": jmat(&pj.m), "lattice_point(window point, viewport-(0,0,1,1))": a});
                        if let Some(got) = s.call(&site, inp, || real_v2w::<Fr>(row, fl, &ray, &mvf, &pf, &vp)) {
                            match catch(|| (0..3).find(|&i| !got[i].cross_eq(want[i]))) {
                                Ok(Some(i)) => if thr.allow(&site, CLS_UN) { s.violation_w(&site, CLS_UN, json!({"input": inp(), "component": i, "got": format!("{}/{}", got[i].n, got[i].d), "want": format!("{}/{}", want[i].n, want[i].d)}), 1_000_000 + (mi * 100 + pi) as u64 * 100 + a.iter().sum::<i64>() as u64) },
                                Ok(None) => {}
                                Err(_) => s.unmodelled("overflow in cross multiplication"),
                            }
                        }
                    }
                }
            });
        }
        cnt.flush(s);
        s.sample(json!({"pair": used.first(), "law": "viewport_to_world(r) * w(r) = adj(P MV)/det * ndc(r) as formal fractions"}));
        s.meta("lattice", json!({"n": 7, "measured_cross_degree": d_un7, "order": un_order, "points_per_pair": lattice_count(7, un_order).to_string(), "pairs": used, "failing_cases(all counted; the first per 3-coordinate prefix and site recorded)": nfail.load(Relaxed)}));
    });
    // =================================================================================================
    // audit additions
    // -------------------------------------------------------------------------------------------------
    let mv1 = modelviews(1);
    let mut pjx: Vec<Pj> = pjs.clone();
    pjx.extend(extra_projections());
    let n_extra_pj = pjx.len() - pjs.len();
    // quick: one model-view of each flavour and one projection per family + the dense and the infinite ones; thorough: everything
    let mv_sel: Vec<usize> = if th { (0..mv1.len()).collect() } else { vec![0, 2, 5, 11, 12, 14] };
    let pj_sel: Vec<usize> = if th { (0..pjx.len()).collect() } else {
        let mut v: Vec<usize> = ["orthographic", "frustum", "perspective", "perspective_fov"].iter().map(|f| (0..pjx.len()).filter(|&i| pjx[i].family == *f).nth(1).unwrap()).collect();
        v.extend((0..pjx.len()).filter(|&i| pjx[i].family == "general-projection" || pjx[i].family == "infinite-perspective"));
        v
    };
    let xpairs: Vec<(usize, usize)> = mv_sel.iter().flat_map(|&i| pj_sel.iter().map(move |&j| (i, j))).collect();
    let big = pow2(40);
    let tiny = pow2(-40);
    let mut vpa: Vec<[X; 4]> = vec![
        [qi(0), qi(0), qi(-640), qi(480)], [qi(10), qi(-20), qi(3), qi(-7)], [qi(-5), qi(5), qi(-1), qi(-1)],
        [q(7, 2), q(-1, 3), q(5, 4), q(9, 7)], [big, -big, tiny, qi(3) * tiny],
    ];
    if th { vpa.push([q(-1, 3), q(2, 7), q(-5, 4), pow2(20)]); vpa.push([-tiny, tiny, big, -big]); }
    let mut pta: Vec<[X; 3]> = vec![
        [q(1, 2), q(-3, 4), q(5, 3)], [q(-7, 3), q(2, 5), q(1, 7)], [qi(1000), qi(-2000), qi(3000)], [pow2(20), qi(1) - pow2(20), qi(3)],
        [pow2(-20), pow2(-21), -pow2(-19)], [qi(0), qi(0), qi(0)], [qi(1), qi(-1), qi(2)],
    ];
    if th { pta.extend(cube(1)); }
    // (factor of MV, factor of P, also unproject?) : a common non-zero factor of either matrix cannot change a perspective-divided result
    let scalings: Vec<(X, X, bool, &'static str)> = vec![
        (qi(1), qi(1), true, "matrices-unscaled"), (qi(-1), qi(1), true, "matrices-negated"), (qi(1), qi(-1), true, "matrices-negated"),
        (pow2(-30), pow2(-30), false, "matrices-scaled-2^-60(clip w below 2^-52)"), (pow2(20), pow2(-10), false, "matrices-scaled-mixed"), (q(-3, 7), qi(5), true, "matrices-scaled-mixed"), (pow2(6), pow2(-3), true, "matrices-scaled-mixed"),
    ];
    rep.section("structured extremes on exact rationals: negative / fractional / 2^+-40 viewports, fractional / far / tiny points, homogeneously scaled and negated matrices, window depths outside [0,1], four argument forms",
        "model-views {identity, T(1,2,3), S(1,-3,1)/2, R[(1,2,2)/3], dense#1, dense#3} (thorough: all 15 one-step and dense ones) x projections {one per builder family, 2 dense projective, 4 (tweaked) infinite perspectives} (thorough: all 39) x (factor of MV, factor of P) in {(1,1),(-1,1),(1,-1),(2^-30,2^-30),(2^20,2^-10),(-3/7,5),(2^6,2^-3)} x viewports {(0,0,-640,480),(10,-20,3,-7),(-5,5,-1,-1),(7/2,-1/3,5/4,9/7),(2^40,-2^40,2^-40,3*2^-40)} (thorough +2) x points {(1/2,-3/4,5/3),(-7/3,2/5,1/7),(1000,-2000,3000),(2^20,1-2^20,3),(2^-20,2^-21,-2^-19),0,(1,-1,2)} (thorough + {-1..1}^3) x {_no,_zo} x {row,col}; the point is handed over as Vec3 / [T;3] / (T,T,T) / Vec4 with junk w in rotation: (a) world_to_viewport equals the reference pipeline on the scaled matrices; (b) for the factor pairs whose inverse stays in i128 range, viewport_to_world of that window point returns the point; (c) window points {vp.x+vp.w/4, vp.x-vp.w} x {vp.y+2vp.h/3} x depths {-1, 2, 3/7} unproject to the reference pre-image adj(P MV)/det; non-trivial: clip w != 0", true, false, |s| {
        let names = ["viewport-negative-width", "viewport-negative-height", "viewport-fractional", "viewport-2^+-40", "point-fractional", "point-far", "point-tiny", "matrices-unscaled", "matrices-negated", "matrices-scaled-2^-60(clip w below 2^-52)", "matrices-scaled-mixed",
            "form-vec3", "form-array", "form-tuple", "form-vec4(w dropped)", "window-depth-outside-[0,1]", "round-trip-world", "clip-w-negative", "clip-w-zero(skipped)", "pre-image-at-infinity(skipped)", "infinite-perspective", "general-projection", "general-modelview", "flavour-no", "flavour-zo", "layout-row", "layout-col"];
        s.require_classes(&names[..18]); s.require_classes(&names[20..]);
        let cnt = Cnt::new(&names);
        let nfail = AtomicU64::new(0);
        xpairs.par_iter().for_each(|&(mi, pi)| {
            let (mv, pj) = (&mv1[mi], &pjx[pi]);
            let mut thr = Thr::new(3, &nfail);
            let mut k = mi + 3 * pi; // rotates the argument forms deterministically
            for (si, (kmv, kp, unproj, scls)) in scalings.iter().enumerate() {
                let (mvs_, ps_) = match catch(|| (scale4(&mv.m, *kmv), scale4(&pj.m, *kp))) { Ok(v) => v, Err(_) => { s.eval(false); s.unmodelled("overflow in the reference"); continue; } };
                let inv = if *unproj { catch(|| inv4(&mmul(&ps_, &mvs_))).ok() } else { None };
                for (vi, vp) in vpa.iter().enumerate() {
                    let vneg_w = vp[2] < qi(0); let vneg_h = vp[3] < qi(0);
                    let vfrac = vp.iter().any(|c| c.rat().d != 1) && vi != 4; let vbig = vp[0].rat().n.unsigned_abs() >= 1 << 40 || vp[2].rat().n.unsigned_abs() >= 1 << 40;
                    for (qi_, pt) in pta.iter().enumerate() {
                        let clip = match catch(|| ref_clip(&mvs_, &ps_, pt)) { Ok(c) => c, Err(_) => { s.eval(false); s.unmodelled("overflow in the reference"); continue; } };
                        if clip[3] == qi(0) { s.eval(false); cnt.add("clip-w-zero(skipped)", 1); continue; }
                        let wgt = 5_000_000 + ((mi * 100 + pi) * 10 + si) as u64 * 1000 + (vi * 40 + qi_) as u64;
                        for fl in FLS {
                            let want = match catch(|| ref_window(&clip, vp, fl)) { Ok(w) => w, Err(_) => { s.eval(false); s.unmodelled("overflow in the reference"); continue; } };
                            for row in [true, false] {
                                k += 1; let form = FORMS[k % 4]; let form2 = FORMS[(k / 4 + k) % 4];
                                s.eval(true);
                                cnt.add(scls, 1); cnt.add(form.s(), 1); cnt.add(if fl == Fl::NO { "flavour-no" } else { "flavour-zo" }, 1); cnt.add(if row { "layout-row" } else { "layout-col" }, 1);
                                if vneg_w { cnt.add("viewport-negative-width", 1); } if vneg_h { cnt.add("viewport-negative-height", 1); } if vfrac { cnt.add("viewport-fractional", 1); } if vbig { cnt.add("viewport-2^+-40", 1); }
                                if qi_ < 2 { cnt.add("point-fractional", 1); } else if qi_ < 4 { cnt.add("point-far", 1); } else if qi_ == 4 { cnt.add("point-tiny", 1); }
                                if clip[3] < qi(0) { cnt.add("clip-w-negative", 1); }
                                if pj.family == "infinite-perspective" || pj.family == "general-projection" { cnt.add(pj.family, 1); }
                                if mv.kind == "general-modelview" { cnt.add(mv.kind, 1); }
                                let site = format!("Mat4<{}>::world_to_viewport_{}", lay(row), fl.s());
                                let inp = || json!({"modelview": mv.name, "MV": jmat(&mvs_), "projection": pj.name, "P": jmat(&ps_), "factors(MV,P)": jxs(&[*kmv, *kp]), "viewport(x,y,w,h)": jxs(vp), "point": jxs(pt), "point_passed_as": form.s()});
                                let Some(got) = s.call(&site, inp, || w2v_form::<X>(form, row, fl, pt, &mvs_, &ps_, vp)) else { continue };
                                if got != want { if thr.allow(&site, CLS_FWD) { s.violation_w(&site, CLS_FWD, json!({"input": inp(), "clip": jxs(&clip), "got": jxs(&got), "want": jxs(&want)}), wgt); } continue; }
                                if vneg_w && si == 5 && s.wants_sample() { s.sample(json!({"input": inp(), "window": jxs(&want), "flavour": fl.s()})); }
                                if inv.is_none() { continue; } // no unprojection asked for, or P MV singular / beyond i128 (dense-projective#2 is singular: outside the property)
                                s.eval(true); cnt.add("round-trip-world", 1); cnt.add(form2.s(), 1);
                                let usite = format!("Mat4<{}>::viewport_to_world_{}", lay(row), fl.s());
                                if let Some(back) = s.call(&usite, inp, || v2w_form::<X>(form2, row, fl, &got, &mvs_, &ps_, vp)) {
                                    if back != *pt && thr.allow(&usite, CLS_RT) { s.violation_w(&usite, CLS_RT, json!({"input": inp(), "window": jxs(&got), "window_passed_as": form2.s(), "got": jxs(&back), "want": jxs(pt)}), wgt); }
                                }
                            }
                        }
                    }
                    // (c) window points with depths outside [0,1]
                    let Some(inv) = inv.as_ref() else { continue };
                    let mut rays: Vec<[X; 3]> = Vec::new();
                    for x in [vp[0] + vp[2] / qi(4), vp[0] - vp[2]] { for z in [qi(-1), qi(2), q(3, 7)] { rays.push([x, vp[1] + vp[3] * q(2, 3), z]); } }
                    for (ri, ray) in rays.into_iter().enumerate() { for fl in FLS {
                        let h = match catch(|| ref_unproject_h(inv, vp, &ray, fl)) { Ok(h) => h, Err(_) => { s.eval(false); s.unmodelled("overflow in the reference"); continue; } };
                        if h[3] == qi(0) { s.eval(false); cnt.add("pre-image-at-infinity(skipped)", 1); continue; }
                        let want = match catch(|| [h[0] / h[3], h[1] / h[3], h[2] / h[3]]) { Ok(w) => w, Err(_) => { s.eval(false); s.unmodelled("overflow in the reference"); continue; } };
                        for row in [true, false] {
                            k += 1; let form = FORMS[k % 4];
                            s.eval(true); cnt.add(form.s(), 1); if ray[2] < qi(0) || ray[2] > qi(1) { cnt.add("window-depth-outside-[0,1]", 1); }
                            let site = format!("Mat4<{}>::viewport_to_world_{}", lay(row), fl.s());
                            let inp = || json!({"modelview": mv.name, "MV": jmat(&mvs_), "projection": pj.name, "P": jmat(&ps_), "viewport(x,y,w,h)": jxs(vp), "window_point": jxs(&ray), "window_passed_as": form.s()});
                            if let Some(got) = s.call(&site, inp, || v2w_form::<X>(form, row, fl, &ray, &mvs_, &ps_, vp)) {
                                if got != want && thr.allow(&site, CLS_UN) { s.violation_w(&site, CLS_UN, json!({"input": inp(), "got": jxs(&got), "want(pre-image under the reference projection)": jxs(&want)}), 5_000_000 + ((mi * 100 + pi) * 10 + si) as u64 * 1000 + (vi * 40 + ri) as u64); }
                            }
                        }
                    } }
                }
            }
        });
        cnt.flush(s);
        s.meta("alphabet", json!({"modelviews": mv_sel.len(), "projections": pj_sel.len(), "of which infinite perspectives": n_extra_pj, "factor_pairs": scalings.len(), "viewports": vpa.len(), "points": pta.len(), "flavours": 2, "layouts": 2, "argument_forms": 4}));
        s.meta("failing_cases(all counted; first 3 per matrix pair and site|class recorded)", json!(nfail.load(Relaxed)));
    });

    // -------------------------------------------------------------------------------------------------
    rep.section("picking_region on structured extremes: negative / fractional / 2^+-40 viewports, tiny and huge regions, far centres; three argument forms; the picked projection magnifies the region to the viewport",
        "(a) viewports {(0,0,640,480),(0,0,-640,480),(10,-20,3,-7),(-5,5,-1,-1),(7/2,-1/3,5/4,-9/7),(2^40,-2^40,2^-40,3*2^-40)} x centres {viewport centre, viewport origin, (-9/2,11/2), (vp.x+vp.w/4, vp.y+2vp.h/3), (2^30,-2^30)} x sizes {(1,1),(5,3),(2^-60,2^-58),(2^40,3*2^40),(|vp.w|,|vp.h|),(7/3,1/5)} x {row,col}, centre and size handed over as Vec2 / [T;2] / (T,T) in rotation: the corner law of the lattice section; (b) call sequence: for 4 model-view/projection pairs x 3 points x 3 viewports (one with negative extents) x 3 regions, real world_to_viewport_{no,zo} with the projection replaced by (real picking matrix, decoded through fields) x P (reference product) must give window x,y = vp.xy + (W.xy - (c - d/2))/d * vp.wh where W is the reference window point without picking (depth is not asserted: the property speaks of the clip square only); (c) signed lattice: all points of L(8, 3) (thorough L(8, 6)) x 16 sign patterns (centre, viewport origin, viewport width, viewport height each reflected), size ((1+a2)/2, 1+a3): the corner law; non-trivial: (a), (c) off-centre and not of viewport size in at least one axis, (b) all", true, false, |s| {
        s.require_classes(&["viewport-negative-width", "viewport-negative-height", "viewport-2^+-40", "region-tiny(2^-60)", "region-huge(2^40)", "centre-far", "generic-region", "form-vec2", "form-array", "form-tuple", "picked-projection", "signed-lattice", "layout-row", "layout-col"]);
        let vpb: Vec<[X; 4]> = vec![[qi(0), qi(0), qi(640), qi(480)], [qi(0), qi(0), qi(-640), qi(480)], [qi(10), qi(-20), qi(3), qi(-7)], [qi(-5), qi(5), qi(-1), qi(-1)], [q(7, 2), q(-1, 3), q(5, 4), q(-9, 7)], [big, -big, tiny, qi(3) * tiny]];
        let mut k = 0usize;
        for (vi, vp) in vpb.iter().enumerate() {
            let centres = [[vp[0] + vp[2] / qi(2), vp[1] + vp[3] / qi(2)], [vp[0], vp[1]], [q(-9, 2), q(11, 2)], [vp[0] + vp[2] / qi(4), vp[1] + vp[3] * q(2, 3)], [pow2(30), -pow2(30)]];
            let sizes = [[qi(1), qi(1)], [qi(5), qi(3)], [pow2(-60), pow2(-58)], [big, qi(3) * big], [Real::abs(vp[2]), Real::abs(vp[3])], [q(7, 3), q(1, 5)]];
            for (ci, c) in centres.iter().enumerate() { for (di, d) in sizes.iter().enumerate() {
                let centred = |i: usize| qi(2) * (c[i] - vp[i]) == vp[2 + i];
                let full = |i: usize| d[i] == vp[2 + i];
                let nontriv = (0..2).any(|i| !centred(i) && !full(i));
                for row in [true, false] {
                    k += 1;
                    s.eval(nontriv); s.class(PICK_FORMS[k % 3]); s.class(if row { "layout-row" } else { "layout-col" });
                    if vp[2] < qi(0) { s.class("viewport-negative-width"); } if vp[3] < qi(0) { s.class("viewport-negative-height"); } if vi == 5 { s.class("viewport-2^+-40"); }
                    if di == 2 { s.class("region-tiny(2^-60)"); } if di == 3 { s.class("region-huge(2^40)"); } if ci == 4 { s.class("centre-far"); }
                    if nontriv { s.class("generic-region"); }
                    let inp = || json!({"center": jxs(c), "delta": jxs(d), "viewport(x,y,w,h)": jxs(vp), "passed_as": PICK_FORMS[k % 3]});
                    let site = format!("Mat4<{}>::picking_region", lay(row));
                    if let Some(m) = s.call(&site, inp, || pick_form::<X>(k, row, c, d, vp)) {
                        match catch(|| pick_bad(&m, c, d, vp)) {
                            Ok(Some(bad)) => s.violation_w(&site, catch(|| pick_class(&m, c, d, vp)).unwrap_or(CLS_PICK), json!({"input": inp(), "matrix": jmat(&m), "first_failing_corner": bad}), 2000 + (vi * 100 + ci * 10 + di) as u64),
                            Ok(None) => { if nontriv && vi > 0 && s.wants_sample() { s.sample(json!({"input": inp(), "matrix": jmat(&m)})); } }
                            Err(_) => s.unmodelled("overflow in the reference"),
                        }
                    }
                }
            } }
        }
        // (c) signed lattice: the simplex lattice of the first picking section reaches the non-negative orthant only
        let sl_order = if s.thorough() { 6 } else { 3 };
        let (nbad, nsl) = (AtomicU64::new(0), AtomicU64::new(0));
        par_lattice(8, sl_order, |a| {
            for sg in 0..16u32 {
                let (sc, sv, sw, sh) = (if sg & 1 == 0 { 1 } else { -1 }, if sg & 2 == 0 { 1 } else { -1 }, if sg & 4 == 0 { 1 } else { -1 }, if sg & 8 == 0 { 1 } else { -1 });
                if (sc < 0 && a[0] == 0 && a[1] == 0) || (sv < 0 && a[4] == 0 && a[5] == 0) { continue; } // the reflection would repeat the unreflected point
                let c = [xi(sc * a[0]), xi(sc * a[1])]; let d = [q(1 + a[2] as i128, 2), xi(1 + a[3])]; let vp = [xi(sv * a[4]), xi(sv * a[5]), xi(sw * (1 + a[6])), xi(sh * (1 + a[7]))];
                let centred = |i: usize| qi(2) * (c[i] - vp[i]) == vp[2 + i];
                let full = |i: usize| d[i] == vp[2 + i];
                let nontriv = (0..2).any(|i| !centred(i) && !full(i));
                for row in [true, false] {
                    s.eval(nontriv); nsl.fetch_add(1, Relaxed);
                    let site = format!("Mat4<{}>::picking_region", lay(row));
                    let inp = || json!({"center": jxs(&c), "delta": jxs(&d), "viewport(x,y,w,h)": jxs(&vp)});
                    if let Some(m) = s.call(&site, inp, || real_pick::<X>(row, &c, &d, &vp)) {
                        match catch(|| pick_bad(&m, &c, &d, &vp)) {
                            Ok(Some(bad)) => { nbad.fetch_add(1, Relaxed); let w = a.iter().sum::<i64>() as u64; if w <= 2 { s.violation_w(&site, catch(|| pick_class(&m, &c, &d, &vp)).unwrap_or(CLS_PICK), json!({"input": inp(), "matrix": jmat(&m), "first_failing_corner": bad}), 2500 + w * 16 + sg as u64); } }
                            Ok(None) => {}
                            Err(_) => s.unmodelled("overflow in the reference"),
                        }
                    }
                }
            }
        });
        s.class_n("signed-lattice", nsl.load(Relaxed));
        s.meta("signed lattice", json!({"order": sl_order, "points": lattice_count(8, sl_order).to_string(), "sign patterns (centre, viewport origin, viewport width, viewport height)": 16, "size": "((1 + a2)/2, 1 + a3)", "failing (point, signs, layout) cases (recorded up to weight 2)": nbad.load(Relaxed)}));
        // (b) the picking matrix in front of a projection
        let seq_pairs = [(2usize, "frustum"), (11, "perspective"), (12, "general-projection"), (14, "orthographic")];
        for (mi, fam) in seq_pairs {
            let mv = &mv1[mi]; let pj = pjs.iter().find(|p| p.family == fam).unwrap();
            for vp in [&vpb[0], &vpb[2], &vpb[4]] { for pt in [[qi(1), qi(-1), qi(2)], [q(1, 2), q(-3, 4), q(5, 3)], [qi(-2), qi(1), qi(-1)]] {
                let Ok(clip) = catch(|| ref_clip(&mv.m, &pj.m, &pt)) else { s.unmodelled("overflow in the reference"); continue };
                if clip[3] == qi(0) { continue; }
                for (c, d) in [([vp[0] + vp[2] / qi(4), vp[1] + vp[3] * q(2, 3)], [qi(5), qi(3)]), ([q(-9, 2), q(11, 2)], [q(7, 3), q(1, 5)]), ([vp[0], vp[1]], [pow2(-20), pow2(10)])] {
                    for row in [true, false] {
                        let psite = format!("Mat4<{}>::picking_region", lay(row));
                        let pinp = || json!({"center": jxs(&c), "delta": jxs(&d), "viewport(x,y,w,h)": jxs(vp)});
                        let Some(m) = s.call(&psite, pinp, || real_pick::<X>(row, &c, &d, vp)) else { continue };
                        let Ok(pp) = catch(|| mmul(&m, &pj.m)) else { s.unmodelled("overflow in the reference"); continue };
                        for fl in FLS {
                            s.eval(true); s.class("picked-projection");
                            let site = format!("Mat4<{}>::picking_region x P -> world_to_viewport_{}", lay(row), fl.s());
                            let inp = || json!({"modelview": mv.name, "projection": pj.name, "picking": pinp(), "picking_matrix": jmat(&m), "point": jxs(&pt)});
                            let want = match catch(|| { let w = ref_window(&clip, vp, fl); [vp[0] + (w[0] - (c[0] - d[0] / qi(2))) / d[0] * vp[2], vp[1] + (w[1] - (c[1] - d[1] / qi(2))) / d[1] * vp[3]] }) { Ok(w) => w, Err(_) => { s.unmodelled("overflow in the reference"); continue; } };
                            if let Some(got) = s.call(&site, inp, || real_w2v::<X>(row, fl, &pt, &mv.m, &pp, vp)) {
                                if got[0] != want[0] || got[1] != want[1] { s.violation_w(&site, "picked-projection-does-not-magnify-the-region-to-the-viewport", json!({"input": inp(), "got(x,y)": jxs(&got[..2]), "want(x,y)": jxs(&want)}), 3000); }
                            }
                        }
                    }
                }
            } }
        }
    });

    // -------------------------------------------------------------------------------------------------
    fn float_section<F: Flt>(s: &Section) {
        let names = ["close-to-exact:world_to_viewport", "close-to-exact:viewport_to_world", "close-to-exact:picking_region", "ill-conditioned(skipped)",
            "law:P,MV x 2^+-K", "law:viewport x 2^+-K", "law:world x 2^+-K", "law:picking arguments x 2^+-K", "flavour-no", "flavour-zo", "layout-row", "layout-col"];
        s.require_classes(&names[..3]); s.require_classes(&names[4..]);
        let (kb, km) = (F::KBIG, F::KMAT);
        let mut vps = vec![[qi(0), qi(0), qi(640), qi(480)], [qi(10), qi(-20), qi(4), qi(-8)], [q(-11, 2), q(21, 4), qi(-1), q(1, 2)]];
        let mut pts = vec![[qi(1), qi(-2), qi(3)], [q(1, 2), q(1, 4), q(-3, 2)], [qi(-3), qi(1), q(3, 4)]];
        if s.thorough() { vps.push([qi(-256), qi(1024), qi(-2048), qi(-3)]); pts.extend([[qi(0), qi(0), qi(0)], [qi(100), qi(-75), q(51, 2)], [q(1, 64), q(-3, 128), q(5, 256)], [qi(2), qi(2), qi(-5)]]); }
        // thorough: a ladder of exponents up to the extreme one (a guard with a threshold anywhere below is met from both sides)
        let ladder = |top: i32| -> Vec<i32> { if s.thorough() { vec![top / 8, top / 4, top / 2, 3 * top / 4, top] } else { vec![top] } };
        let tol = |scale: f64| vx::fl::K * F::EPS * scale;
        let jf = |a: &[F]| json!(a.iter().map(|v| format!("{:?}", v)).collect::<Vec<_>>());
        let sc4 = |m: &A<F, 4>, k: i32| map4(m, |e| e * fp2::<F>(k));
        let same = |a: &[F; 3], b: &[F; 3]| (0..3).all(|i| a[i] == b[i]);
        let mut k = 0usize;
        for (mvn, mvx) in float_modelviews() { for (pjn, px) in float_projections() {
            let (mvf, pf) = (mat_f::<F>(&mvx), mat_f::<F>(&px));
            let pm = mmul(&px, &mvx);
            let dpm = det(&pm);
            assert!(dpm != qi(0), "float alphabet: singular pair");
            let inv = inv4(&pm);
            // magnitudes for the forward error bound: |P| |MV| and the permanents of its minors
            let pma = mmul(&absm(&px), &absm(&mvx));
            let (deta, dabs) = (perm4(&pma), dpm.shadow().abs());
            let mut inv_err = [[0f64; 4]; 4];
            for i in 0..4 { for j in 0..4 { inv_err[i][j] = perm_minor(&pma, j, i) / dabs + inv[i][j].shadow().abs() * deta / dabs; } }
            for vp in &vps { let vpf = arr_f::<F, 4>(vp);
                for pt in &pts { let ptf = arr_f::<F, 3>(pt);
                    let clip = ref_clip(&mvx, &px, pt);
                    if clip[3] == qi(0) { continue; }
                    let ca = mvec(&absm(&px), &mvec(&absm(&mvx), &[pt[0].shadow().abs(), pt[1].shadow().abs(), pt[2].shadow().abs(), 1.0]));
                    let wabs = clip[3].shadow().abs();
                    let ndc_s: Vec<f64> = (0..3).map(|i| ca[i] / wabs + clip[i].shadow().abs() * ca[3] / (wabs * wabs)).collect();
                    let well = ca[3] / wabs <= 1024.0;
                    for fl in FLS { for row in [true, false] {
                        k += 1; let form = FORMS[k % 4];
                        s.class(if fl == Fl::NO { "flavour-no" } else { "flavour-zo" }); s.class(if row { "layout-row" } else { "layout-col" });
                        let site = format!("Mat4<{}>::world_to_viewport_{}<{}>", lay(row), fl.s(), F::NAME);
                        let inp = || json!({"modelview": mvn, "MV": jmat(&mvx), "projection": pjn, "P": jmat(&px), "viewport(x,y,w,h)": jxs(vp), "point": jxs(pt), "element": F::NAME});
                        let Some(base) = s.call(&site, inp, || w2v_form::<F>(form, row, fl, &ptf, &mvf, &pf, &vpf)) else { continue };
                        // closeness to the exact pipeline on the same (exactly representable) inputs
                        if well {
                            s.eval(true); s.class("close-to-exact:world_to_viewport");
                            let want = ref_window(&clip, vp, fl);
                            let scale = [(ndc_s[0] + 1.0) * vp[2].shadow().abs() + vp[0].shadow().abs(), (ndc_s[1] + 1.0) * vp[3].shadow().abs() + vp[1].shadow().abs(), ndc_s[2] + 1.0];
                            for i in 0..3 { if !((base[i].f() - want[i].shadow()).abs() <= tol(scale[i])) {
                                s.violation_w(&site, "float-result-not-within-the-forward-error-bound-of-the-exact-pipeline", json!({"input": inp(), "component": i, "got": jf(&base), "want": jxs(&want), "bound": tol(scale[i])}), 10); break;
                            } }
                        } else { s.eval(false); s.class("ill-conditioned(skipped)"); }
                        // scaling laws (bitwise: multiplying by a power of two commutes with rounding while nothing leaves the normal range)
                        for (a, b) in ladder(kb).into_iter().flat_map(|e| [(e, e), (-e, -e), (e, -e), (-e, 0), (0, e)]) {
                            s.eval(true); s.class("law:P,MV x 2^+-K");
                            if let Some(got) = s.call(&site, inp, || w2v_form::<F>(form, row, fl, &ptf, &sc4(&mvf, b), &sc4(&pf, a), &vpf)) {
                                if !same(&got, &base) { s.violation_w(&site, "result-depends-on-a-common-power-of-two-factor-of-the-matrices", json!({"input": inp(), "P scaled by 2^": a, "MV scaled by 2^": b, "got": jf(&got), "unscaled": jf(&base)}), 20 + a.unsigned_abs() as u64); }
                            }
                        }
                        for e in ladder(kb).into_iter().flat_map(|e| [e, -e]) {
                            s.eval(true); s.class("law:viewport x 2^+-K");
                            let vps_ = [vpf[0] * fp2(e), vpf[1] * fp2(e), vpf[2] * fp2(e), vpf[3] * fp2(e)];
                            let want = [base[0] * fp2(e), base[1] * fp2(e), base[2]];
                            if let Some(got) = s.call(&site, inp, || w2v_form::<F>(form, row, fl, &ptf, &mvf, &pf, &vps_)) {
                                if !same(&got, &want) { s.violation_w(&site, "window-point-does-not-scale-with-the-viewport", json!({"input": inp(), "viewport scaled by 2^": e, "got": jf(&got), "want(unscaled result, x and y scaled)": jf(&want)}), 30); }
                            }
                            s.eval(true); s.class("law:world x 2^+-K");
                            let pts_ = [ptf[0] * fp2(e), ptf[1] * fp2(e), ptf[2] * fp2(e)];
                            let mut mvs_ = mvf; for i in 0..4 { for j in 0..3 { mvs_[i][j] = mvf[i][j] * fp2(-e); } }
                            if let Some(got) = s.call(&site, inp, || w2v_form::<F>(form, row, fl, &pts_, &mvs_, &pf, &vpf)) {
                                if !same(&got, &base) { s.violation_w(&site, "result-depends-on-the-unit-of-the-world", json!({"input": inp(), "point scaled by 2^": e, "first three MV columns scaled by 2^": -e, "got": jf(&got), "unscaled": jf(&base)}), 40); }
                            }
                        }
                    } }
                }
                // unprojection of window points
                for (fx, fy, z) in [(q(1, 4), q(3, 4), q(1, 4)), (q(1, 2), q(1, 8), q(3, 4)), (q(-1, 4), q(5, 4), q(1, 2))] { for fl in FLS {
                    let ray = [vp[0] + vp[2] * fx, vp[1] + vp[3] * fy, z];
                    let rayf = arr_f::<F, 3>(&ray);
                    let h = ref_unproject_h(&inv, vp, &ray, fl);
                    if h[3] == qi(0) { continue; }
                    let want = [h[0] / h[3], h[1] / h[3], h[2] / h[3]];
                    // magnitudes: ndc components are O(|f| + 1); h_i = sum_j inv_ij ndc_j
                    // ndc.x = 2 (x - vp.x)/vp.w - 1 evaluated on absolute values (the subtraction cancels: its operands' magnitudes count)
                    let ndx = [2.0 * (ray[0].shadow().abs() + vp[0].shadow().abs()) / vp[2].shadow().abs() + 1.0, 2.0 * (ray[1].shadow().abs() + vp[1].shadow().abs()) / vp[3].shadow().abs() + 1.0, 2.0 * z.shadow().abs() + 1.0, 1.0];
                    let ha: Vec<f64> = (0..4).map(|i| (0..4).map(|j| inv_err[i][j] * ndx[j]).sum::<f64>()).collect();
                    let hw = h[3].shadow().abs();
                    let well = ha[3] / hw <= 1024.0;
                    for row in [true, false] {
                        k += 1; let form = FORMS[k % 4];
                        s.class(if fl == Fl::NO { "flavour-no" } else { "flavour-zo" }); s.class(if row { "layout-row" } else { "layout-col" });
                        let site = format!("Mat4<{}>::viewport_to_world_{}<{}>", lay(row), fl.s(), F::NAME);
                        let inp = || json!({"modelview": mvn, "MV": jmat(&mvx), "projection": pjn, "P": jmat(&px), "viewport(x,y,w,h)": jxs(vp), "window_point": jxs(&ray), "element": F::NAME});
                        let Some(base) = s.call(&site, inp, || v2w_form::<F>(form, row, fl, &rayf, &mvf, &pf, &vpf)) else { continue };
                        if well {
                            s.eval(true); s.class("close-to-exact:viewport_to_world");
                            for i in 0..3 {
                                let scale = ha[i] / hw + h[i].shadow().abs() * ha[3] / (hw * hw);
                                if !((base[i].f() - want[i].shadow()).abs() <= tol(scale)) { s.violation_w(&site, "float-result-not-within-the-forward-error-bound-of-the-exact-pipeline", json!({"input": inp(), "component": i, "got": jf(&base), "want": jxs(&want), "bound": tol(scale)}), 10); break; }
                            }
                        } else { s.eval(false); s.class("ill-conditioned(skipped)"); }
                        for (a, b) in ladder(km).into_iter().flat_map(|e| [(e, e), (-e, -e), (2 * e, -e), (-e, 0), (0, e)]) {
                            s.eval(true); s.class("law:P,MV x 2^+-K");
                            if let Some(got) = s.call(&site, inp, || v2w_form::<F>(form, row, fl, &rayf, &sc4(&mvf, b), &sc4(&pf, a), &vpf)) {
                                if !same(&got, &base) { s.violation_w(&site, "result-depends-on-a-common-power-of-two-factor-of-the-matrices", json!({"input": inp(), "P scaled by 2^": a, "MV scaled by 2^": b, "got": jf(&got), "unscaled": jf(&base)}), 20 + a.unsigned_abs() as u64); }
                            }
                        }
                        for e in ladder(kb).into_iter().flat_map(|e| [e, -e]) {
                            s.eval(true); s.class("law:viewport x 2^+-K");
                            let vps_ = [vpf[0] * fp2(e), vpf[1] * fp2(e), vpf[2] * fp2(e), vpf[3] * fp2(e)];
                            let rays_ = [rayf[0] * fp2(e), rayf[1] * fp2(e), rayf[2]];
                            if let Some(got) = s.call(&site, inp, || v2w_form::<F>(form, row, fl, &rays_, &mvf, &pf, &vps_)) {
                                if !same(&got, &base) { s.violation_w(&site, "result-depends-on-the-unit-of-the-window", json!({"input": inp(), "viewport and window x,y scaled by 2^": e, "got": jf(&got), "unscaled": jf(&base)}), 30); }
                            }
                        }
                        for e in ladder(km).into_iter().flat_map(|e| [e, -e]) {
                            s.eval(true); s.class("law:world x 2^+-K");
                            let mut mvs_ = mvf; for i in 0..4 { for j in 0..3 { mvs_[i][j] = mvf[i][j] * fp2(-e); } }
                            let want = [base[0] * fp2(e), base[1] * fp2(e), base[2] * fp2(e)];
                            if let Some(got) = s.call(&site, inp, || v2w_form::<F>(form, row, fl, &rayf, &mvs_, &pf, &vpf)) {
                                if !same(&got, &want) { s.violation_w(&site, "world-point-does-not-scale-with-the-unit-of-the-world", json!({"input": inp(), "first three MV columns scaled by 2^": -e, "got": jf(&got), "want(unscaled result x 2^e)": jf(&want)}), 40); }
                            }
                        }
                    }
                } }
            }
        } }
        // picking matrix
        for vp in &vps { for (c, d) in [([vp[0] + vp[2] / qi(4), vp[1] + vp[3] * q(3, 4)], [qi(5), qi(3)]), ([q(-9, 2), q(11, 2)], [q(7, 4), q(1, 8)]), ([vp[0], vp[1]], [q(1, 1024), qi(1024)])] {
            let (vpf, cf, df) = (arr_f::<F, 4>(vp), arr_f::<F, 2>(&c), arr_f::<F, 2>(&d));
            for row in [true, false] {
                k += 1;
                s.class(if row { "layout-row" } else { "layout-col" });
                let site = format!("Mat4<{}>::picking_region<{}>", lay(row), F::NAME);
                let inp = || json!({"center": jxs(&c), "delta": jxs(&d), "viewport(x,y,w,h)": jxs(vp), "element": F::NAME});
                let Some(base) = s.call(&site, inp, || pick_form::<F>(k, row, &cf, &df, &vpf)) else { continue };
                s.eval(true); s.class("close-to-exact:picking_region");
                // corners: image = sc*n + tr (the float entries are exact rationals); every rounding happened at magnitude <= |sc||n| + (|vp.w| + 2(|c| + |vp.x|))/|d|
                let mx = map4(&base, |e| X::R(vx::fl::qf(e.f())));
                'corners: for sx in [qi(-1), qi(1)] { for sy in [qi(-1), qi(1)] {
                    let hc = pick_corner_h(&mx, &c, &d, vp, sx, sy, q(1, 2));
                    let nx = [((c[0] + sx * d[0] / qi(2) - vp[0]) / vp[2] * qi(2) - qi(1)).shadow().abs(), ((c[1] + sy * d[1] / qi(2) - vp[1]) / vp[3] * qi(2) - qi(1)).shadow().abs()];
                    for i in 0..2 {
                        let scale = (vp[2 + i] / d[i]).shadow().abs() * nx[i] + (vp[2 + i].shadow().abs() + 2.0 * (c[i].shadow().abs() + vp[i].shadow().abs())) / d[i].shadow().abs();
                        let (got, want) = ((hc[i] / hc[3]).shadow(), [sx, sy][i].shadow());
                        if hc[3] == qi(0) || !((got - want).abs() <= tol(scale)) { s.violation_w(&site, "float-matrix-misses-the-clip-square-by-more-than-the-forward-error-bound", json!({"input": inp(), "corner": jxs(&[sx, sy]), "axis": i, "image": got, "bound": tol(scale)}), 10); break 'corners; }
                    }
                } }
                for e in ladder(kb).into_iter().flat_map(|e| [e, -e]) {
                    s.eval(true); s.class("law:picking arguments x 2^+-K");
                    let (vs, cs, ds) = ([vpf[0] * fp2(e), vpf[1] * fp2(e), vpf[2] * fp2(e), vpf[3] * fp2(e)], [cf[0] * fp2(e), cf[1] * fp2(e)], [df[0] * fp2(e), df[1] * fp2(e)]);
                    if let Some(got) = s.call(&site, inp, || pick_form::<F>(k, row, &cs, &ds, &vs)) {
                        if got != base { s.violation_w(&site, "matrix-depends-on-the-unit-of-the-window", json!({"input": inp(), "all arguments scaled by 2^": e, "got": format!("{:?}", got), "unscaled": format!("{:?}", base)}), 30); }
                    }
                }
            }
        } }
        s.meta("scales", json!({"element": F::NAME, "K (viewport, window, world, matrices in world_to_viewport)": kb, "per-matrix exponent where the general inverse is involved": km, "tolerance": "256 * eps * (magnitude of the oracle's intermediates evaluated on absolute values)"}));
        s.sample(json!({"law": "world_to_viewport(p, 2^b MV, 2^a P, vp) == world_to_viewport(p, MV, P, vp) bit for bit", "element": F::NAME, "a,b": [kb, kb]}));
    }
    let float_rule = |e: &str, kb: i32, km: i32| format!("element type {e}: 4 dyadic model-views (TS, rotation+shear+translation, 2 dense) x 4 dyadic projections (off-centre frustum-like, off-centre ortho-like, lh-zo perspective-like, dense projective) x 3 viewports (one with negative height, one fractional with negative width) x 3 points / 3 window points (thorough: 4 viewports, 7 points, and every law also at 1/8, 1/4, 1/2, 3/4 of the extreme exponent) x {{_no,_zo}} x {{row,col}}, argument forms in rotation, every input exactly representable: (1) result within 256 eps x (magnitude of the exact pipeline evaluated on absolute values) of the exact rational pipeline on the same inputs (skipped and counted when |clip w| or |pre-image w| is below 2^-10 of its absolute-value evaluation); (2) bitwise scaling laws: P and MV times powers of two up to 2^+-{kb} (world_to_viewport) / 2^+-{km} each (viewport_to_world: the inverse's determinant scales with the 4th power) leave the result unchanged, viewport (and window x,y) times 2^+-{kb} scales window x,y exactly / leaves the world point unchanged, point times 2^e with the first three MV columns times 2^-e leaves the window point unchanged / scales the world point, picking_region is unchanged when centre, size and viewport are all times 2^+-{kb}; non-trivial: all but the skipped");
    rep.section("floats f64: forward-error closeness to the exact pipeline and bitwise power-of-two scaling laws at 2^+-400", &float_rule("f64", 400, 100), true, false, |s| float_section::<f64>(s));
    rep.section("floats f32: forward-error closeness to the exact pipeline and bitwise power-of-two scaling laws at 2^+-40", &float_rule("f32", 40, 10), true, false, |s| float_section::<f32>(s));

    // =================================================================================================
    // second audit: values NEXT TO the special ones (exact), results that are exact by construction and translation laws (floats)
    // -------------------------------------------------------------------------------------------------
    let e55 = pow2(-55); // below X's epsilon 2^-52 and below any plausible hand-written threshold
    rep.section("nearly-special values on exact rationals: matrices next to the identity / next to affine / next to singular, clip w next to +-1, viewports and points of size 2^-55, nearly square viewports, window depths next to 0 and 1, regions next to the viewport size and next to its centre",
        "e = 2^-55 (thorough: each of 2^-55, 2^-53, 2^-52 = the exact type's epsilon, 2^-51, 2^-45, 2^-30). (a)-(c) matrices N in {I + e E00, I - e E12, I + e E03, (1+e) I, I + e E30, I - e E32 (bottom row next to (0,0,0,1)), I + e E33, I - e E33, -(I + e E33) (clip w next to 1 / -1), [[1,0,0,0],[0,1,0,0],[0,0,1,1],[0,0,1,1+e]] (det = e), dense#1 with row 3 replaced by row 0 + row 2 + e e3 (det = 9e)} used as model-view with projections {identity, frustum off-centre (real builder), dense-projective#1} and as projection with model-views {identity, T(1,2,3), dense#1} x viewports {(0,0,640,480),(10,-20,3,-7),(e,-e,e,3e),(-5,5,1,1+e)} x points {(1,-1,2),(1/2,-3/4,5/3),0,(e,-e,2e),(1+e,1,1),(0,0,1)} (the e-sized viewport only with e-free points) x {_no,_zo} x {row,col}, argument forms in rotation: (a) world_to_viewport equals the reference pipeline, (b) viewport_to_world of that window point returns the point, (c) window points {vp.x+vp.w/4, vp.x+vp.w(1-e)} x {vp.y+2vp.h/3} x depths {0, 1, 1-e, e, 3/7} unproject to adj(P MV)/det; (d) picking_region: viewports {(0,0,640,480),(10,-20,3,-7),(7/2,-1/3,5/4,9/7)} x centres {viewport centre, viewport origin} + {(0,0),(e,0),(0,-e),(e,e)} x sizes {|vp.wh|, |vp.wh|(1+e), |vp.wh|(1-e), (|vp.w|, |vp.h|(1+e)), (1,1+e), (e,3e)} x {row,col} x three argument forms: the corner law; non-trivial: (a)-(c) clip w != 0 / pre-image finite, (d) all", true, false, |s| {
        let names = ["matrix-nearly-identity", "matrix-nearly-affine", "clip-w-nearly-1", "clip-w-nearly-minus-1", "matrix-nearly-singular", "near-matrix-as-modelview", "near-matrix-as-projection",
            "viewport-2^-55", "viewport-nearly-square", "point-2^-55", "point-nearly-equal-lanes", "round-trip-world", "window-depth-nearly-0-or-1", "window-x-nearly-on-the-border",
            "region-nearly-viewport-size", "region-nearly-centred", "region-nearly-at-the-origin", "region-nearly-square", "region-2^-55", "flavour-no", "flavour-zo", "layout-row", "layout-col", "clip-w-zero(skipped)", "pre-image-at-infinity(skipped)"];
        s.require_classes(&names[..23]);
        let cnt = Cnt::new(&names);
        let nfail = AtomicU64::new(0);
        let lost: std::sync::Mutex<std::collections::BTreeMap<String, u64>> = std::sync::Mutex::new(Default::default());
        // thorough: e just below / at / just above X's epsilon 2^-52 and two larger hand-written-threshold sizes
        let es: Vec<(X, String)> = if s.thorough() { [-55, -53, -52, -51, -45, -30].iter().map(|&k| (pow2(k), format!("2^{}", k))).collect() } else { vec![(e55, "2^-55".to_string())] };
        for (e, elab) in es.iter().map(|(e, l)| (*e, l.as_str())) {
        let eij = |i: usize, j: usize, v: X| { let mut m = ident::<X, 4>(); m[i][j] = m[i][j] + v; m };
        let d1 = ints4([[2, 1, 0, 3], [1, 3, 1, -1], [0, -2, 1, 2], [1, 0, 1, 1]]);
        let mut ns1 = d1; for j in 0..4 { ns1[3][j] = d1[0][j] + d1[2][j]; } ns1[3][3] = ns1[3][3] + e;
        let mut blk = ident::<X, 4>(); blk[2][3] = qi(1); blk[3][2] = qi(1); blk[3][3] = qi(1) + e;
        let near: Vec<(&'static str, &'static str, A<X, 4>)> = vec![
            ("I + e E00", "matrix-nearly-identity", eij(0, 0, e)), ("I - e E12", "matrix-nearly-identity", eij(1, 2, -e)), ("I + e E03", "matrix-nearly-identity", eij(0, 3, e)),
            ("(1+e) I", "matrix-nearly-identity", scale4(&ident::<X, 4>(), qi(1) + e)),
            ("I + e E30", "matrix-nearly-affine", eij(3, 0, e)), ("I - e E32", "matrix-nearly-affine", eij(3, 2, -e)),
            ("I + e E33", "clip-w-nearly-1", eij(3, 3, e)), ("I - e E33", "clip-w-nearly-1", eij(3, 3, -e)), ("-(I + e E33)", "clip-w-nearly-minus-1", scale4(&eij(3, 3, e), qi(-1))),
            ("[[1,0,0,0],[0,1,0,0],[0,0,1,1],[0,0,1,1+e]]", "matrix-nearly-singular", blk), ("dense#1, row 3 := row 0 + row 2 + e e3", "matrix-nearly-singular", ns1),
        ];
        let frustum = pjs.iter().find(|p| p.family == "frustum").expect("a frustum projection").m;
        let partners_p: Vec<(&str, A<X, 4>)> = vec![("identity", ident::<X, 4>()), ("frustum off-centre", frustum), ("dense-projective#1", ints4([[2, 0, 1, 1], [1, 3, 0, -2], [0, 1, 2, 1], [1, -1, 1, 3]]))];
        let partners_mv: Vec<(&str, A<X, 4>)> = vec![("identity", ident::<X, 4>()), ("T(1,2,3)", mv1[2].m), ("dense#1", d1)];
        // (near index, partner index, near matrix sits in the model-view slot?)
        let combos: Vec<(usize, usize, bool)> = (0..near.len()).flat_map(|i| (0..3).flat_map(move |j| [(i, j, true), (i, j, false)])).collect();
        let vpn: Vec<[X; 4]> = vec![[qi(0), qi(0), qi(640), qi(480)], [qi(10), qi(-20), qi(3), qi(-7)], [e, -e, e, qi(3) * e], [qi(-5), qi(5), qi(1), qi(1) + e]];
        let ptn: Vec<[X; 3]> = vec![[qi(1), qi(-1), qi(2)], [q(1, 2), q(-3, 4), q(5, 3)], [qi(0), qi(0), qi(0)], [e, -e, qi(2) * e], [qi(1) + e, qi(1), qi(1)], [qi(0), qi(0), qi(1)]];
        let lose = |ni: usize, vi: usize, what: &str| { *lost.lock().unwrap().entry(format!("e = {} | {} | viewport#{} | {}", elab, near[ni].0, vi, what)).or_insert(0) += 1; };
        combos.par_iter().for_each(|&(ni, pi, as_mv)| {
            let (nname, ncls, nm) = &near[ni];
            let (mvn, mvm, pn, pmx) = if as_mv { (*nname, *nm, partners_p[pi].0, partners_p[pi].1) } else { (partners_mv[pi].0, partners_mv[pi].1, *nname, *nm) };
            let mut thr = Thr::new(3, &nfail);
            let mut k = ni + 3 * pi + as_mv as usize;
            let inv = catch(|| inv4(&mmul(&pmx, &mvm))).ok();
            for (vi, vp) in vpn.iter().enumerate() {
                for (qi_, pt) in ptn.iter().enumerate() {
                    if vi == 2 && (qi_ == 3 || qi_ == 4) { continue; } // e-sized viewport with e-bearing points: the reference leaves the i128 range
                    let clip = match catch(|| ref_clip(&mvm, &pmx, pt)) { Ok(c) => c, Err(_) => { s.eval(false); s.unmodelled("overflow in the reference"); lose(ni, vi, "reference"); continue; } };
                    if clip[3] == qi(0) { s.eval(false); cnt.add("clip-w-zero(skipped)", 1); continue; }
                    let wgt = 7_000_000 + ((ni * 10 + pi) * 2 + as_mv as usize) as u64 * 100 + (vi * 10 + qi_) as u64;
                    for fl in FLS {
                        let want = match catch(|| ref_window(&clip, vp, fl)) { Ok(w) => w, Err(_) => { s.eval(false); s.unmodelled("overflow in the reference"); lose(ni, vi, "reference"); continue; } };
                        for row in [true, false] {
                            k += 1; let form = FORMS[(k + k / 4) % 4]; let form2 = FORMS[(k / 4 + 2 * k) % 4];
                            s.eval(true);
                            cnt.add(ncls, 1); cnt.add(if as_mv { "near-matrix-as-modelview" } else { "near-matrix-as-projection" }, 1);
                            cnt.add(if fl == Fl::NO { "flavour-no" } else { "flavour-zo" }, 1); cnt.add(if row { "layout-row" } else { "layout-col" }, 1);
                            if vi == 2 { cnt.add("viewport-2^-55", 1); } if vi == 3 { cnt.add("viewport-nearly-square", 1); }
                            if qi_ == 3 { cnt.add("point-2^-55", 1); } if qi_ == 4 { cnt.add("point-nearly-equal-lanes", 1); }
                            let site = format!("Mat4<{}>::world_to_viewport_{}", lay(row), fl.s());
                            let inp = || json!({"modelview": mvn, "MV": jmat(&mvm), "projection": pn, "P": jmat(&pmx), "e": elab, "viewport(x,y,w,h)": jxs(vp), "point": jxs(pt), "point_passed_as": form.s()});
                            let Some(got) = s.call(&site, inp, || w2v_form::<X>(form, row, fl, pt, &mvm, &pmx, vp)) else { lose(ni, vi, "world_to_viewport"); continue };
                            if got != want { if thr.allow(&site, CLS_FWD) { s.violation_w(&site, CLS_FWD, json!({"input": inp(), "clip": jxs(&clip), "got": jxs(&got), "want": jxs(&want)}), wgt); } continue; }
                            if ni >= 4 && s.wants_sample() { s.sample(json!({"input": inp(), "clip": jxs(&clip), "window": jxs(&want), "flavour": fl.s()})); }
                            if inv.is_none() { continue; }
                            s.eval(true); cnt.add("round-trip-world", 1);
                            let usite = format!("Mat4<{}>::viewport_to_world_{}", lay(row), fl.s());
                            if let Some(back) = s.call(&usite, inp, || v2w_form::<X>(form2, row, fl, &got, &mvm, &pmx, vp)) {
                                if back != *pt && thr.allow(&usite, CLS_RT) { s.violation_w(&usite, CLS_RT, json!({"input": inp(), "window": jxs(&got), "window_passed_as": form2.s(), "got": jxs(&back), "want": jxs(pt)}), wgt); }
                            } else { lose(ni, vi, "viewport_to_world(round trip)"); }
                        }
                    }
                }
                // (c) window points next to the border and depths next to 0 and 1
                let Some(inv) = inv.as_ref() else { continue };
                let mut rays: Vec<([X; 3], bool, bool)> = Vec::new();
                for (xi_, x) in [vp[0] + vp[2] / qi(4), vp[0] + vp[2] * (qi(1) - e)].into_iter().enumerate() { for (zi, z) in [qi(0), qi(1), qi(1) - e, e, q(3, 7)].into_iter().enumerate() {
                    if vi == 2 && (xi_ == 1 || zi == 2 || zi == 3) { continue; }
                    rays.push(([x, vp[1] + vp[3] * q(2, 3), z], xi_ == 1, zi == 2 || zi == 3));
                } }
                for (ri, (ray, xnear, znear)) in rays.into_iter().enumerate() { for fl in FLS {
                    let h = match catch(|| ref_unproject_h(inv, vp, &ray, fl)) { Ok(h) => h, Err(_) => { s.eval(false); s.unmodelled("overflow in the reference"); lose(ni, vi, "reference"); continue; } };
                    if h[3] == qi(0) { s.eval(false); cnt.add("pre-image-at-infinity(skipped)", 1); continue; }
                    let want = match catch(|| [h[0] / h[3], h[1] / h[3], h[2] / h[3]]) { Ok(w) => w, Err(_) => { s.eval(false); s.unmodelled("overflow in the reference"); lose(ni, vi, "reference"); continue; } };
                    for row in [true, false] {
                        k += 1; let form = FORMS[(k + k / 4) % 4];
                        s.eval(true); if xnear { cnt.add("window-x-nearly-on-the-border", 1); } if znear { cnt.add("window-depth-nearly-0-or-1", 1); }
                        let site = format!("Mat4<{}>::viewport_to_world_{}", lay(row), fl.s());
                        let inp = || json!({"modelview": mvn, "MV": jmat(&mvm), "projection": pn, "P": jmat(&pmx), "e": elab, "viewport(x,y,w,h)": jxs(vp), "window_point": jxs(&ray), "window_passed_as": form.s()});
                        if let Some(got) = s.call(&site, inp, || v2w_form::<X>(form, row, fl, &ray, &mvm, &pmx, vp)) {
                            if got != want && thr.allow(&site, CLS_UN) { s.violation_w(&site, CLS_UN, json!({"input": inp(), "got": jxs(&got), "want(pre-image under the reference projection)": jxs(&want)}), 7_500_000 + ((ni * 10 + pi) * 2 + as_mv as usize) as u64 * 100 + (vi * 10 + ri) as u64); }
                        } else { lose(ni, vi, "viewport_to_world(window point)"); }
                    }
                } }
            }
        });
        // (d) picking regions next to the viewport size / centre / origin
        let vpp: Vec<[X; 4]> = vec![[qi(0), qi(0), qi(640), qi(480)], [qi(10), qi(-20), qi(3), qi(-7)], [q(7, 2), q(-1, 3), q(5, 4), q(9, 7)]];
        let mut k = 0usize;
        for (vi, vp) in vpp.iter().enumerate() {
            let (aw, ah) = (Real::abs(vp[2]), Real::abs(vp[3]));
            let bases = [[vp[0] + vp[2] / qi(2), vp[1] + vp[3] / qi(2)], [vp[0], vp[1]]];
            let offs = [[qi(0), qi(0)], [e, qi(0)], [qi(0), -e], [e, e]];
            let sizes = [[aw, ah], [aw * (qi(1) + e), ah * (qi(1) + e)], [aw * (qi(1) - e), ah * (qi(1) - e)], [aw, ah * (qi(1) + e)], [qi(1), qi(1) + e], [e, qi(3) * e]];
            for (bi, b) in bases.iter().enumerate() { for (oi, o) in offs.iter().enumerate() { for (di, d) in sizes.iter().enumerate() {
                let c = [b[0] + o[0], b[1] + o[1]];
                for row in [true, false] {
                    k += 1;
                    s.eval(true); cnt.add(if row { "layout-row" } else { "layout-col" }, 1);
                    if di >= 1 && di <= 3 { cnt.add("region-nearly-viewport-size", 1); } if di == 4 { cnt.add("region-nearly-square", 1); } if di == 5 { cnt.add("region-2^-55", 1); }
                    if oi > 0 { cnt.add(if bi == 0 { "region-nearly-centred" } else { "region-nearly-at-the-origin" }, 1); }
                    let inp = || json!({"center": jxs(&c), "delta": jxs(d), "viewport(x,y,w,h)": jxs(vp), "e": elab, "passed_as": PICK_FORMS[k % 3]});
                    let site = format!("Mat4<{}>::picking_region", lay(row));
                    if let Some(m) = s.call(&site, inp, || pick_form::<X>(k, row, &c, d, vp)) {
                        match catch(|| pick_bad(&m, &c, d, vp)) {
                            Ok(Some(bad)) => s.violation_w(&site, catch(|| pick_class(&m, &c, d, vp)).unwrap_or(CLS_PICK), json!({"input": inp(), "matrix": jmat(&m), "first_failing_corner": bad}), 7_900_000 + (vi * 100 + bi * 50 + oi * 10 + di) as u64),
                            Ok(None) => {}
                            Err(_) => s.unmodelled("overflow in the reference"),
                        }
                    }
                }
            } } }
        }
        s.meta("alphabet", json!({"e": es.iter().map(|e| e.1.clone()).collect::<Vec<_>>(), "near_matrices": near.len(), "partners_per_slot": 3, "viewports": vpn.len(), "points": ptn.len(), "window_points_per_viewport": 10, "picking": {"viewports": vpp.len(), "centres": 8, "sizes": 6}}));
        }
        cnt.flush(s);
        s.meta("failing_cases(all counted; first 3 per matrix pair and site|class recorded)", json!(nfail.load(Relaxed)));
        s.meta("cases lost to the i128 range of the exact rationals (e | near matrix | viewport | where)", json!(*lost.lock().unwrap()));
    });

    // -------------------------------------------------------------------------------------------------
    /// odd integers n with n * (1/n) != 1 in F (the first two): a reciprocal-multiply in place of a division is visible on them
    fn bad_recips<F: Flt>(count: usize) -> Vec<i64> { (3..1000i64).step_by(2).filter(|&n| { let w = F::of(n as f64); w * (F::one() / w) != F::one() }).take(count).collect() }
    fn float_exact_section<F: Flt>(s: &Section) {
        let names = ["exact:clip-edge x=+-w,y=+-w,z=+-w (w not a power of two)", "exact:window corner -> ndc +-1 (extent not a power of two)", "exact:pre-image lane = pre-image w (not a power of two)", "exact:picking region = viewport / quarter / quadrant (extent not a power of two)",
            "law:window and viewport translated far from the origin", "law:picking centre and viewport translated far from the origin", "law:world and camera translated far from the origin", "flavour-no", "flavour-zo", "layout-row", "layout-col"];
        s.require_classes(&names);
        let th = s.thorough();
        let ns = bad_recips::<F>(if th { 8 } else { 2 });
        assert!(ns.len() == if th { 8 } else { 2 }, "too few small odd n with n * (1/n) != 1 in {}", F::NAME);
        // viewports with extents +-n, +-n' for consecutive pairs of these integers
        let nvps: Vec<[X; 4]> = ns.chunks(2).flat_map(|c| { let (n1, n2) = (c[0], c[1]); [[qi(0), qi(0), xi(n1), xi(n2)], [qi(10), qi(-20), xi(-n1), xi(n2)], [qi(-3), qi(5), xi(n2), xi(-n1)]] }).collect();
        // thorough: the translations also at 2^-4, 2^-8, 2^-12, 2^-16 of the extreme one
        let tsteps: Vec<i32> = if th { vec![0, 4, 8, 12, 16] } else { vec![0] };
        let jf = |a: &[F]| json!(a.iter().map(|v| format!("{:?}", v)).collect::<Vec<_>>());
        let same = |a: &[F; 3], b: &[F; 3]| (0..3).all(|i| a[i] == b[i]);
        let fcls = |s: &Section, fl: Fl, row: bool| { s.class(if fl == Fl::NO { "flavour-no" } else { "flavour-zo" }); s.class(if row { "layout-row" } else { "layout-col" }); };
        let tmat = |t: [i64; 3]| { let mut m = ident::<X, 4>(); for i in 0..3 { m[i][3] = xi(t[i]); } m };
        let mut k = 0usize;
        // ---- E1: clip position on the edge of the clip cube, clip w = n: ndc = +-n/n = +-1 exactly, every later step is exact
        for &n in &ns {
            let mut dn = ident::<X, 4>(); dn[3][3] = xi(n);
            let swap = ints4([[1, 0, 0, 0], [0, 1, 0, 0], [0, 0, 0, 1], [0, 0, 1, 0]]);
            for (pname, px, persp) in [("diag(1,1,1,n)", dn, false), ("z and w swapped (clip w = eye z)", swap, true)] { for t in [[0i64, 0, 0], [3, -5, 2]] {
                let mvx = tmat(t);
                let (mvf, pf) = (mat_f::<F>(&mvx), mat_f::<F>(&px));
                for sg in 0..8u32 {
                    let (sx, sy, sz) = (if sg & 1 == 0 { 1 } else { -1 }, if sg & 2 == 0 { 1 } else { -1 }, if sg & 4 == 0 { 1 } else { -1 });
                    if persp && sz < 0 { continue; }
                    let pt = [xi(sx * n - t[0]), xi(sy * n - t[1]), xi(sz * n - t[2])];
                    let clip = ref_clip(&mvx, &px, &pt);
                    assert!(clip[3] == xi(n) && clip[0] == xi(sx * n) && clip[1] == xi(sy * n), "float-exact alphabet: clip position not on the edge");
                    let ptf = arr_f::<F, 3>(&pt);
                    for vp in [[qi(0), qi(0), qi(640), qi(480)], [qi(0), qi(0), qi(-640), qi(480)], [qi(10), qi(-20), qi(4), qi(-8)], [pow2(20), -pow2(20), qi(4), qi(8)]] {
                        let vpf = arr_f::<F, 4>(&vp);
                        for fl in FLS { for row in [true, false] {
                            k += 1; let form = FORMS[(k + k / 4) % 4];
                            s.eval(true); s.class(names[0]); fcls(s, fl, row);
                            let want = ref_window(&clip, &vp, fl);
                            let site = format!("Mat4<{}>::world_to_viewport_{}<{}>", lay(row), fl.s(), F::NAME);
                            let inp = || json!({"MV": jmat(&mvx), "projection": pname, "P": jmat(&px), "n (n*(1/n) != 1)": n, "viewport(x,y,w,h)": jxs(&vp), "point": jxs(&pt), "clip": jxs(&clip), "element": F::NAME});
                            let Some(got) = s.call(&site, inp, || w2v_form::<F>(form, row, fl, &ptf, &mvf, &pf, &vpf)) else { continue };
                            let ncmp = if persp { 2 } else { 3 };
                            if (0..ncmp).any(|i| got[i] != to_f::<F>(want[i])) {
                                s.violation_w(&site, "point-on-the-edge-of-the-clip-cube-not-mapped-exactly-onto-the-viewport-edge", json!({"input": inp(), "got": jf(&got), "want(exact: ndc = +-w/w = +-1, all later steps exact)": jxs(&want[..ncmp])}), 100 + n as u64);
                            }
                        } }
                    }
                }
            } }
        }
        // ---- E2: window corners of a viewport with extents (n1, n2): ndc = +-n/n = +-1 exactly; dyadic matrices whose inverse is exact
        let dsc = { let mut m = ident::<X, 4>(); m[0][0] = qi(2); m[1][1] = qi(4); m[2][2] = q(1, 2); m };
        for (mvx, px) in [(ident::<X, 4>(), ident::<X, 4>()), (tmat([3, -5, 2]), ident::<X, 4>()), (ident::<X, 4>(), dsc), (tmat([3, -5, 2]), dsc)] {
            let inv = inv4(&mmul(&px, &mvx));
            let (mvf, pf) = (mat_f::<F>(&mvx), mat_f::<F>(&px));
            for vp in nvps.iter().copied() {
                let vpf = arr_f::<F, 4>(&vp);
                for x in [vp[0], vp[0] + vp[2], vp[0] + vp[2] / qi(2)] { for y in [vp[1], vp[1] + vp[3]] { for z in [qi(0), q(1, 4), qi(1), q(3, 2)] {
                    let ray = [x, y, z];
                    let rayf = arr_f::<F, 3>(&ray);
                    for fl in FLS {
                        let h = ref_unproject_h(&inv, &vp, &ray, fl);
                        let want = [h[0] / h[3], h[1] / h[3], h[2] / h[3]];
                        for row in [true, false] {
                            k += 1; let form = FORMS[(k + k / 4) % 4];
                            s.eval(true); s.class(names[1]); fcls(s, fl, row);
                            let site = format!("Mat4<{}>::viewport_to_world_{}<{}>", lay(row), fl.s(), F::NAME);
                            let inp = || json!({"MV": jmat(&mvx), "P": jmat(&px), "viewport(x,y,w,h)": jxs(&vp), "window_point": jxs(&ray), "element": F::NAME});
                            let Some(got) = s.call(&site, inp, || v2w_form::<F>(form, row, fl, &rayf, &mvf, &pf, &vpf)) else { continue };
                            if (0..3).any(|i| got[i] != to_f::<F>(want[i])) {
                                s.violation_w(&site, "window-corner-not-unprojected-exactly", json!({"input": inp(), "got": jf(&got), "want(exact: (x - vp.x)/vp.w in {0,1/2,1}, dyadic matrices)": jxs(&want)}), 200);
                            }
                        }
                    }
                } } }
            }
        }
        // ---- E2b: integer unimodular P MV whose inverse makes pre-image lane k = pre-image w = n: lane k of the result is n/n = 1 exactly
        for lane in 0..3usize { for &n in &ns {
            let other = if lane == 0 { 1 } else { 0 };
            let mut minv = ident::<X, 4>(); minv[lane][3] = qi(1); minv[3][other] = qi(1);
            let pm = inv4(&minv);
            let vp = [qi(0), qi(0), qi(2), qi(2)];
            for (mvx, px) in [(pm, ident::<X, 4>()), (ident::<X, 4>(), pm)] {
                let (mvf, pf, vpf) = (mat_f::<F>(&mvx), mat_f::<F>(&px), arr_f::<F, 4>(&vp));
                for fl in FLS {
                    // ndc x = ndc y = n - 1; lane 2 also needs ndc z = n - 1
                    let z = if lane == 2 { match fl { Fl::NO => q(n as i128, 2), Fl::ZO => xi(n - 1) } } else { q(1, 2) };
                    let ray = [xi(n), xi(n), z];
                    let h = ref_unproject_h(&minv, &vp, &ray, fl);
                    assert!(h[3] == xi(n) && h[lane] == xi(n), "float-exact alphabet: pre-image lane != pre-image w");
                    let rayf = arr_f::<F, 3>(&ray);
                    for row in [true, false] {
                        k += 1; let form = FORMS[(k + k / 4) % 4];
                        s.eval(true); s.class(names[2]); fcls(s, fl, row);
                        let site = format!("Mat4<{}>::viewport_to_world_{}<{}>", lay(row), fl.s(), F::NAME);
                        let inp = || json!({"MV": jmat(&mvx), "P": jmat(&px), "inverse of P MV": jmat(&minv), "viewport(x,y,w,h)": jxs(&vp), "window_point": jxs(&ray), "pre-image(homogeneous)": jxs(&h), "element": F::NAME});
                        let Some(got) = s.call(&site, inp, || v2w_form::<F>(form, row, fl, &rayf, &mvf, &pf, &vpf)) else { continue };
                        if got[lane] != F::one() { s.violation_w(&site, "pre-image-lane-equal-to-its-w-not-divided-to-exactly-1", json!({"input": inp(), "lane": lane, "got": jf(&got), "want": "1"}), 300 + n as u64); }
                    }
                }
            }
        } }
        // ---- E3: picking regions that are the viewport, its centred quarter, its first quadrant: scale = +-1, +-4, +-2 and offset 0 / +-1 exactly
        for vp in nvps.iter().copied() {
            let (aw, ah) = (Real::abs(vp[2]), Real::abs(vp[3]));
            let mid = [vp[0] + vp[2] / qi(2), vp[1] + vp[3] / qi(2)];
            for (what, c, d) in [("the viewport", mid, [aw, ah]), ("centred, a quarter of the extents", mid, [aw / qi(4), ah / qi(4)]), ("first quadrant", [vp[0] + vp[2] / qi(4), vp[1] + vp[3] / qi(4)], [aw / qi(2), ah / qi(2)]), ("full width, quarter height", mid, [aw, ah / qi(4)])] {
                let (vpf, cf, df) = (arr_f::<F, 4>(&vp), arr_f::<F, 2>(&c), arr_f::<F, 2>(&d));
                for row in [true, false] {
                    k += 1;
                    s.eval(true); s.class(names[3]); s.class(if row { "layout-row" } else { "layout-col" });
                    let site = format!("Mat4<{}>::picking_region<{}>", lay(row), F::NAME);
                    let inp = || json!({"region": what, "center": jxs(&c), "delta": jxs(&d), "viewport(x,y,w,h)": jxs(&vp), "element": F::NAME});
                    let Some(m) = s.call(&site, inp, || pick_form::<F>(k, row, &cf, &df, &vpf)) else { continue };
                    let mx = map4(&m, |v| X::R(vx::fl::qf(v.f())));
                    if let Some(bad) = pick_bad(&mx, &c, &d, &vp) {
                        s.violation_w(&site, "region-with-exact-scale-and-offset-not-mapped-exactly-onto-the-clip-square", json!({"input": inp(), "matrix": format!("{:?}", m), "first_failing_corner": bad}), 400);
                    }
                }
            }
        }
        // ---- E4: translation laws far from the origin (the subtractions x - vp.x, center - vp.x are exact: both operands are floats, the difference is a short dyadic)
        let big = |frac_bits: i32| -> X { let mant = if F::NAME == "f32" { 24 } else { 53 }; pow2(mant - 1 - frac_bits - 1) }; // t with ulp(2t) = 2^-frac_bits
        let (fmv, fpj) = (float_modelviews(), float_projections());
        for (mi, pi) in [(0usize, 0usize), (1, 2), (2, 1), (3, 3)] {
            let (mvf, pf) = (mat_f::<F>(&fmv[mi].1), mat_f::<F>(&fpj[pi].1));
            for t in tsteps.iter().map(|&k| big(5) / pow2(k)) {
            for vp in [[qi(10), qi(-20), qi(3), qi(-7)], [qi(-4), qi(8), q(5, 4), q(7, 8)]] { for off in [[q(3, 4), q(-1, 2)], [q(5, 2), q(1, 4)]] { for z in [q(1, 4), qi(1)] {
                let ray = [vp[0] + off[0], vp[1] + off[1], z];
                let (vpt, rayt) = ([vp[0] + t, vp[1] - t, vp[2], vp[3]], [ray[0] + t, ray[1] - t, z]);
                let (vpf, rayf, vptf, raytf) = (arr_f::<F, 4>(&vp), arr_f::<F, 3>(&ray), arr_f::<F, 4>(&vpt), arr_f::<F, 3>(&rayt));
                for fl in FLS { for row in [true, false] {
                    k += 1; let form = FORMS[(k + k / 4) % 4];
                    s.eval(true); s.class(names[4]); fcls(s, fl, row);
                    let site = format!("Mat4<{}>::viewport_to_world_{}<{}>", lay(row), fl.s(), F::NAME);
                    let inp = || json!({"modelview": fmv[mi].0, "projection": fpj[pi].0, "viewport(x,y,w,h)": jxs(&vp), "window_point": jxs(&ray), "translation of window x,y and viewport origin": jxs(&[t, -t]), "element": F::NAME});
                    let Some(base) = s.call(&site, inp, || v2w_form::<F>(form, row, fl, &rayf, &mvf, &pf, &vpf)) else { continue };
                    let Some(got) = s.call(&site, inp, || v2w_form::<F>(form, row, fl, &raytf, &mvf, &pf, &vptf)) else { continue };
                    if !same(&got, &base) { s.violation_w(&site, "result-changes-when-window-point-and-viewport-are-translated-together(exact subtraction)", json!({"input": inp(), "got": jf(&got), "untranslated": jf(&base)}), 500); }
                } }
            } } }
            }
        }
        for t in tsteps.iter().map(|&k| big(2) / pow2(k)) {
            for vp in [[qi(10), qi(-20), q(11, 8), q(7, 8)], [qi(-4), qi(8), qi(-3), qi(7)], [qi(0), qi(0), q(2565, 8), q(-3847, 8)]] { for off in [[q(1, 4), q(-1, 2)], [q(3, 2), qi(2)]] { for d in [[qi(5), qi(3)], [q(1, 4), q(1, 8)], [q(7, 5), q(3, 7)]] {
                let c = [vp[0] + off[0], vp[1] + off[1]];
                let (vpt, ct) = ([vp[0] + t, vp[1] - t, vp[2], vp[3]], [c[0] + t, c[1] - t]);
                // the size need not be dyadic: it is the same float in both calls
                let df = [F::of(d[0].shadow()), F::of(d[1].shadow())];
                let (vpf, cf, vptf, ctf) = (arr_f::<F, 4>(&vp), arr_f::<F, 2>(&c), arr_f::<F, 4>(&vpt), arr_f::<F, 2>(&ct));
                for row in [true, false] {
                    k += 1;
                    s.eval(true); s.class(names[5]); s.class(if row { "layout-row" } else { "layout-col" });
                    let site = format!("Mat4<{}>::picking_region<{}>", lay(row), F::NAME);
                    let inp = || json!({"center": jxs(&c), "delta(rounded to the element type)": jxs(&d), "viewport(x,y,w,h)": jxs(&vp), "translation of centre and viewport origin": jxs(&[t, -t]), "element": F::NAME});
                    let Some(base) = s.call(&site, inp, || pick_form::<F>(k, row, &cf, &df, &vpf)) else { continue };
                    let Some(got) = s.call(&site, inp, || pick_form::<F>(k, row, &ctf, &df, &vptf)) else { continue };
                    if got != base { s.violation_w(&site, "matrix-changes-when-centre-and-viewport-are-translated-together(exact subtraction)", json!({"input": inp(), "got": format!("{:?}", got), "untranslated": format!("{:?}", base)}), 600); }
                }
            } } }
        }
        // ---- E5: world point p + t seen through the model-view S T(-t) (S a signed permutation): MV (p + t, 1) = S p exactly, so the window point is that of (p, S)
        {
            let o = |v: f64| F::of(v);
            let z = F::zero();
            let mut pjs_f: Vec<(&str, A<F, 4>)> = vec![
                ("frustum-like, entries not dyadic", [[o(0.7), z, o(0.1), z], [z, o(1.3), o(-0.2), z], [z, z, o(-1.1), o(-0.3)], [z, z, -F::one(), z]]),
                ("dense, entries not dyadic", [[o(0.3), o(-0.7), o(0.2), o(1.1)], [o(0.9), o(0.1), o(-0.4), o(0.6)], [o(-0.2), o(0.5), o(1.7), o(-0.8)], [o(0.1), o(-0.3), o(0.7), o(1.9)]]),
            ];
            if let Ok(m) = catch(|| dr4(&rm::Mat4::<F>::perspective_rh_no(o(1.0), o(1.5), o(0.1), o(100.0)))) { pjs_f.push(("perspective_rh_no(1, 1.5, 0.1, 100) (real builder, decoded)", m)); }
            assert!(pjs_f.len() == 3, "perspective_rh_no panicked on floats");
            for t0 in tsteps.iter().map(|&k| (if F::NAME == "f32" { pow2(16) } else { pow2(40) }) / pow2(k)) {
            let t = [t0, qi(-2) * t0, qi(3) * t0];
            let perms: [(&str, [[i64; 3]; 3]); 3] = [("identity", [[1, 0, 0], [0, 1, 0], [0, 0, 1]]), ("RZ(90)", [[0, -1, 0], [1, 0, 0], [0, 0, 1]]), ("(z,-x,-y)", [[0, 0, 1], [-1, 0, 0], [0, -1, 0]])];
            for (pname, pf) in &pjs_f { for (sname, sm) in &perms {
                let sx: A<X, 3> = [[xi(sm[0][0]), xi(sm[0][1]), xi(sm[0][2])], [xi(sm[1][0]), xi(sm[1][1]), xi(sm[1][2])], [xi(sm[2][0]), xi(sm[2][1]), xi(sm[2][2])]];
                let st = mvec(&sx, &t);
                let (mv0, mvt) = (affine4(&sx, &[qi(0); 3]), affine4(&sx, &[-st[0], -st[1], -st[2]]));
                let (mv0f, mvtf) = (mat_f::<F>(&mv0), mat_f::<F>(&mvt));
                for pt in [[q(1, 4), q(-3, 2), q(-5, 4)], [qi(3), q(1, 2), q(-7, 4)], [q(-9, 8), q(5, 8), qi(-2)]] { for vp in [[qi(0), qi(0), qi(640), qi(480)], [qi(10), qi(-20), qi(3), qi(-7)]] {
                    let ptt = [pt[0] + t[0], pt[1] + t[1], pt[2] + t[2]];
                    let (ptf, pttf, vpf) = (arr_f::<F, 3>(&pt), arr_f::<F, 3>(&ptt), arr_f::<F, 4>(&vp));
                    for fl in FLS { for row in [true, false] {
                        k += 1; let form = FORMS[(k + k / 4) % 4];
                        s.eval(true); s.class(names[6]); fcls(s, fl, row);
                        let site = format!("Mat4<{}>::world_to_viewport_{}<{}>", lay(row), fl.s(), F::NAME);
                        let inp = || json!({"projection": pname, "P": format!("{:?}", pf), "modelview": format!("{} T(-t)", sname), "t": jxs(&t), "point": jxs(&pt), "point + t": jxs(&ptt), "viewport(x,y,w,h)": jxs(&vp), "element": F::NAME});
                        let Some(base) = s.call(&site, inp, || w2v_form::<F>(form, row, fl, &ptf, &mv0f, pf, &vpf)) else { continue };
                        let Some(got) = s.call(&site, inp, || w2v_form::<F>(form, row, fl, &pttf, &mvtf, pf, &vpf)) else { continue };
                        if !(same(&got, &base)) || got.iter().any(|v| v.f().is_nan()) { s.violation_w(&site, "result-changes-when-world-and-camera-are-translated-together(model-view times point is exact)", json!({"input": inp(), "got": jf(&got), "untranslated": jf(&base)}), 700); }
                    } }
                } }
            } }
            }
        }
        s.meta("constants", json!({"element": F::NAME, "n with n*(1/n) != 1": ns, "translation of window/viewport": format!("{:?}", big(5)), "translation of picking centre/viewport": format!("{:?}", big(2)), "world translation unit": if F::NAME == "f32" { "2^16" } else { "2^40" }, "translations also divided by 2^": tsteps}));
        s.sample(json!({"law": "world_to_viewport of a point with clip x = w = n gives exactly vp.x + vp.w", "element": F::NAME, "n": ns[0]}));
    }
    let fe_rule = |e: &str| format!("element type {e}, every input exactly representable, {{_no,_zo}} x {{row,col}}, argument forms in rotation; n1, n2 = the first two odd integers with n * (1/n) != 1 in {e} (thorough: the first eight, viewports from consecutive pairs; every translation also at 2^-4, 2^-8, 2^-12, 2^-16 of its size). EXACT results (==, no tolerance; every operation of the documented formula is exact on these inputs): (E1) 2 n x {{P = diag(1,1,1,n), P = z/w swap}} x {{MV = I, T(3,-5,2)}} x 8 (4) sign patterns of a point with clip (x,y,z) = (+-n,+-n,+-n), clip w = n x 4 viewports (one with negative width, one 2^20 from the origin): the window point is exactly the viewport corner and depth 0|1 (-1|1 zo); (E2) 4 dyadic matrix pairs x 3 viewports with extents +-n1, +-n2 x window x in {{left, right, middle}} x y in {{bottom, top}} x depths {{0,1/4,1,3/2}}: the exact pre-image; (E2b) 3 lanes x 2 n x 2 splits of an integer unimodular P MV whose pre-image has lane = w = n: that lane of the result is exactly 1; (E3) 3 such viewports x regions {{viewport, centred quarter, first quadrant, full width x quarter height}}: the float matrix, read as exact rationals, satisfies the corner law exactly. BITWISE translation laws: (E4) viewport_to_world is unchanged when window x,y and the viewport origin move by (t,-t) (4 matrix pairs x 2 viewports x 2 window offsets x 2 depths), picking_region is unchanged when centre and viewport origin move by (t,-t) (3 viewports x 2 centre offsets x 3 sizes), t chosen so that every translated input is representable; (E5) world_to_viewport(p + t, S T(-t), P) = world_to_viewport(p, S, P) for 3 signed permutations S x 3 projections with non-dyadic entries (one from the real perspective builder) x 3 points x 2 viewports, t = (1,-2,3) 2^40 (f32: 2^16): MV (p+t,1) = (S p, 1) exactly in floats; non-trivial: all");
    rep.section("floats f64: results that are exact by construction (w/w = 1) and bitwise translation laws far from the origin", &fe_rule("f64"), true, false, |s| float_exact_section::<f64>(s));
    rep.section("floats f32: results that are exact by construction (w/w = 1) and bitwise translation laws far from the origin", &fe_rule("f32"), true, false, |s| float_exact_section::<f32>(s));

    std::process::exit(rep.finish());
}
