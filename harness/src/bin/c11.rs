//! C11 — spatial vector functions satisfy their geometric definitions.
//!
//! Oracles are plain Rust over slices of exact rationals (`X`/`Q`) or `f64`; vectors are built with
//! `VecN::from_elems` (struct literals) and decoded with `into_elems` (field moves).  The traits
//! `SpRing`/`Sp` below only forward to the real vek methods (binding, no logic).
use num_traits::Zero;
use rayon::prelude::*;
use std::collections::{BTreeMap, HashSet};
use std::fmt::Debug;
use std::sync::Mutex;
use vek::ops::Slerp;
use vx::fr::{Deg, Fr};
use vx::lattice::*;
use vx::matx::{circle_points, cross3, unit_axes};
use vx::q::{angle_base, angle_base_t, base_of, cpow, register_inverse, reset_angles, Q};
use vx::vecs::*;
use vx::*;

// ---------------------------------------------------------------------------------------------
// binding to the real methods

trait SpRing<T: Copy>: VecN<T> + Copy + Send + Sync {
    fn dot_(self, o: Self) -> T;
    fn mag2_(self) -> T;
    fn dist2_(self, o: Self) -> T;
    fn refl_(self, n: Self) -> Self;
}
trait Sp<T: Copy>: SpRing<T> {
    fn mag_(self) -> T;
    fn dist_(self, o: Self) -> T;
    fn normalized_(self) -> Self;
    fn try_normalized_(self) -> Option<Self>;
    fn normalize_(&mut self);
    fn normalize_get_(&mut self) -> T;
    fn normalized_get_(self) -> (Self, T);
    fn is_normalized_(self) -> bool;
    fn is_approx_zero_(self) -> bool;
    fn is_mag_close_(self, x: T) -> bool;
    fn angle_(self, o: Self) -> T;
    fn refr_(self, n: Self, eta: T) -> Self;
    fn facefwd_(self, incident: Self, reference: Self) -> Self;
}
macro_rules! impl_ring { ($V:ident; $($T:ty),*) => { $(
    impl SpRing<$T> for $V<$T> {
        fn dot_(self, o: Self) -> $T { self.dot(o) }
        fn mag2_(self) -> $T { self.magnitude_squared() }
        fn dist2_(self, o: Self) -> $T { self.distance_squared(o) }
        fn refl_(self, n: Self) -> Self { self.reflected(n) }
    }
)* } }
macro_rules! impl_sp { ($V:ident; $($T:ty),*) => { $(
    impl Sp<$T> for $V<$T> {
        fn mag_(self) -> $T { self.magnitude() }
        fn dist_(self, o: Self) -> $T { self.distance(o) }
        fn normalized_(self) -> Self { self.normalized() }
        fn try_normalized_(self) -> Option<Self> { self.try_normalized() }
        fn normalize_(&mut self) { self.normalize() }
        fn normalize_get_(&mut self) -> $T { self.normalize_and_get_magnitude() }
        fn normalized_get_(self) -> (Self, $T) { self.normalized_and_get_magnitude() }
        fn is_normalized_(self) -> bool { self.is_normalized() }
        fn is_approx_zero_(self) -> bool { self.is_approx_zero() }
        fn is_mag_close_(self, x: $T) -> bool { self.is_magnitude_close_to(x) }
        fn angle_(self, o: Self) -> $T { self.angle_between(o) }
        fn refr_(self, n: Self, eta: $T) -> Self { self.refracted(n, eta) }
        fn facefwd_(self, incident: Self, reference: Self) -> Self { self.face_forward(incident, reference) }
    }
)* } }
/// distance_squared / magnitude_squared / distance on machine element types (floats and integers)
trait D2<T: Copy>: VecN<T> + Copy + Send + Sync { fn d2(self, o: Self) -> T; fn sub_m2(self, o: Self) -> T; }
macro_rules! impl_d2 { ($V:ident; $($T:ty),*) => { $( impl D2<$T> for $V<$T> {
    fn d2(self, o: Self) -> $T { self.distance_squared(o) }
    fn sub_m2(self, o: Self) -> $T { (self - o).magnitude_squared() }
} )* } }
macro_rules! impl_all_d2 { ($($V:ident),*) => { $( impl_d2!($V; f32, f64, i32, i64); )* } }
impl_all_d2!(Vec2, Vec3, Vec4, Vec8, Vec16, Vec32, Vec64, Extent2, Extent3);

/// Points close to each other but far from the origin: every lane is `base*k + d/4` (floats; whole units for integers), so the
/// lane differences are exact and `distance_squared` must be EXACTLY the sum of the squared offsets - unless it is computed from
/// the (huge, inexact / overflowing) squared lengths of the operands instead of from their difference.
fn dist2_offsets<T: Copy + PartialEq + Debug + Send + Sync, V: D2<T>>(s: &Section, tname: &str, mk: &(dyn Fn(i64, i64) -> T + Sync), want_of: &(dyn Fn(i64) -> T + Sync), unit: i64) {
    let n = V::N;
    let site = format!("{}::distance_squared<{}>", V::NAME, tname);
    let pat: [i64; 7] = [0, 1, -1, 2, 3, -2, 1];
    for r in 0..n.min(7) { for stride in [1usize, 2, 3] { for shift in [1usize, 3] {
        let da: Vec<i64> = (0..n).map(|i| pat[(r + i * stride) % 7] * unit).collect();
        let db: Vec<i64> = (0..n).map(|i| pat[(r + shift + i * (stride + 1)) % 7] * unit).collect();
        let k: Vec<i64> = (0..n).map(|i| 1 + (i as i64 + r as i64) % 3).collect();
        let a = V::from_elems((0..n).map(|i| mk(k[i], da[i])).collect());
        let b = V::from_elems((0..n).map(|i| mk(k[i], db[i])).collect());
        let sum: i64 = (0..n).map(|i| (da[i] - db[i]) * (da[i] - db[i])).sum();   // in (unit/4)^2 ... converted by want_of
        let want = want_of(sum);
        let inp = || json!({"lane_multipliers_of_the_base": k, "offsets_a(quarter units)": da, "offsets_b(quarter units)": db});
        s.eval(sum != 0);
        s.class("close points far from the origin");
        if let Some(g) = s.call(&site, inp, || a.d2(b)) { if g != want { vio(s, &site, "not-the-squared-length-of-the-difference", json!({"input": inp(), "got": format!("{:?}", g), "want": format!("{:?}", want)}), r as u64 + stride as u64); } }
        if let Some(g) = s.call(&site, inp, || a.sub_m2(b)) { if g != want { vio(s, &format!("{}::(a-b).magnitude_squared<{}>", V::NAME, tname), "not-the-squared-length-of-the-difference", json!({"input": inp(), "got": format!("{:?}", g), "want": format!("{:?}", want)}), r as u64 + stride as u64); } }
    } } }
}

macro_rules! impl_all { ($($V:ident),*) => { $( impl_ring!($V; X, f64, f32, Deg); impl_sp!($V; X, f64, f32); )* } }
impl_all!(Vec2, Vec3, Vec4, Vec8, Vec16, Vec32, Vec64, Extent2, Extent3);

/// float tiers
trait Fl: Copy + Send + Sync + Debug + PartialOrd + 'static {
    const NAME: &'static str;
    const EPS: f64;
    fn of(v: f64) -> Self;
    fn f(self) -> f64;
}
impl Fl for f64 { const NAME: &'static str = "f64"; const EPS: f64 = f64::EPSILON; fn of(v: f64) -> f64 { v } fn f(self) -> f64 { self } }
impl Fl for f32 { const NAME: &'static str = "f32"; const EPS: f64 = f32::EPSILON as f64; fn of(v: f64) -> f32 { v as f32 } fn f(self) -> f64 { self as f64 } }
/// |got - want| <= 256 eps(F) scale   (the harness' forward-error bound, `vx::fl::K`)
fn near<F: Fl>(got: f64, want: f64, scale: f64) -> bool { !got.is_nan() && (got - want).abs() <= vx::fl::K * F::EPS * scale.abs().max(1e-300) }

// ---------------------------------------------------------------------------------------------
// violation throttle

/// A mutant can make millions of cases fail and the report's per-violation bookkeeping is serialised.  Per `site|class`
/// the first 64 violations and every new smallest-weight one are forwarded to the report; all are counted
/// (`violations_counted_before_throttle` in the evidence).
static THROTTLE: Mutex<BTreeMap<String, (u64, u64)>> = Mutex::new(BTreeMap::new());
fn vio(s: &Section, site: &str, class: &str, detail: Value, w: u64) {
    let forward = {
        let mut t = THROTTLE.lock().unwrap();
        let e = t.entry(format!("{}|{}", site, class)).or_insert((0, u64::MAX));
        e.0 += 1;
        let f = e.0 <= 64 || w < e.1 || s.rep.replay.is_some(); // replay mode must see every violation again
        if w < e.1 { e.1 = w; }
        f
    };
    if forward { s.violation_w(site, class, detail, w); }
}
fn vio0(s: &Section, site: &str, class: &str, detail: Value) { vio(s, site, class, detail, 0) }

// ---------------------------------------------------------------------------------------------
// helpers (reference arithmetic on slices)

fn xi(a: &[i64]) -> Vec<X> { a.iter().map(|&v| qi(v as i128)).collect() }
fn rdot(a: &[X], b: &[X]) -> X { let mut s = qi(0); for i in 0..a.len() { s = s + a[i] * b[i]; } s }
fn fdot(a: &[f64], b: &[f64]) -> f64 { let mut s = 0.0; for i in 0..a.len() { s += a[i] * b[i]; } s }
fn wsum(p: &[i64]) -> u64 { p.iter().map(|v| v.unsigned_abs()).sum() }
fn xw(v: &[X]) -> u64 { v.iter().map(|x| match x { X::R(q) => (q.n.unsigned_abs() + (q.d as u128 - 1)).min(1 << 40) as u64, _ => 1 }).sum() }
fn fvec<F: Fl, V: VecN<F>>(a: &[f64]) -> V { V::from_elems(a.iter().map(|&v| F::of(v)).collect()) }
fn felems<F: Fl, V: VecN<F>>(v: V) -> Vec<f64> { v.into_elems().into_iter().map(|x| x.f()).collect() }
fn ivec<F: Fl, V: VecN<F>>(a: &[i64], scale: f64) -> V { V::from_elems(a.iter().map(|&v| F::of(v as f64 * scale)).collect()) }
fn qf(v: &[X]) -> Vec<f64> { v.iter().map(|x| x.rat().to_f64()).collect() }

/// all of {lo..=hi}^n
fn grid(n: usize, lo: i64, hi: i64) -> Vec<Vec<i64>> {
    let vals: Vec<i64> = (lo..=hi).collect();
    let mut out = Vec::new();
    tuples(&vals, n, |t| out.push(t.to_vec()));
    out
}
/// the constant vector `base` with at most two lanes replaced by a value of `vals`
fn deviations(n: usize, base: i64, vals: &[i64]) -> Vec<Vec<i64>> {
    let mut out = vec![vec![base; n]];
    for i in 0..n { for &a in vals { if a == base { continue; } let mut v = vec![base; n]; v[i] = a; out.push(v); } }
    for i in 0..n { for j in i + 1..n { for &a in vals { for &b in vals { if a == base || b == base { continue; } let mut v = vec![base; n]; v[i] = a; v[j] = b; out.push(v); } } } }
    out
}
/// the small-integer vector alphabet of a type: the full cube for N <= 4, <=2-deviation vectors (bases 0 and 1) above
fn small_vectors(n: usize, lo: i64, hi: i64) -> Vec<Vec<i64>> {
    if n <= 4 { return grid(n, lo, hi); }
    let vals: Vec<i64> = (lo..=hi).collect();
    let mut out = deviations(n, 0, &vals);
    out.extend(deviations(n, 1, &vals));
    out
}
/// a handful of fixed companions for the wide types
fn companions(n: usize) -> Vec<Vec<i64>> {
    let mut out = Vec::new();
    let mut e0 = vec![0; n]; e0[0] = 1; out.push(e0);
    let mut el = vec![0; n]; el[n - 1] = -1; out.push(el);
    out.push(vec![1; n]);
    out.push((0..n).map(|i| if i % 2 == 0 { 1 } else { -1 }).collect());
    out.push((0..n).map(|i| (i % 3) as i64 - 1).collect());
    out.push((0..n).map(|i| if i == n / 2 { 2 } else { 0 }).collect());
    out
}

/// Every point of L(n,D) exactly once, parallel over (first non-zero coordinate, its value): balanced also for
/// many variables and small order, where `vx::lattice::par_lattice` puts almost all points behind one prefix.
fn par_lattice_sparse(n: usize, d: u32, f: impl Fn(&[i64]) + Sync) {
    fn rec(buf: &mut Vec<i64>, start: usize, left: u32, f: &dyn Fn(&[i64])) {
        f(buf);
        if left == 0 { return; }
        for pos in start..buf.len() {
            for v in 1..=left { buf[pos] = v as i64; rec(buf, pos + 1, left - v, f); }
            buf[pos] = 0;
        }
    }
    let mut tasks: Vec<Option<(usize, u32)>> = vec![None];
    for pos in 0..n { for v in 1..=d { tasks.push(Some((pos, v))); } }
    tasks.par_iter().for_each(|t| {
        let mut buf = vec![0i64; n];
        match *t {
            None => f(&buf),
            Some((pos, v)) => { buf[pos] = v as i64; rec(&mut buf, pos + 1, d - v, &f); }
        }
    });
}

fn order_for(nvars: usize, lanes: usize, deg: u32, thorough: bool) -> u32 {
    let budget: u128 = if thorough { 1_200_000_000 } else { 24_000_000 };
    let cap = deg + if thorough { 5 } else { 3 };
    let mut d = deg;
    while d < cap && lattice_count(nvars, d + 1) * lanes as u128 <= budget { d += 1; }
    d
}

type Degs = Mutex<BTreeMap<String, u32>>;
fn measured(degs: &Degs, key: &str) -> Option<u32> { degs.lock().unwrap().get(key).copied() }
fn need_degree(s: &Section, degs: &Degs, key: &str, order: u32) {
    match measured(degs, key) {
        Some(m) if m <= order => {}
        Some(m) => s.degrade(&format!("{}: measured degree {} above lattice order {}", key, m, order)),
        None => s.degrade(&format!("{}: no branch-free degree measurement (premise failed)", key)),
    }
}

// ---------------------------------------------------------------------------------------------
// 0. premise: branch-free ring arithmetic, measured total degree

fn record_deg(s: &Section, degs: &Degs, key: String, r: Result<Vec<Deg>, Caught>, expect: u32) {
    s.eval(true);
    match r {
        Ok(ds) => {
            let m = ds.iter().map(|d| d.n + d.d).max().unwrap_or(0);
            degs.lock().unwrap().insert(key.clone(), m);
            if m > expect { s.degrade(&format!("{}: measured degree {} above the expected {}", key, m, expect)); }
        }
        Err(e) => s.degrade(&format!("{}: {:?}", key, e)),
    }
}
fn premise<V: SpRing<Deg>>(s: &Section, degs: &Degs) {
    let n = V::N;
    let mk = || V::from_elems(vec![Deg::VAR; n]);
    record_deg(s, degs, format!("{}::dot", V::NAME), catch(|| vec![mk().dot_(mk())]), 2);
    record_deg(s, degs, format!("{}::magnitude_squared", V::NAME), catch(|| vec![mk().mag2_()]), 2);
    record_deg(s, degs, format!("{}::distance_squared", V::NAME), catch(|| vec![mk().dist2_(mk())]), 2);
    record_deg(s, degs, format!("{}::reflected", V::NAME), catch(|| mk().refl_(mk()).into_elems()), 3);
}

// ---------------------------------------------------------------------------------------------
// 1. dot / magnitude_squared / distance_squared / reflected on the simplex lattice

fn algebraic<V: SpRing<X>>(s: &Section, degs: &Degs, thorough: bool) {
    let n = V::N;
    let name = V::NAME;
    let d = order_for(2 * n, n, 3, thorough);
    for f in ["dot", "magnitude_squared", "distance_squared", "reflected"] { need_degree(s, degs, &format!("{}::{}", name, f), d); }
    let sites = [format!("{}::dot", name), format!("{}::magnitude_squared", name), format!("{}::distance_squared", name), format!("{}::reflected", name)];
    let visited = std::sync::atomic::AtomicU64::new(0);
    par_lattice_sparse(2 * n, d, |p| {
        visited.fetch_add(1, std::sync::atomic::Ordering::Relaxed);
        let (a, b) = (xi(&p[..n]), xi(&p[n..]));
        let (va, vb): (V, V) = (V::from_elems(a.clone()), V::from_elems(b.clone()));
        let w = wsum(p);
        let nz = p[..n].iter().any(|&v| v != 0) && p[n..].iter().any(|&v| v != 0);
        let inp = || json!({"a": jxs(&a), "b": jxs(&b)});
        let ab = rdot(&a, &b);
        if let Some(g) = s.call(&sites[0], inp, || va.dot_(vb)) {
            if g != ab { vio(s, &sites[0], "not-the-sum-of-products", json!({"input": inp(), "got": jx(g), "want": jx(ab)}), w); }
        }
        if let Some(g) = s.call(&sites[1], inp, || va.mag2_()) {
            let want = rdot(&a, &a);
            if g != want { vio(s, &sites[1], "not-v.v", json!({"v": jxs(&a), "got": jx(g), "want": jx(want)}), w); }
        }
        if let Some(g) = s.call(&sites[2], inp, || va.dist2_(vb)) {
            let diff: Vec<X> = (0..n).map(|i| a[i] - b[i]).collect();
            let want = rdot(&diff, &diff);
            if g != want { vio(s, &sites[2], "not-|a-b|^2", json!({"input": inp(), "got": jx(g), "want": jx(want)}), w); }
        }
        if let Some(g) = s.call(&sites[3], inp, || va.refl_(vb).into_elems()) {
            let want: Vec<X> = (0..n).map(|i| a[i] - qi(2) * ab * b[i]).collect();
            if g != want { vio(s, &sites[3], "not-v-2(v.n)n", json!({"v": jxs(&a), "n": jxs(&b), "got": jxs(&g), "want": jxs(&want)}), w); }
            if nz && !ab.is_zero() && w == d as u64 && s.wants_sample() { s.sample(json!({"type": name, "v": jxs(&a), "n": jxs(&b), "v.n": jx(ab), "reflected": jxs(&want)})); }
        }
        s.evals(4, if nz { 4 } else { 0 });
    });
    let seen = visited.load(std::sync::atomic::Ordering::Relaxed) as u128;
    if seen != lattice_count(2 * n, d) { s.rep.machinery_error(format!("{}: enumerated {} lattice points, L({},{}) has {}", name, seen, 2 * n, d, lattice_count(2 * n, d))); }
    s.meta(name, json!({"lanes": n, "variables": 2 * n, "lattice_order": d, "points": lattice_count(2 * n, d).to_string(),
        "measured_degree": {"dot": measured(degs, &sites[0]), "magnitude_squared": measured(degs, &sites[1]), "distance_squared": measured(degs, &sites[2]), "reflected": measured(degs, &sites[3])}}));
}

// ---------------------------------------------------------------------------------------------
// 2. cross product (Vec3)

fn cross_section(s: &Section, degs: &Degs, thorough: bool) {
    let d = if thorough { 8 } else { 6 };
    need_degree(s, degs, "Vec3::cross", 2);
    let site = "Vec3::cross";
    let arr = |v: Vec3<X>| [v.x, v.y, v.z];
    let v3 = |a: &[X; 3]| Vec3 { x: a[0], y: a[1], z: a[2] };
    par_lattice(10, d, |p| {
        let c = |i: usize| qi(p[i] as i128);
        let (a, a2, b, k) = ([c(0), c(1), c(2)], [c(3), c(4), c(5)], [c(6), c(7), c(8)], c(9));
        let w = wsum(p);
        let nz = a.iter().any(|x| !x.is_zero()) && b.iter().any(|x| !x.is_zero());
        let inp = || json!({"a": jxs(&a), "a2": jxs(&a2), "b": jxs(&b), "k": jx(k)});
        let cr = |x: &[X; 3], y: &[X; 3]| { let (vx_, vy_) = (v3(x), v3(y)); s.call(site, inp, || arr(vx_.cross(vy_))) };
        let add = |x: &[X; 3], y: &[X; 3]| [x[0] + y[0], x[1] + y[1], x[2] + y[2]];
        let scl = |x: &[X; 3], f: X| [x[0] * f, x[1] * f, x[2] * f];
        let bad = |class: &str, got: &[X; 3], want: &[X; 3]| vio(s, site, class, json!({"input": inp(), "got": jxs(got), "want": jxs(want)}), w);
        let mut n_ev = 0u64;
        if let Some(ab) = cr(&a, &b) {
            n_ev += 1;
            let want = cross3(&a, &b);
            if ab != want { bad("wrong-value", &ab, &want); }
            // anticommutative
            if let Some(ba) = cr(&b, &a) { n_ev += 1; let neg = scl(&ba, qi(-1)); if ab != neg { bad("not-anticommutative", &ab, &neg); } }
            // orthogonal to both operands
            n_ev += 2;
            let (oa, ob) = (rdot(&ab, &a), rdot(&ab, &b));
            if !oa.is_zero() || !ob.is_zero() { vio(s, site, "not-orthogonal-to-operands", json!({"input": inp(), "axb": jxs(&ab), "(axb).a": jx(oa), "(axb).b": jx(ob)}), w); }
            // Lagrange: |axb|^2 = |a|^2|b|^2 - (a.b)^2
            n_ev += 1;
            let (l, r) = (rdot(&ab, &ab), rdot(&a, &a) * rdot(&b, &b) - rdot(&a, &b) * rdot(&a, &b));
            if l != r { vio(s, site, "lagrange-identity-fails", json!({"input": inp(), "|axb|^2": jx(l), "|a|^2|b|^2-(a.b)^2": jx(r)}), w); }
            // bilinear: additive and homogeneous in each argument
            if let (Some(a2b), Some(sum_b)) = (cr(&a2, &b), cr(&add(&a, &a2), &b)) { n_ev += 1; let want = add(&ab, &a2b); if sum_b != want { bad("not-additive-in-first-argument", &sum_b, &want); } }
            if let (Some(ba2), Some(ba_), Some(b_sum)) = (cr(&b, &a2), cr(&b, &a), cr(&b, &add(&a, &a2))) { n_ev += 1; let want = add(&ba_, &ba2); if b_sum != want { bad("not-additive-in-second-argument", &b_sum, &want); } }
            if let (Some(ka_b), Some(a_kb)) = (cr(&scl(&a, k), &b), cr(&a, &scl(&b, k))) { n_ev += 2; let want = scl(&ab, k); if ka_b != want { bad("not-homogeneous-in-first-argument", &ka_b, &want); } if a_kb != want { bad("not-homogeneous-in-second-argument", &a_kb, &want); } }
            if nz && w == d as u64 && ab.iter().any(|x| !x.is_zero()) && s.wants_sample() { s.sample(json!({"a": jxs(&a), "b": jxs(&b), "axb": jxs(&ab), "|axb|^2": jx(l)})); }
        }
        s.evals(n_ev, if nz { n_ev } else { 0 });
    });
    s.meta("lattice", json!({"variables": 10, "order": d, "points": lattice_count(10, d).to_string(), "measured_degree_of_cross": measured(degs, "Vec3::cross"), "largest_identity_degree": 4}));
}

// ---------------------------------------------------------------------------------------------
// 3. Vec2: determine_side, signed_triangle_area (lattice), triangle_area (signed grid)

fn side_section(s: &Section, degs: &Degs, thorough: bool) {
    let d = if thorough { 9 } else { 6 };
    need_degree(s, degs, "Vec2::determine_side", d);
    need_degree(s, degs, "Vec2::signed_triangle_area", d);
    par_lattice(6, d, |p| {
        let c = |i: usize| qi(p[i] as i128);
        let (pc, pa, pb) = ([c(0), c(1)], [c(2), c(3)], [c(4), c(5)]);
        let v = |a: &[X; 2]| Vec2 { x: a[0], y: a[1] };
        let w = wsum(p);
        let cross2 = (pb[0] - pa[0]) * (pc[1] - pa[1]) - (pb[1] - pa[1]) * (pc[0] - pa[0]);
        let inp = || json!({"c": jxs(&pc), "a": jxs(&pa), "b": jxs(&pb)});
        if let Some(g) = s.call("Vec2::determine_side", inp, || v(&pc).determine_side(v(&pa), v(&pb))) {
            if g != cross2 { vio(s, "Vec2::determine_side", "not-the-2d-cross-product", json!({"input": inp(), "got": jx(g), "want (b-a)x(c-a)": jx(cross2)}), w); }
        }
        if let Some(g) = s.call("Vec2::signed_triangle_area", inp, || Vec2::signed_triangle_area(v(&pa), v(&pb), v(&pc))) {
            let want = cross2 / qi(2);
            if g != want { vio(s, "Vec2::signed_triangle_area", "not-half-the-2d-cross-product", json!({"input": inp(), "got": jx(g), "want": jx(want)}), w); }
        }
        s.evals(2, if cross2.is_zero() { 0 } else { 2 });
        if !cross2.is_zero() && w == d as u64 && s.wants_sample() { s.sample(json!({"input": inp(), "(b-a)x(c-a)": jx(cross2)})); }
    });
    s.meta("lattice", json!({"variables": 6, "order": d, "points": lattice_count(6, d).to_string(), "measured_degree": {"determine_side": measured(degs, "Vec2::determine_side"), "signed_triangle_area": measured(degs, "Vec2::signed_triangle_area")}}));
}

fn triangle_area_section(s: &Section, thorough: bool) {
    s.require_classes(&["counter-clockwise", "clockwise", "collinear"]);
    let pts = grid(2, if thorough { -3 } else { -2 }, if thorough { 3 } else { 2 });
    s.meta("alphabet", json!({"points_per_vertex": pts.len(), "triangles": pts.len().pow(3)}));
    pts.par_iter().for_each(|a| {
        let (mut ccw, mut cw, mut col) = (0u64, 0u64, 0u64);
        for b in &pts { for c in &pts {
            let cr = (b[0] - a[0]) * (c[1] - a[1]) - (b[1] - a[1]) * (c[0] - a[0]);
            if cr > 0 { ccw += 1 } else if cr < 0 { cw += 1 } else { col += 1 }
            let want = q(cr.abs() as i128, 2);
            let v = |p: &Vec<i64>| Vec2 { x: qi(p[0] as i128), y: qi(p[1] as i128) };
            let inp = || json!({"a": a, "b": b, "c": c});
            if let Some(g) = s.call("Vec2::triangle_area<X>", inp, || Vec2::triangle_area(v(a), v(b), v(c))) {
                if g != want { vio(s, "Vec2::triangle_area<X>", "not-|cross|/2", json!({"input": inp(), "got": jx(g), "want": jx(want)}), wsum(a) + wsum(b) + wsum(c)); }
            }
            let vf = |p: &Vec<i64>| Vec2 { x: p[0] as f64, y: p[1] as f64 };
            let gf = Vec2::triangle_area(vf(a), vf(b), vf(c));
            if gf != cr.abs() as f64 / 2.0 { vio(s, "Vec2::triangle_area<f64>", "not-|cross|/2", json!({"input": inp(), "got": gf, "want": cr.abs() as f64 / 2.0}), wsum(a) + wsum(b) + wsum(c)); }
            // second audit: the f32 member of the family
            let vs_ = |p: &Vec<i64>| Vec2 { x: p[0] as f32, y: p[1] as f32 };
            let gs = Vec2::triangle_area(vs_(a), vs_(b), vs_(c));
            if gs != cr.abs() as f32 / 2.0 { vio(s, "Vec2::triangle_area<f32>", "not-|cross|/2", json!({"input": inp(), "got": gs as f64, "want": cr.abs() as f64 / 2.0}), wsum(a) + wsum(b) + wsum(c)); }
            if cr < 0 && s.wants_sample() { s.sample(json!({"input": inp(), "signed cross": cr, "triangle_area": jx(want)})); }
        } }
        s.evals(2 * (ccw + cw + col), 2 * (ccw + cw));
        s.class_n("counter-clockwise", ccw); s.class_n("clockwise", cw); s.class_n("collinear", col);
    });
}

// ---------------------------------------------------------------------------------------------
// 4. Vec4 homogenized / homogenize, is_point / is_direction / is_homogeneous

fn homogenized_section(s: &Section, degs: &Degs, thorough: bool) {
    s.require_classes(&["w=0 (formal fractions only)", "w!=0"]);
    let d = if thorough { 10 } else { 7 };
    need_degree(s, degs, "Vec4::homogenized", d);
    par_lattice(4, d, |p| {
        let w = wsum(p);
        let inp = || json!({"v": p});
        // formal fractions: got_i = N_i/D_i with N_i * w == v_i * D_i, at every lattice point (w = 0 included)
        let vf = Vec4 { x: Fr::int(p[0] as i128), y: Fr::int(p[1] as i128), z: Fr::int(p[2] as i128), w: Fr::int(p[3] as i128) };
        for (site, got) in [("Vec4::homogenized<Fr>", s.call("Vec4::homogenized<Fr>", inp, || vf.homogenized())), ("Vec4::homogenize<Fr>", s.call("Vec4::homogenize<Fr>", inp, || { let mut m = vf; m.homogenize(); m }))] {
            s.eval(p[3] != 0);
            if let Some(g) = got {
                let ge = [g.x, g.y, g.z, g.w];
                for i in 0..4 { if !ge[i].eq_ratio(p[i] as i128, p[3] as i128) {
                    vio(s, site, "not-v/w", json!({"v": p, "lane": i, "got": format!("{}/{}", ge[i].n, ge[i].d), "want": format!("{}/{}", p[i], p[3])}), w); } }
            }
        }
        if p[3] == 0 { s.class("w=0 (formal fractions only)"); return; }
        s.class("w!=0");
        let a = xi(p);
        let vx_ = Vec4 { x: a[0], y: a[1], z: a[2], w: a[3] };
        let want = [a[0] / a[3], a[1] / a[3], a[2] / a[3], qi(1)];
        for (site, got) in [("Vec4::homogenized<X>", s.call("Vec4::homogenized<X>", inp, || vx_.homogenized())), ("Vec4::homogenize<X>", s.call("Vec4::homogenize<X>", inp, || { let mut m = vx_; m.homogenize(); m }))] {
            s.eval(true);
            if let Some(g) = got {
                let ge = [g.x, g.y, g.z, g.w];
                if ge[3] != qi(1) { vio(s, site, "w-not-1", json!({"v": p, "got": jxs(&ge)}), w); }
                else if ge != want { vio(s, site, "not-v/w", json!({"v": p, "got": jxs(&ge), "want": jxs(&want)}), w); }
                if !g.is_point() || !g.is_homogeneous() { vio(s, "Vec4::is_point<X>", "homogenized-vector-is-not-a-point", json!({"v": p, "homogenized": jxs(&ge)}), w); }
            }
        }
        // f64: w lane exactly 1, other lanes the correctly rounded quotient within the bound
        let vd = Vec4 { x: p[0] as f64, y: p[1] as f64, z: p[2] as f64, w: p[3] as f64 };
        let (g1, mut g2) = (vd.homogenized(), vd); g2.homogenize();
        for (site, g) in [("Vec4::homogenized<f64>", g1), ("Vec4::homogenize<f64>", g2)] {
            s.eval(true);
            let ge = [g.x, g.y, g.z, g.w];
            if ge[3] != 1.0 { vio(s, site, "w-not-1", json!({"v": p, "got": ge}), w); }
            for i in 0..3 { if !near::<f64>(ge[i], p[i] as f64 / p[3] as f64, (p[i] as f64 / p[3] as f64).abs()) { vio(s, site, "not-v/w", json!({"v": p, "lane": i, "got": ge}), w); } }
        }
        if w == d as u64 && p[3] > 1 && p[0] > 0 && s.wants_sample() { s.sample(json!({"v": p, "homogenized": jxs(&want)})); }
    });
    // machine element types: "makes w = 1" means exactly 1 (w/w), for every w - a reciprocal-multiply rewrite gives w*(1/w), which is
    // one ulp off for many w (49, 98, ... in f64; 41, 47, ... in f32), overflows for subnormal w and is 0 for integer |w| > 1
    s.require_classes(&["float w sweep", "integer elements"]);
    macro_rules! hsweep { ($F:ty, $name:literal) => {{
        let tiny = <$F>::MIN_POSITIVE * <$F>::EPSILON;   // smallest subnormal
        let mut ws: Vec<$F> = (1..=200).flat_map(|k| [k as $F, -(k as $F), k as $F / 7.0, (k as $F) * 1e-3]).collect();
        ws.extend([tiny, tiny * 3.0, -tiny * 5.0, <$F>::MIN_POSITIVE, <$F>::MAX / 16.0]);
        for &w in &ws { for (a, b, c) in [(2.0 as $F, -4.0 as $F, 8.0 as $F), (0.5, 3.0, -1.25)] {
            let v = Vec4 { x: a * w, y: b * w, z: c * w, w };
            let (g1, mut g2) = (v.homogenized(), v); g2.homogenize();
            s.eval(true); s.class("float w sweep");
            // second audit: a second call divides by w = 1 and must leave every lane as it is
            { let mut g3 = g2; g3.homogenize(); if g2.w == 1.0 && g3 != g2 { vio(s, concat!("Vec4::homogenize<", $name, ">"), "second-call-changes-a-homogenized-vector", json!({"v": [v.x as f64, v.y as f64, v.z as f64, v.w as f64], "after_first": [g2.x as f64, g2.y as f64, g2.z as f64, g2.w as f64], "after_second": [g3.x as f64, g3.y as f64, g3.z as f64, g3.w as f64]}), 1); } }
            for (site, g) in [(concat!("Vec4::homogenized<", $name, ">"), g1), (concat!("Vec4::homogenize<", $name, ">"), g2)] {
                if g.w != 1.0 { vio(s, site, "w-not-1", json!({"v": [v.x as f64, v.y as f64, v.z as f64, v.w as f64], "got_w": g.w as f64}), 1); }
                for (gi, vi) in [(g.x, v.x), (g.y, v.y), (g.z, v.z)] { let q = (vi / w) as f64; if !((gi as f64 - q).abs() <= 2.0 * <$F>::EPSILON as f64 * q.abs()) { vio(s, site, "not-v/w", json!({"v": [v.x as f64, v.y as f64, v.z as f64, v.w as f64], "got": gi as f64, "want": q}), 1); } }
            }
        } }
    }} }
    hsweep!(f64, "f64"); hsweep!(f32, "f32");
    macro_rules! hint { ($T:ty, $name:literal) => {{
        for w in (1..=12).flat_map(|k| [k as $T, -(k as $T)]) { for (a, b, c) in [(2 as $T, -3 as $T, 4 as $T), (0, 7, -1)] {
            let v = Vec4 { x: a * w, y: b * w, z: c * w, w };
            let (g1, mut g2) = (v.homogenized(), v); g2.homogenize();
            s.eval(w != 1); s.class("integer elements");
            for (site, g) in [(concat!("Vec4::homogenized<", $name, ">"), g1), (concat!("Vec4::homogenize<", $name, ">"), g2)] {
                if (g.x, g.y, g.z, g.w) != (a, b, c, 1) { vio(s, site, "not-v/w", json!({"v": [v.x as i64, v.y as i64, v.z as i64, v.w as i64], "got": [g.x as i64, g.y as i64, g.z as i64, g.w as i64], "want": [a as i64, b as i64, c as i64, 1]}), 1); }
            }
        } }
    }} }
    hint!(i32, "i32"); hint!(i64, "i64");
    s.meta("lattice", json!({"variables": 4, "order": d, "points": lattice_count(4, d).to_string(), "measured_degree (numerator+denominator)": measured(degs, "Vec4::homogenized"), "identity": "got_i * w == v_i (cross-multiplied, degree 2), evaluated without forming a quotient so that w = 0 points count"}));
}

fn is_hom_section(s: &Section) {
    s.require_classes(&["w=1", "w=0", "w-far-from-0-and-1"]);
    let ws: [(i128, i128); 9] = [(1, 1), (0, 1), (2, 1), (-1, 1), (1, 2), (3, 2), (-1, 2), (5, 1), (1, 8)];
    let others: [(i128, i128); 4] = [(0, 1), (1, 1), (-7, 2), (5, 1)];
    for &(wn, wd) in &ws { for &(on, od) in &others {
        let (is_p, is_d) = (wn == wd, wn == 0);
        s.class(if is_p { "w=1" } else if is_d { "w=0" } else { "w-far-from-0-and-1" });
        let wv = wn as f64 / wd as f64; let ov = on as f64 / od as f64;
        let inp = || json!({"xyz": format!("{}/{}", on, od), "w": format!("{}/{}", wn, wd)});
        let chk = |tier: &str, got: [bool; 3]| {
            s.eval(true);
            let want = [is_p, is_d, is_p || is_d];
            for (i, f) in ["is_point", "is_direction", "is_homogeneous"].iter().enumerate() {
                if got[i] != want[i] { vio0(s, &format!("Vec4::{}<{}>", f, tier), "wrong-verdict", json!({"input": inp(), "got": got[i], "want": want[i]})); }
            }
        };
        let vx_ = Vec4 { x: q(on, od), y: q(on, od), z: q(on, od), w: q(wn, wd) };
        if let Some(g) = s.call("Vec4::is_point<X>", inp, || [vx_.is_point(), vx_.is_direction(), vx_.is_homogeneous()]) { chk("X", g); }
        let vd = Vec4 { x: ov, y: ov, z: ov, w: wv };
        chk("f64", [vd.is_point(), vd.is_direction(), vd.is_homogeneous()]);
        let vs = Vec4 { x: ov as f32, y: ov as f32, z: ov as f32, w: wv as f32 };
        chk("f32", [vs.is_point(), vs.is_direction(), vs.is_homogeneous()]);
        if s.wants_sample() && !is_p && !is_d { s.sample(json!({"input": inp(), "is_point": false, "is_direction": false, "is_homogeneous": false})); }
    } }
}

// ---------------------------------------------------------------------------------------------
// 5. magnitude / distance / normalized family, exact, on vectors with a rational norm

fn gcd_us(a: usize, b: usize) -> usize { if b == 0 { a } else { gcd_us(b, a % b) } }
/// vectors with a rational Euclidean norm: integer patterns with an integer norm, placed on lanes o, o+st, o+2st, ...
/// (mod N), with three sign patterns and four rational scales; returns (vector, norm)
fn rat_norm_vectors(n: usize) -> Vec<(Vec<X>, Q)> {
    let mut pats: Vec<(Vec<i128>, i128)> = vec![(vec![1], 1), (vec![3, 4], 5), (vec![5, 12], 13), (vec![1, 2, 2], 3), (vec![2, 3, 6], 7), (vec![8, 9, 12], 17),
        (vec![1, 1, 1, 1], 2), (vec![1, 2, 2, 4], 5), (vec![2, 4, 5, 6], 9)];
    for r in 3..=8usize { pats.push((vec![1; r * r], r as i128)); }
    let mut strides = vec![1usize];
    for st in [n - 1, 3] { if st >= 1 && st < n && gcd_us(st, n) == 1 && !strides.contains(&st) { strides.push(st); } }
    let scales = [(1i128, 1i128), (1, 2), (3, 1), (2, 7)];
    let mut seen: HashSet<Vec<X>> = HashSet::new();
    let mut out = Vec::new();
    for (pat, norm) in &pats {
        debug_assert_eq!(pat.iter().map(|v| v * v).sum::<i128>(), norm * norm);
        if pat.len() > n { continue; }
        for o in 0..n { for &st in &strides { for sg in 0..3 { for &(sn, sd) in &scales {
            let mut v = vec![qi(0); n];
            for (j, &c) in pat.iter().enumerate() {
                let sign = match sg { 0 => 1, 1 => -1, _ => if j % 2 == 0 { 1 } else { -1 } };
                v[(o + j * st) % n] = q(c * sign * sn, sd);
            }
            if seen.insert(v.clone()) { out.push((v, Q::new(norm * sn, sd))); }
        } } } }
    }
    out
}

fn exact_norms<V: Sp<X>>(s: &Section) {
    let n = V::N;
    let name = V::NAME;
    let vs = rat_norm_vectors(n);
    let bases: Vec<Vec<X>> = vec![vec![qi(0); n], vec![q(1, 3); n], (0..n).map(|i| qi((i % 3) as i128 - 1)).collect()];
    let eps16 = Q::new(16, 1i128 << 52);
    vs.par_iter().for_each(|(v, rq)| {
        let r = X::R(*rq);
        let vv: V = V::from_elems(v.clone());
        let unit: Vec<X> = v.iter().map(|&c| c / r).collect();
        let w = xw(v);
        let nt = v.iter().filter(|x| !x.is_zero()).count() >= 2;
        let inp = || json!({"v": jxs(v), "|v|": jx(r)});
        let site = |f: &str| format!("{}::{}<X>", name, f);
        let n_ev = std::cell::Cell::new(0u64);
        let scalar = |f: &str, class: &str, got: Option<X>, want: X| { n_ev.set(n_ev.get() + 1); if let Some(g) = got { if g != want { vio(s, &site(f), class, json!({"input": inp(), "got": jx(g), "want": jx(want)}), w); } } };
        let m = s.call(&site("magnitude"), inp, || vv.mag_());
        let m2 = s.call(&site("magnitude_squared"), inp, || vv.mag2_());
        scalar("magnitude", "not-the-euclidean-length", m, r);
        if let (Some(m), Some(m2)) = (m, m2) { scalar("magnitude", "magnitude^2-differs-from-magnitude_squared", Some(m * m), m2); }
        for b in &bases {
            let pa: Vec<X> = (0..n).map(|i| b[i] + v[i]).collect();
            let (va, vb): (V, V) = (V::from_elems(pa), V::from_elems(b.clone()));
            let d1 = s.call(&site("distance"), inp, || va.dist_(vb));
            let d2 = s.call(&site("distance"), inp, || vb.dist_(va));
            let dd = s.call(&site("distance_squared"), inp, || va.dist2_(vb));
            scalar("distance", "not-|a-b|", d1, r);
            scalar("distance", "not-|a-b|", d2, r);
            scalar("distance_squared", "not-|a-b|^2", dd, r * r);
            if let (Some(d1), Some(dd)) = (d1, dd) { scalar("distance", "distance^2-differs-from-distance_squared", Some(d1 * d1), dd); }
        }
        let vector = |f: &str, got: Option<Vec<X>>| {
            n_ev.set(n_ev.get() + 1);
            if let Some(g) = got {
                if g != unit {
                    let class = if rdot(&g, &g) != qi(1) { "not-unit-length" } else { "not-parallel" };
                    vio(s, &site(f), class, json!({"input": inp(), "got": jxs(&g), "want v/|v|": jxs(&unit)}), w);
                }
            }
        };
        vector("normalized", s.call(&site("normalized"), inp, || vv.normalized_().into_elems()));
        vector("normalize", s.call(&site("normalize"), inp, || { let mut m = vv; m.normalize_(); m.into_elems() }));
        let ng = s.call(&site("normalized_and_get_magnitude"), inp, || { let (u, m) = vv.normalized_get_(); (u.into_elems(), m) });
        let ig = s.call(&site("normalize_and_get_magnitude"), inp, || { let mut m = vv; let l = m.normalize_get_(); (m.into_elems(), l) });
        if let Some((u, m)) = ng { vector("normalized_and_get_magnitude", Some(u)); scalar("normalized_and_get_magnitude", "returned-magnitude-wrong", Some(m), r); }
        if let Some((u, m)) = ig { vector("normalize_and_get_magnitude", Some(u)); scalar("normalize_and_get_magnitude", "returned-magnitude-wrong", Some(m), r); }
        // predicates behind try_normalized: only their clear cases (exact match / off by a factor >= 2)
        let vu: V = V::from_elems(unit.clone());
        let pred = |f: &str, got: Option<bool>, want: bool| { n_ev.set(n_ev.get() + 1); if let Some(g) = got { if g != want { vio(s, &site(f), "wrong-verdict", json!({"input": inp(), "got": g, "want": want}), w); } } };
        pred("is_normalized", s.call(&site("is_normalized"), inp, || vu.is_normalized_()), true);
        if *rq >= Q::int(2) || *rq <= Q::new(1, 2) { pred("is_normalized", s.call(&site("is_normalized"), inp, || vv.is_normalized_()), false); }
        if rq.mul(*rq) > eps16 { pred("is_approx_zero", s.call(&site("is_approx_zero"), inp, || vv.is_approx_zero_()), false); }
        pred("is_magnitude_close_to", s.call(&site("is_magnitude_close_to"), inp, || vv.is_mag_close_(r)), true);
        pred("is_magnitude_close_to", s.call(&site("is_magnitude_close_to"), inp, || vv.is_mag_close_(r + r)), false);
        s.evals(n_ev.get(), if nt { n_ev.get() } else { 0 });
        if nt && v.iter().filter(|x| !x.is_zero()).count() == 3 && *rq != Q::int(3) && s.wants_sample() { s.sample(json!({"type": name, "v": jxs(v), "|v|": jx(r), "normalized": jxs(&unit)})); }
    });
    let zero: V = V::from_elems(vec![qi(0); n]);
    s.eval(false);
    if let Some(g) = s.call(&format!("{}::is_approx_zero<X>", name), || json!("zero vector"), || (zero.is_approx_zero_(), zero.mag_())) {
        if !g.0 || !g.1.is_zero() { vio0(s, &format!("{}::is_approx_zero<X>", name), "zero-vector-not-zero", json!({"got": jd(&g)})); }
    }
    s.meta(name, json!({"vectors": vs.len(), "lanes": n}));
}

// ---------------------------------------------------------------------------------------------
// 6. magnitude / distance / normalized family on floats

fn float_norms<F: Fl, V: Sp<F>>(s: &Section, thorough: bool) {
    let n = V::N;
    let name = V::NAME;
    let r = if thorough && n <= 4 { 3 } else { 2 };
    let vs = small_vectors(n, -r, r);
    let scales: [f64; 5] = [1.0, 0.5, 3.0, 1e10, 1e-10];
    let comp = companions(n);
    let site = |f: &str| format!("{}::{}<{}>", name, f, F::NAME);
    // forward error of sum-of-squares then sqrt: (N/2 + 2) eps relative, covered by 256 eps for N <= 64
    vs.par_iter().for_each(|v| {
        let ss: i64 = v.iter().map(|x| x * x).sum();
        let nz = ss != 0;
        let w = wsum(v);
        let mut n_ev = 0u64;
        for &sc in &scales {
            let vv: V = ivec::<F, V>(v, sc);
            let want_m = sc * (ss as f64).sqrt();
            let inp = || json!({"v": v, "scale": sc});
            let Some((m, m2)) = s.call(&site("magnitude"), inp, || (vv.mag_().f(), vv.mag2_().f())) else { continue };
            n_ev += 2;
            if !near::<F>(m, want_m, want_m) { vio(s, &site("magnitude"), "not-the-euclidean-length", json!({"input": inp(), "got": m, "want": want_m}), w); }
            if !near::<F>(m2, want_m * want_m, want_m * want_m) { vio(s, &site("magnitude_squared"), "not-v.v", json!({"input": inp(), "got": m2, "want": want_m * want_m}), w); }
            if !near::<F>(m * m, m2, m2) { vio(s, &site("magnitude"), "magnitude^2-differs-from-magnitude_squared", json!({"input": inp(), "magnitude": m, "magnitude_squared": m2}), w); }
            if !nz { s.class("zero-vector: normalisation not asserted"); continue; }
            let unit: Vec<f64> = v.iter().map(|&x| x as f64 / (ss as f64).sqrt()).collect();
            let forms: [(&str, Option<(Vec<f64>, Option<f64>)>); 4] = [
                ("normalized", s.call(&site("normalized"), inp, || (felems::<F, V>(vv.normalized_()), None))),
                ("normalize", s.call(&site("normalize"), inp, || { let mut t = vv; t.normalize_(); (felems::<F, V>(t), None) })),
                ("normalized_and_get_magnitude", s.call(&site("normalized_and_get_magnitude"), inp, || { let (u, l) = vv.normalized_get_(); (felems::<F, V>(u), Some(l.f())) })),
                ("normalize_and_get_magnitude", s.call(&site("normalize_and_get_magnitude"), inp, || { let mut t = vv; let l = t.normalize_get_(); (felems::<F, V>(t), Some(l.f())) })),
            ];
            let first: Option<Vec<f64>> = forms[0].1.as_ref().map(|(u, _)| u.clone());
            for (f, got) in forms {
                n_ev += 1;
                let Some((u, l)) = got else { continue };
                // second audit: "the also-returns-magnitude and in-place forms consistent" - the same quotient, the same length, bit for bit
                if let Some(u0) = &first { if &u != u0 { vio(s, &site(f), "differs-from-normalized()", json!({"input": inp(), "got": u, "normalized()": u0}), w); } }
                if let Some(l) = l { if l != m { vio(s, &site(f), "returned-magnitude-differs-from-magnitude()", json!({"input": inp(), "got": l, "magnitude()": m}), w); } }
                if (0..n).any(|i| !near::<F>(u[i], unit[i], 1.0)) {
                    let len = fdot(&u, &u).sqrt();
                    vio(s, &site(f), if near::<F>(len, 1.0, 1.0) { "not-parallel" } else { "not-unit-length" }, json!({"input": inp(), "got": u, "want v/|v|": unit, "|got|": len}), w);
                }
                if let Some(l) = l { if !near::<F>(l, want_m, want_m) { vio(s, &site(f), "returned-magnitude-wrong", json!({"input": inp(), "got": l, "want": want_m}), w); } }
            }
            if sc == 3.0 && w >= 3 && s.wants_sample() { s.sample(json!({"type": name, "tier": F::NAME, "input": inp(), "|v|": want_m, "normalized": unit})); }
        }
        // distance to the companions (scales 1 and 1/2: every difference is exact)
        for c in &comp { for sc in [1.0, 0.5] {
            let dd: i64 = (0..n).map(|i| (v[i] - c[i]) * (v[i] - c[i])).sum();
            let (va, vb): (V, V) = (ivec::<F, V>(v, sc), ivec::<F, V>(c, sc));
            let inp = || json!({"a": v, "b": c, "scale": sc});
            let want = sc * (dd as f64).sqrt();
            let Some((d1, d2, dsq)) = s.call(&site("distance"), inp, || (va.dist_(vb).f(), vb.dist_(va).f(), va.dist2_(vb).f())) else { continue };
            n_ev += 3;
            if !near::<F>(d1, want, want) || !near::<F>(d2, want, want) { vio(s, &site("distance"), "not-|a-b|", json!({"input": inp(), "got": [d1, d2], "want": want}), w + wsum(c)); }
            if !near::<F>(dsq, want * want, want * want) { vio(s, &site("distance_squared"), "not-|a-b|^2", json!({"input": inp(), "got": dsq, "want": want * want}), w + wsum(c)); }
            if !near::<F>(d1 * d1, dsq, dsq) { vio(s, &site("distance"), "distance^2-differs-from-distance_squared", json!({"input": inp(), "distance": d1, "distance_squared": dsq}), w + wsum(c)); }
        } }
        s.evals(n_ev, if nz { n_ev } else { 0 });
    });
    s.meta(&format!("{}<{}>", name, F::NAME), json!({"vectors": vs.len(), "scales": scales, "distance_companions": comp.len()}));
}

// ---------------------------------------------------------------------------------------------
// 7. try_normalized

/// rational unit vectors of a type: v/|v| for the rational-norm vectors, deduplicated, thinned to <= 300
fn rational_units(n: usize) -> Vec<Vec<X>> {
    let mut seen: HashSet<Vec<X>> = HashSet::new();
    let mut out = Vec::new();
    for (v, r) in rat_norm_vectors(n) { let u: Vec<X> = v.iter().map(|&c| c / X::R(r)).collect(); if seen.insert(u.clone()) { out.push(u); } }
    if out.len() > 300 { let k = out.len() / 300 + 1; out = out.into_iter().step_by(k).collect(); }
    out
}

fn try_norm_exact<V: Sp<X>>(s: &Section, us: &[Vec<X>]) {
    let name = V::NAME;
    let site = format!("{}::try_normalized<X>", name);
    let p2 = |e: u32| q(1, 1i128 << e);
    // eps(X) = 2^-52; "near zero" band of the property: |v|^2 <= 16 eps = 2^-48
    // second audit: 33/32 * 2^-24 and 3 * 2^-25 sit just above the band (|v|^2 = 1.06 and 2.25 times 16 eps)
    let scales: [(X, &str); 10] = [(qi(0), "zero"), (p2(40), "tiny"), (p2(25), "tiny"), (p2(24), "tiny"), (q(33, 1i128 << 29), "clearly-non-zero"), (q(3, 1i128 << 25), "clearly-non-zero"), (p2(23), "clearly-non-zero"), (p2(10), "clearly-non-zero"), (qi(1), "clearly-non-zero"), (qi(10_000_000_000), "clearly-non-zero")];
    for u in us { for &(sc, kind) in &scales {
        let v: Vec<X> = u.iter().map(|&c| c * sc).collect();
        let vv: V = V::from_elems(v.clone());
        let inp = || json!({"unit": jxs(u), "scale": jx(sc)});
        s.eval(kind != "zero");
        let Some(got) = s.call(&site, inp, || vv.try_normalized_().map(|r| r.into_elems())) else { continue };
        let w = xw(u) + xw(&[sc]);
        match (kind, got) {
            ("zero", None) => s.class("zero->None"),
            ("zero", Some(g)) => vio(s, &site, "zero-vector-not-refused", json!({"input": inp(), "got": jxs(&g)}), w),
            ("clearly-non-zero", None) => vio(s, &site, "refused-a-vector-that-is-not-near-zero", json!({"input": inp(), "|v|^2": jx(sc * sc), "16 eps": "2^-48"}), w),
            (_, None) => s.class("tiny->None (allowed)"),
            (k, Some(g)) => {
                s.class(if k == "tiny" { "tiny->Some (allowed, checked)" } else { "clearly-non-zero->Some" });
                if &g != u { vio(s, &site, if rdot(&g, &g) != qi(1) { "some-but-not-unit-length" } else { "some-but-not-parallel" }, json!({"input": inp(), "got": jxs(&g), "want": jxs(u)}), w); }
            }
        }
        if kind == "clearly-non-zero" && sc != qi(1) && s.wants_sample() { s.sample(json!({"type": name, "input": inp(), "try_normalized": jxs(u)})); }
    } }
    s.meta(&format!("{}<X>", name), json!({"unit_vectors": us.len(), "scales": scales.len()}));
}

fn try_norm_float<F: Fl, V: Sp<F>>(s: &Section, us: &[Vec<X>]) {
    let name = V::NAME;
    let site = format!("{}::try_normalized<{}>", name, F::NAME);
    let band = 16.0 * F::EPS;
    // second audit: |v|^2 = 1.06, 2, 8 and 64 times the band edge (just above the threshold), and 0.9 times (just below, either answer allowed)
    let mut scales: Vec<f64> = vec![0.0, 1e-30, 1e-20, 1e-12, 5e-8, 1e-6, 1e-3, 1e-2, 1.0, 1e10];
    scales.extend([(0.9 * band).sqrt(), (1.06 * band).sqrt(), (2.0 * band).sqrt(), (8.0 * band).sqrt(), (64.0 * band).sqrt()]);
    for u in us { for &sc in &scales {
        let uf = qf(u);
        let vv: V = V::from_elems(uf.iter().map(|&c| F::of(c * sc)).collect());
        let inp = || json!({"unit": jxs(u), "scale": sc});
        // |v|^2 = sc^2 up to a few eps; every scale of the alphabet is at least 1% away from the band edge
        let kind = if sc == 0.0 { "zero" } else if sc * sc > 1.01 * band { "clearly-non-zero" } else if sc * sc < band / 1.01 { "tiny" } else { unreachable!("scale too close to the band edge") };
        s.eval(kind != "zero");
        let Some(got) = s.call(&site, inp, || vv.try_normalized_().map(|r| felems::<F, V>(r))) else { continue };
        let w = xw(u) + (sc != 0.0) as u64 + (sc != 1.0) as u64;
        match (kind, got) {
            ("zero", None) => s.class("zero->None"),
            ("zero", Some(g)) => vio(s, &site, "zero-vector-not-refused", json!({"input": inp(), "got": g}), w),
            ("clearly-non-zero", None) => vio(s, &site, "refused-a-vector-that-is-not-near-zero", json!({"input": inp(), "|v|^2": sc * sc, "16 eps": band}), w),
            (_, None) => s.class("tiny->None (allowed)"),
            (k, Some(g)) => {
                s.class(if k == "tiny" { "tiny->Some (allowed, checked)" } else { "clearly-non-zero->Some" });
                if (0..uf.len()).any(|i| !near::<F>(g[i], uf[i], 1.0)) {
                    let len = fdot(&g, &g).sqrt();
                    vio(s, &site, if near::<F>(len, 1.0, 1.0) { "some-but-not-parallel" } else { "some-but-not-unit-length" }, json!({"input": inp(), "got": g, "want": uf}), w);
                }
            }
        }
    } }
    s.meta(&format!("{}<{}>", name, F::NAME), json!({"unit_vectors": us.len(), "scales": scales, "near_zero_band (16 eps)": band}));
}


// ---------------------------------------------------------------------------------------------
// 8. refracted

/// rational unit vectors for incident / normal: circle points on three lane pairs, sphere axes, the diagonal
fn unit_alphabet(n: usize, thorough: bool) -> Vec<Vec<X>> {
    let mut out: Vec<Vec<X>> = Vec::new();
    let mut push = |v: Vec<X>| if !out.contains(&v) { out.push(v) };
    let pairs: Vec<(usize, usize)> = if n == 2 { vec![(0, 1)] } else { vec![(0, 1), (n - 1, 0), (n / 2, n / 2 + 1)] };
    for &(a, b) in &pairs { for &(c, sn) in &circle_points() { let mut v = vec![qi(0); n]; v[a] = c; v[b] = sn; push(v); } }
    if n >= 3 {
        let ax = unit_axes();
        let step = if n == 3 { if thorough { 1 } else { 2 } } else { 7 };
        for o in if n == 3 { vec![0] } else { vec![0, n - 3] } { for a in ax.iter().step_by(step) { let mut v = vec![qi(0); n]; v[o] = a[0]; v[o + 1] = a[1]; v[o + 2] = a[2]; push(v); } }
    }
    for r in [2usize, 4, 8] { if r * r == n { push(vec![q(1, r as i128); n]); push((0..n).map(|i| q(if i % 2 == 0 { 1 } else { -1 }, r as i128)).collect()); } }
    out
}
const ETAS: [(i128, i128); 9] = [(1, 2), (3, 5), (3, 4), (1, 1), (5, 4), (4, 3), (3, 2), (5, 3), (2, 1)];

fn refracted_float<F: Fl, V: Sp<F>>(s: &Section, i: &[X], nn: &[X], eta: Q, d: Q, k: Q, w: u64) {
    let site = format!("{}::refracted<{}>", V::NAME, F::NAME);
    let (fi, fnn, fe, fd, fk) = (qf(i), qf(nn), eta.to_f64(), d.to_f64(), k.to_f64());
    let inp = || json!({"incident": jxs(i), "normal": jxs(nn), "eta": format!("{:?}", eta), "n.i": format!("{:?}", d), "k": format!("{:?}", k)});
    if fk.abs() < 1.0 / 64.0 { s.class("float: |k| < 1/64 (ill-conditioned branch/sqrt, not asserted)"); return; }
    let (vi, vn): (V, V) = (fvec::<F, V>(&fi), fvec::<F, V>(&fnn));
    s.eval(true);
    let Some(g) = s.call(&site, inp, || felems::<F, V>(vi.refr_(vn, F::of(fe)))) else { return };
    if fk < 0.0 {
        if g.iter().any(|&x| x != 0.0) { vio(s, &site, "total-internal-reflection-not-zero-vector", json!({"input": inp(), "got": g}), w); }
        return;
    }
    // inputs carry eps/2 relative rounding: n.i to ~5 eps, k to ~16 eta^2 eps, sqrt(k) to that / (2 sqrt k)
    let scale = 1.0 + fe + fe * fe / fk.sqrt();
    let gn = fdot(&g, &fnn);
    let len2 = fdot(&g, &g);
    if !near::<F>(len2, 1.0, 2.0 * scale) { vio(s, &site, "not-unit-length", json!({"input": inp(), "got": g, "|got|^2": len2}), w); }
    else if (0..g.len()).any(|j| !near::<F>(g[j] - gn * fnn[j], fe * (fi[j] - fd * fnn[j]), scale)) { vio(s, &site, "snell-violated (tangential part is not eta * incident tangential part)", json!({"input": inp(), "got": g}), w); }
    else if fd < 0.0 && gn > vx::fl::K * F::EPS * scale { vio(s, &site, "transmitted-ray-on-the-incident-side", json!({"input": inp(), "got": g, "got.n": gn}), w); }
}

fn refracted_section<VX: Sp<X>, VD: Sp<f64>, VS: Sp<f32>>(s: &Section, thorough: bool) {
    let n = VX::N;
    let alph = unit_alphabet(n, thorough);
    let site = format!("{}::refracted<X>", VX::NAME);
    alph.par_iter().for_each(|i| {
        let mut cls: BTreeMap<&'static str, u64> = BTreeMap::new();
        for nn in &alph { for &(en, ed) in &ETAS {
            let eta = Q::new(en, ed);
            let d = rdot(nn, i).rat();
            let k = Q::ONE.sub(eta.mul(eta).mul(Q::ONE.sub(d.mul(d))));
            let kind = if k.n < 0 { "total internal reflection (k<0)" } else if k.n == 0 { "critical angle (k=0)" } else { "transmitted (k>0)" };
            *cls.entry(kind).or_insert(0) += 1;
            let w = xw(i) + xw(nn) + (en + ed - 2) as u64;
            let inp = || json!({"incident": jxs(i), "normal": jxs(nn), "eta": format!("{:?}", eta), "n.i": format!("{:?}", d), "k": format!("{:?}", k)});
            if k.n < 0 || k.sqrt_exact().is_some() {
                let (vi, vn): (VX, VX) = (VX::from_elems(i.clone()), VX::from_elems(nn.clone()));
                s.eval(i != nn);
                if let Some(g) = s.call(&site, inp, || vi.refr_(vn, X::R(eta)).into_elems()) {
                    if k.n < 0 {
                        if g.iter().any(|x| !x.is_zero()) { vio(s, &site, "total-internal-reflection-not-zero-vector", json!({"input": inp(), "got": jxs(&g)}), w); }
                    } else {
                        *cls.entry(if d.n < 0 { "exact: front-side incidence" } else if d.n == 0 { "exact: grazing incidence" } else { "exact: back-side incidence (side not asserted)" }).or_insert(0) += 1;
                        let gn = rdot(&g, nn);
                        if rdot(&g, &g) != qi(1) { vio(s, &site, "not-unit-length", json!({"input": inp(), "got": jxs(&g), "|got|^2": jx(rdot(&g, &g))}), w); }
                        else if (0..n).any(|j| g[j] - gn * nn[j] != X::R(eta) * (i[j] - X::R(d) * nn[j])) { vio(s, &site, "snell-violated (tangential part is not eta * incident tangential part)", json!({"input": inp(), "got": jxs(&g)}), w); }
                        else if d.n < 0 && gn > qi(0) { vio(s, &site, "transmitted-ray-on-the-incident-side", json!({"input": inp(), "got": jxs(&g), "got.n": jx(gn)}), w); }
                        if d.n < 0 && k.n > 0 && eta != Q::ONE && i != nn && s.wants_sample() { s.sample(json!({"type": VX::NAME, "input": inp(), "refracted": jxs(&g)})); }
                    }
                }
            } else { *cls.entry("k irrational: float tiers only").or_insert(0) += 1; }
            refracted_float::<f64, VD>(s, i, nn, eta, d, k, w);
            refracted_float::<f32, VS>(s, i, nn, eta, d, k, w);
        } }
        for (c, n) in cls { s.class_n(c, n); }
    });
    s.meta(VX::NAME, json!({"unit_vectors": alph.len(), "etas": ETAS.len(), "cases": alph.len() * alph.len() * ETAS.len()}));
}

// ---------------------------------------------------------------------------------------------
// 9. angle_between

fn angle_exact<V: Sp<X>>(s: &Section, thorough: bool) {
    let n = V::N;
    let site = format!("{}::angle_between<X>", V::NAME);
    let lanes: Vec<(usize, usize)> = if n == 2 { vec![(0, 1), (1, 0)] } else { vec![(0, 1), (n - 1, 0), (n / 2, n / 2 + 1)] };
    let radii = [qi(1), qi(2), q(1, 3)];
    let pi = std::f64::consts::PI;
    let check = |a: &[X], b: &[X], want: Option<X>, what: &str| {
        // want = None: the zero angle
        let (va, vb): (V, V) = (V::from_elems(a.to_vec()), V::from_elems(b.to_vec()));
        let inp = || json!({"a": jxs(a), "b": jxs(b), "angle": what});
        s.eval(want.is_some());
        let Some(g) = s.call(&site, inp, || va.angle_(vb)) else { return };
        let w = xw(a) + xw(b);
        let sh = g.shadow();
        if !(sh >= -1e-12 && sh <= pi + 1e-9) { vio(s, &site, "outside-[0,pi]", json!({"input": inp(), "got": jx(g)}), w); }
        let ok = match want { None => g.is_zero(), Some(t) => g == t };
        if !ok { vio(s, &site, "not-the-angle", json!({"input": inp(), "got": jx(g), "got_radians": sh, "want": want.map(jx), "want_radians": want.map(|t| t.shadow()).unwrap_or(0.0)}), w); }
        if want.is_some() && s.wants_sample() { s.sample(json!({"type": V::NAME, "input": inp(), "got": jx(g), "radians": sh})); }
    };
    // planar: a = r1 z^j, b = r2 z^k on a lane pair, angle |k-j| arg z
    for (tn, td) in [(1i128, 1i128), (1, 2), (1, 3), (1, 5)] {
        reset_angles();
        let b = angle_base_t(tn, td);
        let mut mmax = 0i128;
        while X::tok(b, mmax + 1).shadow() <= pi + 1e-9 { mmax += 1; }
        for m in 1..=mmax { register_inverse(X::tok(b, m)); }
        for &(la, lb) in &lanes { for j in -mmax..=mmax { for k in -mmax..=mmax {
            let m = (k - j).abs();
            if m > mmax { continue; }
            for (ri, &r1) in radii.iter().enumerate() { let r2 = radii[(ri + (j + mmax) as usize) % 3];
                let (cj, sj) = cpow(base_of(b), j); let (ck, sk) = cpow(base_of(b), k);
                let mut a = vec![qi(0); n]; a[la] = r1 * X::R(cj); a[lb] = r1 * X::R(sj);
                let mut bb = vec![qi(0); n]; bb[la] = r2 * X::R(ck); bb[lb] = r2 * X::R(sk);
                s.class(if m == 0 { "parallel (0)" } else if tn == 1 && td == 1 && m == 2 { "antiparallel (pi)" } else if tn == 1 && td == 1 { "perpendicular (pi/2)" } else { "general angle" });
                check(&a, &bb, if m == 0 { None } else { Some(X::tok(b, m)) }, &format!("{} * arg(z), z = point of the unit circle with rational parameter {}/{}", m, tn, td));
            }
        } } }
    }
    // spatial: pairs of rational unit axes whose angle has a rational sine
    if n >= 3 {
        let ax = unit_axes();
        let offs = if n == 3 { vec![0] } else { vec![0, n - 3] };
        let step = if n == 3 { 1 } else if thorough { 2 } else { 5 };
        for &o in &offs { for u in ax.iter().step_by(step) { for v in ax.iter().step_by(step) {
            let c = (u[0] * v[0] + u[1] * v[1] + u[2] * v[2]).rat();
            let Some(sn) = Q::ONE.sub(c.mul(c)).sqrt_exact() else { continue };
            reset_angles();
            let want = if c == Q::ONE { None } else { let b = angle_base(c, sn); register_inverse(X::tok(b, 1)); Some(X::tok(b, 1)) };
            let mut a = vec![qi(0); n]; let mut bb = vec![qi(0); n];
            for t in 0..3 { a[o + t] = u[t] * qi(2); bb[o + t] = v[t] * q(1, 3); }
            s.class("3-D axis pair with rational sine");
            check(&a, &bb, want, &format!("acos({:?})", c));
        } } }
    }
    reset_angles();
}

fn angle_float<F: Fl, V: Sp<F>>(s: &Section, thorough: bool) {
    let n = V::N;
    let site = format!("{}::angle_between<{}>", V::NAME, F::NAME);
    let r = if thorough && n <= 3 { 3 } else { 2 };
    let left: Vec<Vec<i64>> = if n <= 4 { grid(n, -r, r) } else { deviations(n, 0, &[-2, -1, 1, 2]) };
    let right: Vec<Vec<i64>> = if n <= 4 { left.clone() } else { let mut c = companions(n); c.extend(deviations(n, 0, &[-1, 2]).into_iter().step_by(n)); c };
    let pi = std::f64::consts::PI;
    left.par_iter().for_each(|a| {
        let na: i64 = a.iter().map(|x| x * x).sum();
        if na == 0 { return; }
        let (mut ev, mut par, mut anti, mut perp, mut gen, mut clamp) = (0u64, 0u64, 0u64, 0u64, 0u64, 0u64);
        let mut scaled = 0u64;
        // lengths far from 1 (exact power-of-two scalings of the same directions): the angle does not depend on them; a formula that
        // multiplies the two squared lengths overflows / underflows where normalising each operand does not
        let big: f64 = if F::EPS < 1e-10 { 2f64.powi(400) } else { 2f64.powi(40) };
        let scales: [(f64, f64); 4] = [(1.0, 1.0), (big, big), (1.0 / big, 1.0 / big), (big, 1.0 / big)];
        for (bi, b) in right.iter().enumerate() { for (si, &(sa, sb)) in scales.iter().enumerate() {
            if si > 0 && bi % 8 != 0 { continue; }
            let nb: i64 = b.iter().map(|x| x * x).sum();
            if nb == 0 { continue; }
            let dot: i64 = (0..n).map(|i| a[i] * b[i]).sum();
            let c = dot as f64 / ((na * nb) as f64).sqrt();
            let va: V = ivec::<F, V>(a, sa);
            let vb: V = ivec::<F, V>(b, sb);
            if si > 0 { scaled += 1; }
            let inp = || json!({"a": a, "b": b, "a_scaled_by": sa, "b_scaled_by": sb});
            ev += 1;
            if dot * dot == na * nb { if dot > 0 { par += 1 } else { anti += 1 } } else if dot == 0 { perp += 1 } else { gen += 1 }
            // vacuity guard for the clamp: does the rounded cosine of this pair leave [-1,1]?  (same operation order as a normalise-then-dot in the tier)
            { let (ma, mb) = (F::of((na as f64).sqrt()), F::of((nb as f64).sqrt()));
              let mut acc = 0.0f64; let mut first = true;
              for i in 0..n { let t = F::of(F::of(a[i] as f64 / ma.f()).f() * F::of(b[i] as f64 / mb.f()).f()).f(); acc = if first { t } else { F::of(acc + t).f() }; first = false; }
              if acc.abs() > 1.0 { clamp += 1; } }
            let Some(g) = s.call(&site, inp, || va.angle_(vb).f()) else { continue };
            let w = wsum(a) + wsum(b);
            if !(g >= 0.0 && g <= pi * (1.0 + 4.0 * F::EPS)) { vio(s, &site, "outside-[0,pi]", json!({"input": inp(), "got": g}), w); }
            else if !near::<F>(g.cos(), c, 1.0) { vio(s, &site, "cos(angle)|a||b| differs from a.b", json!({"input": inp(), "got": g, "cos(got)": g.cos(), "a.b/(|a||b|)": c}), w); }
            if gen > 0 && dot < 0 && s.wants_sample() { s.sample(json!({"type": V::NAME, "tier": F::NAME, "input": inp(), "got": g, "cos(got)": g.cos(), "a.b/(|a||b|)": c})); }
        } }
        s.class_n("lengths scaled by 2^+-40 (f32) / 2^+-400 (f64)", scaled);
        s.evals(ev, ev - par);
        s.class_n("parallel (0)", par); s.class_n("antiparallel (pi)", anti); s.class_n("perpendicular (pi/2)", perp); s.class_n("general angle", gen);
        s.class_n("rounded cosine outside [-1,1] (clamp needed)", clamp);
    });
    s.meta(&format!("{}<{}>", V::NAME, F::NAME), json!({"left_vectors": left.len(), "right_vectors": right.len()}));
}

// ---------------------------------------------------------------------------------------------
// 10. face_forward

trait Elt: Copy + PartialEq + Debug + Send + Sync + 'static { const NAME: &'static str; fn fi(v: i64) -> Self; }
impl Elt for X { const NAME: &'static str = "X"; fn fi(v: i64) -> X { qi(v as i128) } }
impl Elt for f64 { const NAME: &'static str = "f64"; fn fi(v: i64) -> f64 { v as f64 } }
impl Elt for f32 { const NAME: &'static str = "f32"; fn fi(v: i64) -> f32 { v as f32 } }

fn face_forward_section<T: Elt, V: Sp<T>>(s: &Section) {
    let n = V::N;
    let site = format!("{}::face_forward<{}>", V::NAME, T::NAME);
    let mk = |a: &[i64]| -> V { V::from_elems(a.iter().map(|&v| T::fi(v)).collect()) };
    let selfs: Vec<Vec<i64>> = vec![(0..n).map(|i| i as i64 + 1).collect(), (0..n).map(|i| if i % 2 == 0 { -1 } else { 2 }).collect(), { let mut v = vec![0; n]; v[n - 1] = -3; v }];
    let (left, right): (Vec<Vec<i64>>, Vec<Vec<i64>>) = if n <= 4 { (grid(n, -1, 1), grid(n, -1, 1)) } else { (deviations(n, 0, &[-1, 1]), { let mut c = companions(n); c.extend(deviations(n, 0, &[-1, 1]).into_iter().step_by(n / 2 + 1)); c }) };
    left.par_iter().for_each(|inc| {
        let (mut pos, mut neg, mut tie) = (0u64, 0u64, 0u64);
        for rf in &right { for (swap, (i_, r_)) in [(inc, rf), (rf, inc)].into_iter().enumerate() {
            if swap == 1 && n <= 4 { continue; }
            let dot: i64 = (0..n).map(|i| i_[i] * r_[i]).sum();
            for sv in &selfs {
                if dot == 0 { tie += 1 } else if dot > 0 { pos += 1 } else { neg += 1 }
                let want: Vec<T> = sv.iter().map(|&v| T::fi(if dot > 0 { -v } else { v })).collect();
                let (vs, vi, vr) = (mk(sv), mk(i_), mk(r_));
                let inp = || json!({"self": sv, "incident": i_, "reference": r_, "reference.incident": dot});
                if let Some(g) = s.call(&site, inp, || vs.facefwd_(vi, vr).into_elems()) {
                    if g != want { vio(s, &site, if dot > 0 { "not-flipped-for-positive-dot" } else if dot == 0 { "flipped-for-zero-dot(no sign to flip by)" } else { "flipped-for-negative-dot" }, json!({"input": inp(), "got": jd(&g), "want": jd(&want)}), wsum(i_) + wsum(r_)); }
                }
                if dot > 0 && wsum(i_) > 1 && s.wants_sample() { s.sample(json!({"type": V::NAME, "tier": T::NAME, "input": inp(), "want": jd(&want)})); }
            }
        } }
        s.evals(pos + neg + tie, pos + neg + tie);
        s.class_n("reference.incident > 0 (flip)", pos); s.class_n("reference.incident < 0 (keep)", neg); s.class_n("reference.incident = 0 (no sign: keep)", tie);
    });
    s.meta(&format!("{}<{}>", V::NAME, T::NAME), json!({"incident_vectors": left.len(), "reference_vectors": right.len(), "self_vectors": selfs.len()}));
}


// ---------------------------------------------------------------------------------------------
// 11. Vec3 slerp / slerp_unclamped

fn slerp_exact(s: &Section, thorough: bool) {
    let ax = unit_axes();
    let mut frames: Vec<([X; 3], [X; 3])> = Vec::new();
    for e1 in ax.iter().step_by(if thorough { 3 } else { 9 }) {
        let mut k = 0;
        for e2 in &ax { if (e1[0] * e2[0] + e1[1] * e2[1] + e1[2] * e2[2]).is_zero() { frames.push((*e1, *e2)); k += 1; if k == 2 { break; } } }
    }
    let lengths = [(qi(1), qi(1)), (qi(1), qi(2)), (qi(3), q(1, 2))];
    let bases: [(i128, i128); 8] = [(1, 8), (1, 10), (1, 12), (1, 16), (2, 21), (1, 20), (1, 3), (2, 5)];
    let v3 = |a: &[X; 3]| Vec3 { x: a[0], y: a[1], z: a[2] };
    let arr = |v: Vec3<X>| [v.x, v.y, v.z];
    let comb = |e1: &[X; 3], e2: &[X; 3], c: X, sn: X, l: X| [l * (c * e1[0] + sn * e2[0]), l * (c * e1[1] + sn * e2[1]), l * (c * e1[2] + sn * e2[2])];
    for (e1, e2) in &frames { for &(tn, td) in &bases { for &(r1, r2) in &lengths {
        reset_angles();
        let b = angle_base_t(tn, td);
        register_inverse(X::tok(b, 4));
        let (s4, c4) = X::tok(b, 4).sin_cos_q();
        assert!(s4.n > 0);
        let from = comb(e1, e2, qi(1), qi(0), r1);
        let to = comb(e1, e2, X::R(c4), X::R(s4), r2);
        s.class(if c4.n < 0 { "obtuse arc" } else { "acute arc" });
        for j in -2i128..=6 {
            let f = q(j, 4);
            let jc = j.clamp(0, 4);
            let want_at = |j: i128| { let (sj, cj) = X::tok(b, j).sin_cos_q(); let l = r1 + q(j, 4) * (r2 - r1); (comb(e1, e2, X::R(cj), X::R(sj), qi(1)).map(|c| c * l), l) };
            let inp = || json!({"from": jxs(&from), "to": jxs(&to), "factor": jx(f), "arc": format!("4 * arg(z), z of rational parameter {}/{}", tn, td)});
            let (vf, vt) = (v3(&from), v3(&to));
            let forms: [(&str, Option<[X; 3]>, i128); 4] = [
                ("Vec3::slerp_unclamped<X>", s.call("Vec3::slerp_unclamped<X>", inp, || arr(Vec3::slerp_unclamped(vf, vt, f))), j),
                ("Slerp::slerp_unclamped for Vec3<X>", s.call("Slerp::slerp_unclamped for Vec3<X>", inp, || arr(<Vec3<X> as Slerp<X>>::slerp_unclamped(vf, vt, f))), j),
                ("Vec3::slerp<X>", s.call("Vec3::slerp<X>", inp, || arr(Vec3::slerp(vf, vt, f))), jc),
                ("Slerp::slerp for Vec3<X>", s.call("Slerp::slerp for Vec3<X>", inp, || arr(<Vec3<X> as Slerp<X>>::slerp(vf, vt, f))), jc),
            ];
            for (site, got, jj) in forms {
                s.eval(jj != 0 && jj != 4);
                let Some(g) = got else { continue };
                let (want, l) = want_at(jj);
                if g == want { continue; }
                let class = if jj == 0 { "factor-0-is-not-from" } else if jj == 4 { "factor-1-is-not-to" } else if rdot(&g, &g) != l * l { "length-not-linearly-interpolated" } else { "not-on-the-arc-at-constant-angular-speed" };
                vio(s, site, class, json!({"input": inp(), "effective_factor": format!("{}/4", jj), "got": jxs(&g), "want": jxs(&want), "|got|^2": jx(rdot(&g, &g)), "lerp(|from|,|to|)^2": jx(l * l)}), xw(&from) + xw(&to) + j.unsigned_abs() as u64);
            }
            if j == 1 && r1 != r2 && s.wants_sample() { let (want, l) = want_at(1); s.sample(json!({"input": inp(), "want": jxs(&want), "length": jx(l)})); }
        }
    } } }
    // nearly parallel pairs: from = r1 e1, to = r2 z (ONE step of a tiny rational arc), integer factors j = -1..3 (extrapolation is
    // exact on the circle: the result is r(j) z^j).  The arcs keep 1 - cos(alpha) >= 2^-33, far outside any epsilon-sized
    // "treat as parallel" window, so the spherical formula - not a linear shortcut - is what the property describes here.
    for (e1, e2) in frames.iter().take(if thorough { 12 } else { 4 }) { for &(tn, td) in &[(1i128, 128i128), (1, 512), (1, 4096), (1, 65536)] { for &(r1, r2) in &lengths {
        reset_angles();
        let b = angle_base_t(tn, td);
        register_inverse(X::tok(b, 1));
        let (s1, c1) = X::tok(b, 1).sin_cos_q();
        let from = comb(e1, e2, qi(1), qi(0), r1);
        let to = comb(e1, e2, X::R(c1), X::R(s1), r2);
        s.class("nearly parallel arc");
        for j in -1i128..=3 {
            let f = qi(j);
            let (sj, cj) = X::tok(b, j).sin_cos_q();
            let l = r1 + f * (r2 - r1);
            let want = comb(e1, e2, X::R(cj), X::R(sj), qi(1)).map(|c| c * l);
            let inp = || json!({"from": jxs(&from), "to": jxs(&to), "factor": jx(f), "arc": format!("arg(z), z of rational parameter {}/{}", tn, td)});
            let (vf, vt) = (v3(&from), v3(&to));
            s.eval(j != 0 && j != 1);
            let Some(g) = s.call("Vec3::slerp_unclamped<X>", inp, || arr(Vec3::slerp_unclamped(vf, vt, f))) else { continue };
            if g == want { continue; }
            let class = if j == 0 { "factor-0-is-not-from" } else if j == 1 { "factor-1-is-not-to" } else if rdot(&g, &g) != l * l { "length-not-linearly-interpolated" } else { "not-on-the-arc-at-constant-angular-speed" };
            vio(s, "Vec3::slerp_unclamped<X>", class, json!({"input": inp(), "nearly_parallel": true, "got": jxs(&g), "want": jxs(&want), "|got|^2": jx(rdot(&g, &g)), "lerp(|from|,|to|)^2": jx(l * l)}), xw(&from) + xw(&to) + j.unsigned_abs() as u64);
        }
    } } }
    // parallel pairs: the exact tier cannot give a verdict (sin(alpha) = 0 divides), it is counted; the float tiers decide
    for (e1, e2) in frames.iter().take(6) { for &(r1, r2) in &lengths { for j in [0i128, 2, 4] {
        reset_angles();
        let (from, to) = (comb(e1, e2, qi(1), qi(0), r1), comb(e1, e2, qi(1), qi(0), r2));
        s.eval(true);
        match catch(|| arr(Vec3::slerp_unclamped(v3(&from), v3(&to), q(j, 4)))) {
            Ok(g) => { s.class("parallel pair: exact tier answered");
                let l = r1 + q(j, 4) * (r2 - r1);
                let want = comb(e1, e2, qi(1), qi(0), l);
                if g != want { vio0(s, "Vec3::slerp_unclamped<X>", "parallel-inputs:wrong-value", json!({"from": jxs(&from), "to": jxs(&to), "factor": format!("{}/4", j), "got": jxs(&g), "want": jxs(&want)})); } }
            Err(Caught::Unmodelled(wh)) => { s.class("parallel pair: 0/0 in the exact tier (no verdict here; see the float section)"); s.meta("parallel_pair_exact_tier", json!(wh)); }
            Err(Caught::Panic(m)) => vio0(s, "Vec3::slerp_unclamped<X>", "panic", json!({"from": jxs(&from), "to": jxs(&to), "panic": m})),
        }
    } } }
    reset_angles();
    s.meta("alphabet", json!({"orthonormal_frames": frames.len(), "arcs": bases.len(), "length_pairs": lengths.len(), "factors": "j/4, j=-2..6", "forms": 4}));
}

trait Sl: Fl {
    /// [inherent slerp_unclamped, Slerp::slerp_unclamped, inherent slerp, Slerp::slerp]
    fn forms(a: &[f64; 3], b: &[f64; 3], f: f64) -> [[f64; 3]; 4];
}
macro_rules! impl_sl { ($T:ty) => { impl Sl for $T { fn forms(a: &[f64; 3], b: &[f64; 3], f: f64) -> [[f64; 3]; 4] {
    let v = |p: &[f64; 3]| Vec3 { x: p[0] as $T, y: p[1] as $T, z: p[2] as $T };
    let d = |r: Vec3<$T>| [r.x as f64, r.y as f64, r.z as f64];
    let (a, b, f) = (v(a), v(b), f as $T);
    [d(Vec3::slerp_unclamped(a, b, f)), d(<Vec3<$T> as Slerp<$T>>::slerp_unclamped(a, b, f)), d(Vec3::slerp(a, b, f)), d(<Vec3<$T> as Slerp<$T>>::slerp(a, b, f))]
} } } }
impl_sl!(f64); impl_sl!(f32);

fn slerp_float<F: Sl>(s: &Section, thorough: bool) {
    let dirs: Vec<Vec<i64>> = grid(3, -1, 1).into_iter().filter(|d| d.iter().any(|&x| x != 0)).collect();
    let lengths: [(f64, f64); 3] = [(1.0, 1.0), (1.0, 2.0), (2.0, 0.5)];
    let den: i64 = if thorough { 16 } else { 8 };
    let site = format!("Vec3::slerp_unclamped<{}>", F::NAME);
    let same = |p: &[f64; 3], q_: &[f64; 3]| (0..3).all(|i| p[i] == q_[i] || (p[i].is_nan() && q_[i].is_nan()));
    dirs.par_iter().for_each(|d1| {
        let (mut ev, mut nt, mut par, mut eq, mut gen, mut anti) = (0u64, 0u64, 0u64, 0u64, 0u64, 0u64);
        for d2 in &dirs {
            let (n1, n2): (i64, i64) = (d1.iter().map(|x| x * x).sum(), d2.iter().map(|x| x * x).sum());
            let dot: i64 = (0..3).map(|i| d1[i] * d2[i]).sum();
            if (0..3).all(|i| d1[i] == -d2[i]) { anti += 1; continue; }
            let parallel = d1 == d2;
            let ca = if parallel { 1.0 } else { dot as f64 / ((n1 * n2) as f64).sqrt() };
            let alpha = ca.acos();
            let u: Vec<f64> = d1.iter().map(|&x| x as f64 / (n1 as f64).sqrt()).collect();
            let v: Vec<f64> = d2.iter().map(|&x| x as f64 / (n2 as f64).sqrt()).collect();
            for &(r1, r2) in &lengths {
                let from = [d1[0] as f64 * r1, d1[1] as f64 * r1, d1[2] as f64 * r1];
                let to = [d2[0] as f64 * r2, d2[1] as f64 * r2, d2[2] as f64 * r2];
                let (lf, lt) = (r1 * (n1 as f64).sqrt(), r2 * (n2 as f64).sqrt());
                if parallel { if r1 == r2 { eq += 1 } else { par += 1 } } else { gen += 1 }
                for k in -(den / 2)..=(den + den / 2) {
                    let f = k as f64 / den as f64;
                    let l = lf + f * (lt - lf);
                    let dir: Vec<f64> = if parallel { u.clone() } else { (0..3).map(|i| (((1.0 - f) * alpha).sin() * u[i] + (f * alpha).sin() * v[i]) / alpha.sin()).collect() };
                    let want = [l * dir[0], l * dir[1], l * dir[2]];
                    // alpha = acos(c) carries ~3 eps / sin(alpha); d/dalpha of sin((1-f)alpha)/sin(alpha) is O(1/sin^2 alpha) towards pi and O(alpha) towards 0
                    let cond = if ca < 0.0 { 1.0 + 1.0 / alpha.sin().powi(3) } else { 2.0 };
                    let scale = (lf + lt) * (1.0 + f.abs()) * (1.0 + f.abs()) * cond;
                    let inp = || json!({"from": from, "to": to, "factor": f, "angle_between_inputs": alpha});
                    let w = wsum(d1) + wsum(d2) + (r1 != 1.0) as u64 + (r2 != 1.0) as u64 + k.unsigned_abs();
                    ev += 4; if !(parallel && r1 == r2) && k != 0 && k != den { nt += 4; }
                    let Some(fm) = s.call(&site, inp, || F::forms(&from, &to, f)) else { continue };
                    let g = fm[0];
                    let fc = f.clamp(0.0, 1.0);
                    let at_fc = if fc == f { g } else { F::forms(&from, &to, fc)[0] };
                    if !same(&fm[1], &g) { vio(s, &format!("Slerp::slerp_unclamped for Vec3<{}>", F::NAME), "differs-from-the-inherent-function", json!({"input": inp(), "got": jd(&fm[1]), "inherent": jd(&g)}), w); }
                    if !same(&fm[2], &at_fc) { vio(s, &format!("Vec3::slerp<{}>", F::NAME), "not-slerp_unclamped-at-the-clamped-factor", json!({"input": inp(), "got": jd(&fm[2]), "slerp_unclamped(clamp01(factor))": jd(&at_fc)}), w); }
                    if !same(&fm[3], &at_fc) { vio(s, &format!("Slerp::slerp for Vec3<{}>", F::NAME), "not-slerp_unclamped-at-the-clamped-factor", json!({"input": inp(), "got": jd(&fm[3]), "slerp_unclamped(clamp01(factor))": jd(&at_fc)}), w); }
                    let close = |p: &[f64; 3], q_: &[f64; 3]| (0..3).all(|i| near::<F>(p[i], q_[i], scale));
                    let len = (g[0] * g[0] + g[1] * g[1] + g[2] * g[2]).sqrt();
                    let class = if g.iter().any(|x| x.is_nan()) { if parallel { "parallel-inputs:nan" } else { "nan" } }
                        else if k == 0 && !close(&g, &from) { "factor-0-is-not-from" }
                        else if k == den && !close(&g, &to) { "factor-1-is-not-to" }
                        else if !near::<F>(len, l.abs(), scale) { "length-not-linearly-interpolated" }
                        else if !close(&g, &want) { "not-on-the-arc-at-constant-angular-speed" }
                        else { "" };
                    if !class.is_empty() { vio(s, &site, class, json!({"input": inp(), "parallel_inputs": parallel, "got": jd(&g), "want": want, "|got|": jd(&len), "lerp(|from|,|to|,factor)": l}), w); }
                    if !parallel && k == 1 && r1 != r2 && dot < 0 && s.wants_sample() { s.sample(json!({"tier": F::NAME, "input": inp(), "got": g, "want": want, "|got|": len, "lerp(|from|,|to|,factor)": l})); }
                }
            }
        }
        s.evals(ev, nt);
        s.class_n("parallel pair, different lengths", par); s.class_n("from == to", eq); s.class_n("general pair", gen); s.class_n("antiparallel pair (no unique arc, excluded)", anti);
    });
    s.meta(F::NAME, json!({"directions": dirs.len(), "length_pairs": lengths.len(), "factors": format!("k/{}, k={}..{}", den, -(den / 2), den + den / 2), "forms": 4}));
}

/// nearly parallel (but distinct) directions: the arc formula must still hold - a linear shortcut is only right for alpha = 0
fn slerp_float_near_parallel<F: Sl>(s: &Section, thorough: bool) {
    let site = format!("Vec3::slerp_unclamped<{}>", F::NAME);
    let frames: [([f64; 3], [f64; 3]); 3] = [([1.0, 0.0, 0.0], [0.0, 1.0, 0.0]), ([0.0, 0.0, 1.0], [0.6, 0.8, 0.0]), ([0.6, 0.0, 0.8], [0.0, 1.0, 0.0])];
    let thetas: &[f64] = if F::EPS < 1e-10 { &[0.25, 0.1, 0.03, 0.01, 1e-3, 1e-4, 1e-5] } else { &[0.25, 0.1, 0.03, 0.01] };
    let lengths: [(f64, f64); 3] = [(1.0, 1.0), (1.0, 2.0), (2.0, 0.5)];
    let den: i64 = if thorough { 16 } else { 8 };
    for (e1, e2) in &frames { for &th in thetas { for &(r1, r2) in &lengths {
        // inputs as the tier sees them (rounded to F), then everything is derived from those rounded inputs
        let from: [f64; 3] = std::array::from_fn(|i| F::of(r1 * e1[i]).f());
        let to: [f64; 3] = std::array::from_fn(|i| F::of(r2 * (th.cos() * e1[i] + th.sin() * e2[i])).f());
        let (lf, lt) = ((0..3).map(|i| from[i] * from[i]).sum::<f64>().sqrt(), (0..3).map(|i| to[i] * to[i]).sum::<f64>().sqrt());
        let (u, v): (Vec<f64>, Vec<f64>) = ((0..3).map(|i| from[i] / lf).collect(), (0..3).map(|i| to[i] / lt).collect());
        // angle from the cross product (well conditioned for small angles)
        let cr = [u[1] * v[2] - u[2] * v[1], u[2] * v[0] - u[0] * v[2], u[0] * v[1] - u[1] * v[0]];
        let alpha = (cr[0] * cr[0] + cr[1] * cr[1] + cr[2] * cr[2]).sqrt().atan2((0..3).map(|i| u[i] * v[i]).sum::<f64>());
        s.class("nearly parallel pair");
        for k in -(den / 2)..=(den + den / 2) {
            let f = k as f64 / den as f64;
            let l = lf + f * (lt - lf);
            let want: [f64; 3] = std::array::from_fn(|i| l * (((1.0 - f) * alpha).sin() * u[i] + (f * alpha).sin() * v[i]) / alpha.sin());
            // the code's acos(cos alpha) is ill-conditioned near 0: d(alpha) ~ eps/alpha, but the weights depend on alpha only at second order
            let scale = (lf + lt) * (1.0 + f.abs()) * (1.0 + f.abs()) * 4.0;
            let inp = || json!({"from": from, "to": to, "factor": f, "angle_between_inputs": alpha});
            s.eval(k != 0 && k != den);
            let Some(fm) = s.call(&site, inp, || F::forms(&from, &to, f)) else { continue };
            let g = fm[0];
            let close = |p: &[f64; 3], q_: &[f64; 3]| (0..3).all(|i| near::<F>(p[i], q_[i], scale));
            let len = (g[0] * g[0] + g[1] * g[1] + g[2] * g[2]).sqrt();
            let class = if g.iter().any(|x| x.is_nan()) { "nan" }
                else if k == 0 && !close(&g, &from) { "factor-0-is-not-from" }
                else if k == den && !close(&g, &to) { "factor-1-is-not-to" }
                else if !near::<F>(len, l.abs(), scale) { "length-not-linearly-interpolated" }
                else if !close(&g, &want) { "not-on-the-arc-at-constant-angular-speed" }
                else { "" };
            if !class.is_empty() { vio(s, &site, class, json!({"input": inp(), "nearly_parallel": true, "got": jd(&g), "want": want, "|got|": jd(&len), "lerp(|from|,|to|,factor)": l}), 10 + k.unsigned_abs()); }
        }
    } } }
}

/// nearly unit vectors: the in-place forms must agree with normalized() (the statement's "in-place forms consistent") and reach unit length
fn nearly_unit<F: Fl, V: Sp<F>>(s: &Section) {
    nearly_unit_with::<F, V>(s, &[1e-2f64, 1e-3, 1e-4, 1e-5, 1e-7, -1e-3, -1e-5], "nearly unit input");
    // second audit: deviations of a few ulp (a guard as tight as is_normalized()'s 4 eps only skips these) and the usual hand-typed tolerances
    let ulps: Vec<f64> = [0.0, -8.0, -4.0, -3.0, -2.0, -1.0, -0.5, 0.5, 1.0, 2.0, 3.0, 4.0, 8.0, 64.0, -64.0].iter().map(|k| k * F::EPS).chain([3e-6, -3e-6, 3e-9, -3e-9, 3e-12]).collect();
    nearly_unit_with::<F, V>(s, &ulps, "unit input off by a few ulp");
}
fn nearly_unit_with<F: Fl, V: Sp<F>>(s: &Section, deltas: &[f64], class: &str) {
    let n = V::N;
    let site = |f: &str| format!("{}::{}<{}>", V::NAME, f, F::NAME);
    for &delta in deltas { for shape in 0..3usize { for pos in 0..n.min(4) {
        // shape 0: (0.6, 0.8) plus a small extra component; 1: one lane 1 + delta; 2: (0.6 + delta, 0.8)
        let mut e = vec![0.0f64; n];
        match shape { 0 => { e[pos] = 0.6; e[(pos + 1) % n] = 0.8; if n > 2 { e[(pos + 2) % n] = delta; } else { e[pos] += delta; } }, 1 => { e[pos] = 1.0 + delta; }, _ => { e[pos] = 0.6 + delta; e[(pos + 1) % n] = 0.8; } }
        let vv: V = V::from_elems(e.iter().map(|&x| F::of(x)).collect());
        let inp = || json!({"v": e});
        s.eval(true); s.class(class);
        let Some(want) = s.call(&site("normalized"), inp, || felems::<F, V>(vv.normalized_())) else { continue };
        // one lane only: v/|v| is +-1 exactly, whatever the deviation
        if shape == 1 && want[pos] != 1.0 { vio(s, &site("normalized"), "axis-aligned:not-exactly-the-unit-axis", json!({"input": inp(), "got": want}), 1); }
        // second call on the same value: the vector stays where it is (within the bound) and the reported previous length is 1 (within the bound)
        if let Some((t2, l2)) = s.call(&site("normalize_and_get_magnitude"), inp, || { let mut t = vv; t.normalize_(); let l = t.normalize_get_(); (felems::<F, V>(t), l.f()) }) {
            if !near::<F>(l2, 1.0, 1.0) || (0..n).any(|i| !near::<F>(t2[i], want[i], 1.0)) { vio(s, &site("normalize_and_get_magnitude"), "second-call:normalising-a-normalised-vector-moves-it", json!({"input": inp(), "after_second_call": t2, "returned_length": l2, "normalized()": want}), 1); }
        }
        let len = fdot(&want, &want).sqrt();
        if !near::<F>(len, 1.0, 1.0) { vio(s, &site("normalized"), "not-unit-length", json!({"input": inp(), "|got|": len}), 1); }
        for (f, got) in [("normalize", s.call(&site("normalize"), inp, || { let mut t = vv; t.normalize_(); felems::<F, V>(t) })),
                         ("normalize_and_get_magnitude", s.call(&site("normalize_and_get_magnitude"), inp, || { let mut t = vv; let _ = t.normalize_get_(); felems::<F, V>(t) })),
                         ("normalized_and_get_magnitude", s.call(&site("normalized_and_get_magnitude"), inp, || felems::<F, V>(vv.normalized_get_().0)))] {
            let Some(g) = got else { continue };
            if g != want { let gl = fdot(&g, &g).sqrt(); vio(s, &site(f), "differs-from-normalized()", json!({"input": inp(), "got": g, "normalized()": want, "|got|": gl}), 1); }
        }
    } } }
}

// ---------------------------------------------------------------------------------------------
// 12. second audit: special values, thresholds, extreme (in-policy) magnitudes, twins, second calls

/// element types with exact small integers and exact power-of-two scaling
trait Sc: Elt {
    /// integer element type: no scaling, halves only of even numbers
    const INT: bool;
    /// (p, q): exponents applied to the first / second operand of the ring functions
    const SCALES: &'static [(i32, i32)];
    /// exponents for a dot product that is tiny / huge but representable
    const TINY: &'static [i32];
    /// exponent for "huge / tiny length whose square is still representable"
    const BIGN: i32;
    fn p2(self, e: i32) -> Self;
}
impl Sc for X { const INT: bool = false; const SCALES: &'static [(i32, i32)] = &[(0, 0), (-30, 1), (20, 0)]; const TINY: &'static [i32] = &[-60, 40]; const BIGN: i32 = 30;
    fn p2(self, e: i32) -> X { if e >= 0 { self * qi(1i128 << e) } else { self * q(1, 1i128 << (-e)) } } }
impl Sc for f64 { const INT: bool = false; const SCALES: &'static [(i32, i32)] = &[(0, 0), (-400, 1), (300, 0), (-60, -60)]; const TINY: &'static [i32] = &[-60, -500, -1000, 500]; const BIGN: i32 = 480;
    fn p2(self, e: i32) -> f64 { assert!((-1022..=1023).contains(&e)); self * f64::from_bits(((1023 + e) as u64) << 52) } }
impl Sc for f32 { const INT: bool = false; const SCALES: &'static [(i32, i32)] = &[(0, 0), (-40, 1), (30, 0), (-12, -12)]; const TINY: &'static [i32] = &[-30, -100, 60]; const BIGN: i32 = 56;
    fn p2(self, e: i32) -> f32 { assert!((-126..=127).contains(&e)); self * f32::from_bits(((127 + e) as u32) << 23) } }
impl Elt for i32 { const NAME: &'static str = "i32"; fn fi(v: i64) -> i32 { v as i32 } }
impl Elt for i64 { const NAME: &'static str = "i64"; fn fi(v: i64) -> i64 { v } }
impl Sc for i32 { const INT: bool = true; const SCALES: &'static [(i32, i32)] = &[(0, 0)]; const TINY: &'static [i32] = &[]; const BIGN: i32 = 0; fn p2(self, e: i32) -> i32 { assert_eq!(e, 0); self } }
impl Sc for i64 { const INT: bool = true; const SCALES: &'static [(i32, i32)] = &[(0, 0)]; const TINY: &'static [i32] = &[]; const BIGN: i32 = 0; fn p2(self, e: i32) -> i64 { assert_eq!(e, 0); self } }

/// signed small-integer vectors of a type (thinned for the wide types)
fn signed_left(n: usize, thorough: bool) -> Vec<Vec<i64>> {
    if n <= 4 { return if thorough && n <= 3 { grid(n, -3, 3) } else { grid(n, -2, 2) }; }
    let d = deviations(n, 0, &[-2, -1, 1, 2]);
    let k = d.len() / if thorough { 4000 } else { 400 } + 1;
    let mut l: Vec<Vec<i64>> = d.into_iter().step_by(k).collect();
    l.extend(deviations(n, 1, &[-2, -1]).into_iter().step_by(k));
    l.push((0..n).map(|i| -1 - (i % 2) as i64).collect());
    l
}
fn signed_right(n: usize) -> Vec<Vec<i64>> {
    if n <= 3 { return grid(n, -2, 2); }
    if n == 4 { return grid(n, -1, 1); }
    let mut c = companions(n);
    c.push((0..n).map(|i| 2 - (i % 5) as i64).collect());
    c.push(vec![-1; n]);
    c
}

/// dot / magnitude_squared / distance_squared / reflected on SIGNED operands scaled by exact powers of two: the lattice sections
/// use non-negative integers (enough for a polynomial identity, blind to a sign- or size-dependent branch)
fn ring_signed<T: Sc, V: SpRing<T>>(s: &Section, thorough: bool) {
    let n = V::N;
    let (left, right) = (signed_left(n, thorough), signed_right(n));
    let site = |f: &str| format!("{}::{}<{}>", V::NAME, f, T::NAME);
    let sites = [site("dot"), site("magnitude_squared"), site("distance_squared"), site("reflected")];
    let mk = |a: &[i64], e: i32| -> V { V::from_elems(a.iter().map(|&v| T::fi(v).p2(e)).collect()) };
    left.par_iter().for_each(|a| {
        let (mut ev, mut nt, mut negd, mut scaled) = (0u64, 0u64, 0u64, 0u64);
        let aa: i64 = a.iter().map(|x| x * x).sum();
        for b in &right { for &(p, q_) in T::SCALES {
            let ab: i64 = (0..n).map(|i| a[i] * b[i]).sum();
            let dd: i64 = (0..n).map(|i| (a[i] - b[i]) * (a[i] - b[i])).sum();
            let w = wsum(a) + wsum(b) + (p != 0) as u64 + (q_ != 0) as u64;
            let inp = || json!({"a": a, "b": b, "a_scaled_by_2^": p, "b_scaled_by_2^": q_});
            let (va, vb, vbp) = (mk(a, p), mk(b, q_), mk(b, p));
            ev += 4; if ab != 0 { nt += 4; } if ab < 0 { negd += 1; } if p != 0 || q_ != 0 { scaled += 1; }
            if let Some(g) = s.call(&sites[0], inp, || va.dot_(vb)) { let want = T::fi(ab).p2(p + q_); if g != want { vio(s, &sites[0], "signed-or-scaled-operands:not-the-sum-of-products", json!({"input": inp(), "got": jd(&g), "want": jd(&want)}), w); } }
            if let Some(g) = s.call(&sites[1], inp, || va.mag2_()) { let want = T::fi(aa).p2(2 * p); if g != want { vio(s, &sites[1], "signed-or-scaled-operands:not-v.v", json!({"input": inp(), "got": jd(&g), "want": jd(&want)}), w); } }
            if let Some(g) = s.call(&sites[2], inp, || va.dist2_(vbp)) { let want = T::fi(dd).p2(2 * p); if g != want { vio(s, &sites[2], "signed-or-scaled-operands:not-|a-b|^2", json!({"input": inp(), "both_scaled_by_2^": p, "got": jd(&g), "want": jd(&want)}), w); } }
            if q_ >= 0 { if let Some(g) = s.call(&sites[3], inp, || va.refl_(vb).into_elems()) {
                let want: Vec<T> = (0..n).map(|i| T::fi(a[i] - 2 * ab * b[i] * (1i64 << (2 * q_))).p2(p)).collect();
                if g != want { vio(s, &sites[3], "signed-or-scaled-operands:not-v-2(v.n)n", json!({"input": inp(), "v.n (unscaled)": ab, "got": jd(&g), "want": jd(&want)}), w); }
            } }
        } }
        s.evals(ev, nt);
        s.class_n("negative dot product", negd); s.class_n("operands scaled by powers of two", scaled);
    });
    s.meta(&format!("{}<{}>", V::NAME, T::NAME), json!({"left_vectors": left.len(), "right_vectors": right.len(), "scales (exponents of 2)": T::SCALES}));
}

fn cross_signed<T: Sc + std::ops::Mul<Output = T> + std::ops::Sub<Output = T>>(s: &Section, thorough: bool) {
    let g3 = if thorough { grid(3, -3, 3) } else { grid(3, -2, 2) };
    let site = format!("Vec3::cross<{}>", T::NAME);
    g3.par_iter().for_each(|a| {
        let (mut ev, mut nt) = (0u64, 0u64);
        for b in &g3 { for &(p, q_) in T::SCALES {
            let want_i = [a[1] * b[2] - a[2] * b[1], a[2] * b[0] - a[0] * b[2], a[0] * b[1] - a[1] * b[0]];
            let want = want_i.map(|c| T::fi(c).p2(p + q_));
            let va = Vec3 { x: T::fi(a[0]).p2(p), y: T::fi(a[1]).p2(p), z: T::fi(a[2]).p2(p) };
            let vb = Vec3 { x: T::fi(b[0]).p2(q_), y: T::fi(b[1]).p2(q_), z: T::fi(b[2]).p2(q_) };
            let inp = || json!({"a": a, "b": b, "a_scaled_by_2^": p, "b_scaled_by_2^": q_});
            ev += 1; if want_i.iter().any(|&c| c != 0) { nt += 1; }
            if let Some(g) = s.call(&site, inp, || { let r = va.cross(vb); [r.x, r.y, r.z] }) {
                if g != want { vio(s, &site, "signed-or-scaled-operands:wrong-value", json!({"input": inp(), "got": jd(&g), "want": jd(&want)}), wsum(a) + wsum(b) + (p != 0) as u64); }
            }
        } }
        s.evals(ev, nt);
        s.class_n("cross product, signed grid", ev);
    });
}

fn side_signed<T>(s: &Section, thorough: bool)
where T: Sc + PartialOrd + num_traits::One + std::ops::Mul<Output = T> + std::ops::Sub<Output = T> + std::ops::Add<Output = T> + std::ops::Div<Output = T> + std::ops::Neg<Output = T> {
    let g2 = if thorough { grid(2, -3, 3) } else { grid(2, -2, 2) };
    let site = |f: &str| format!("Vec2::{}<{}>", f, T::NAME);
    let (s_side, s_signed, s_area) = (site("determine_side"), site("signed_triangle_area"), site("triangle_area"));
    g2.par_iter().for_each(|a| {
        let (mut ev, mut nt) = (0u64, 0u64);
        for b in &g2 { for c in &g2 { for &(p, _) in T::SCALES {
            let cr = (b[0] - a[0]) * (c[1] - a[1]) - (b[1] - a[1]) * (c[0] - a[0]);
            let v = |t: &Vec<i64>| Vec2 { x: T::fi(t[0]).p2(p), y: T::fi(t[1]).p2(p) };
            let inp = || json!({"a": a, "b": b, "c": c, "all_scaled_by_2^": p});
            let w = wsum(a) + wsum(b) + wsum(c) + (p != 0) as u64;
            ev += 1; if cr != 0 { nt += 1; }
            if let Some(g) = s.call(&s_side, inp, || v(c).determine_side(v(a), v(b))) {
                let want = T::fi(cr).p2(2 * p);
                if g != want { vio(s, &s_side, "signed-or-scaled-operands:not-the-2d-cross-product", json!({"input": inp(), "got": jd(&g), "want": jd(&want)}), w); }
            }
            // halves: exact for floats and rationals; integer division only pinned for an even cross product
            let half = if T::INT { if cr % 2 == 0 { Some((T::fi(cr / 2), T::fi(cr.abs() / 2))) } else { None } } else { Some((T::fi(cr).p2(2 * p - 1), T::fi(cr.abs()).p2(2 * p - 1))) };
            let Some((hs, ha)) = half else { continue };
            ev += 2; if cr != 0 { nt += 2; }
            if let Some(g) = s.call(&s_signed, inp, || Vec2::signed_triangle_area(v(a), v(b), v(c))) { if g != hs { vio(s, &s_signed, "signed-or-scaled-operands:not-half-the-2d-cross-product", json!({"input": inp(), "got": jd(&g), "want": jd(&hs)}), w); } }
            if let Some(g) = s.call(&s_area, inp, || Vec2::triangle_area(v(a), v(b), v(c))) { if g != ha { vio(s, &s_area, "signed-or-scaled-operands:not-|cross|/2", json!({"input": inp(), "got": jd(&g), "want": jd(&ha)}), w); } }
        } } }
        s.evals(ev, nt);
        s.class_n("2d cross product, signed grid", ev);
    });
}

/// float forms of distance for the far-from-origin alphabet
trait Dst<T: Copy>: VecN<T> + Copy + Send + Sync { fn dist(self, o: Self) -> T; fn sub_mag(self, o: Self) -> T; }
macro_rules! impl_dst { ($($V:ident),*) => { $(
    impl Dst<f32> for $V<f32> { fn dist(self, o: Self) -> f32 { self.distance(o) } fn sub_mag(self, o: Self) -> f32 { (self - o).magnitude() } }
    impl Dst<f64> for $V<f64> { fn dist(self, o: Self) -> f64 { self.distance(o) } fn sub_mag(self, o: Self) -> f64 { (self - o).magnitude() } }
)* } }
impl_dst!(Vec2, Vec3, Vec4, Vec8, Vec16, Vec32, Vec64, Extent2, Extent3);

/// `distance` on the alphabet of `dist2_offsets`: the lane differences and their squares are exact, so distance(a,b) must be the
/// correctly rounded square root of the exact sum (sqrt is correctly rounded) - bit for bit
fn dist_offsets<T: Copy + PartialEq + Debug + Send + Sync, V: Dst<T>>(s: &Section, tname: &str, mk: &(dyn Fn(i64, i64) -> T + Sync), want_of: &(dyn Fn(i64) -> T + Sync)) {
    let n = V::N;
    let site = format!("{}::distance<{}>", V::NAME, tname);
    let pat: [i64; 7] = [0, 1, -1, 2, 3, -2, 1];
    for r in 0..n.min(7) { for stride in [1usize, 2, 3] { for shift in [1usize, 3] {
        let da: Vec<i64> = (0..n).map(|i| pat[(r + i * stride) % 7]).collect();
        let db: Vec<i64> = (0..n).map(|i| pat[(r + shift + i * (stride + 1)) % 7]).collect();
        let k: Vec<i64> = (0..n).map(|i| 1 + (i as i64 + r as i64) % 3).collect();
        let a = V::from_elems((0..n).map(|i| mk(k[i], da[i])).collect());
        let b = V::from_elems((0..n).map(|i| mk(k[i], db[i])).collect());
        let sum: i64 = (0..n).map(|i| (da[i] - db[i]) * (da[i] - db[i])).sum();
        let want = want_of(sum);
        let inp = || json!({"lane_multipliers_of_the_base": k, "offsets_a(quarter units)": da, "offsets_b(quarter units)": db});
        s.eval(sum != 0);
        s.class("distance of close points far from the origin");
        for (g, st) in [(s.call(&site, inp, || a.dist(b)), site.clone()), (s.call(&site, inp, || b.dist(a)), site.clone()), (s.call(&site, inp, || a.sub_mag(b)), format!("{}::(a-b).magnitude<{}>", V::NAME, tname))] {
            if let Some(g) = g { if g != want { vio(s, &st, "not-the-length-of-the-difference", json!({"input": inp(), "got": format!("{:?}", g), "want": format!("{:?}", want)}), r as u64 + stride as u64); } }
        }
    } } }
}

/// determine_side / signed_triangle_area / triangle_area of three close points far from the origin: the coordinate differences are
/// exact, so the results are exactly the cross product of the offsets; an expanded ("shoelace") formula multiplies the huge
/// coordinates first and cancels afterwards (floats lose the answer, integers overflow)
fn side_far<T>(s: &Section, thorough: bool, tname: &str, mk: &(dyn Fn(i64, i64) -> T + Sync), side_of: &(dyn Fn(i64) -> T + Sync), half_of: &(dyn Fn(i64) -> Option<T> + Sync))
where T: Copy + PartialEq + PartialOrd + Debug + Send + Sync + num_traits::One + std::ops::Mul<Output = T> + std::ops::Sub<Output = T> + std::ops::Add<Output = T> + std::ops::Div<Output = T> + std::ops::Neg<Output = T> {
    let offs: Vec<i64> = if thorough { (-3..=3).collect() } else { (-2..=2).collect() };
    let site = |f: &str| format!("Vec2::{}<{}>", f, tname);
    let (s_side, s_signed, s_area) = (site("determine_side"), site("signed_triangle_area"), site("triangle_area"));
    par_tuples(&offs, 6, |o| {
        let (mut ev, mut nt) = (0u64, 0u64);
        for (kx, ky) in [(1i64, 1i64), (3, 2), (-2, 1), (1, -3)] {
            let (a, b, c) = (Vec2 { x: mk(kx, o[0]), y: mk(ky, o[1]) }, Vec2 { x: mk(kx, o[2]), y: mk(ky, o[3]) }, Vec2 { x: mk(kx, o[4]), y: mk(ky, o[5]) });
            let cr = (o[2] - o[0]) * (o[5] - o[1]) - (o[3] - o[1]) * (o[4] - o[0]);
            let inp = || json!({"base_multipliers(x,y)": [kx, ky], "offsets a,b,c (quarter units for floats)": o});
            let w = wsum(o);
            ev += 1; if cr != 0 { nt += 1; }
            if let Some(g) = s.call(&s_side, inp, || c.determine_side(a, b)) { let want = side_of(cr); if g != want { vio(s, &s_side, "far-from-origin:not-the-2d-cross-product-of-the-differences", json!({"input": inp(), "got": format!("{:?}", g), "want": format!("{:?}", want)}), w); } }
            let (Some(hs), Some(ha)) = (half_of(cr), half_of(cr.abs())) else { continue };
            ev += 2; if cr != 0 { nt += 2; }
            if let Some(g) = s.call(&s_signed, inp, || Vec2::signed_triangle_area(a, b, c)) { if g != hs { vio(s, &s_signed, "far-from-origin:not-half-the-2d-cross-product-of-the-differences", json!({"input": inp(), "got": format!("{:?}", g), "want": format!("{:?}", hs)}), w); } }
            if let Some(g) = s.call(&s_area, inp, || Vec2::triangle_area(a, b, c)) { if g != ha { vio(s, &s_area, "far-from-origin:not-|cross|/2-of-the-differences", json!({"input": inp(), "got": format!("{:?}", g), "want": format!("{:?}", ha)}), w); } }
        }
        s.evals(ev, nt);
        s.class_n("triangle far from the origin", ev);
    });
}

/// Axis-aligned vectors (one non-zero lane w): |v| = |w| exactly (sqrt(fl(w^2)) = |w| in binary floating point, no over/underflow in
/// the alphabet) and v/|v| = w/|w| = +-1 exactly, the other lanes 0: "unit length" with nothing to round.  A reciprocal-multiply
/// rewrite gives w * (1/|w|) != 1 for w = 49, 98, ... (the same effect as for homogenized).
fn axis_aligned<F: Fl + Sc, V: Sp<F>>(s: &Section, thorough: bool) {
    let n = V::N;
    let site = |f: &str| format!("{}::{}<{}>", V::NAME, f, <F as Fl>::NAME);
    let mut ws: Vec<F> = (1..=if thorough { 2000 } else { 200 }).flat_map(|k| [F::of(k as f64), F::of(-(k as f64)), F::of(k as f64 / 7.0), F::of(k as f64 * 1e-3)]).collect();
    ws.extend([F::of(1.0).p2(F::BIGN), F::of(-3.0).p2(F::BIGN), F::of(1.0).p2(-F::BIGN), F::of(5.0).p2(-F::BIGN)]);
    let short: Vec<F> = vec![F::of(3.0), F::of(-49.0), F::of(0.1), F::of(98.0)];
    let full_pos: Vec<usize> = if n <= 4 { (0..n).collect() } else { vec![0, 1, n / 2, n - 2, n - 1] };
    let cases: Vec<(usize, F)> = (0..n).flat_map(|pos| { let l = if full_pos.contains(&pos) { &ws } else { &short }; l.iter().map(move |&w| (pos, w)).collect::<Vec<_>>() }).collect();
    cases.par_iter().for_each(|&(pos, w)| {
        let wf = w.f();
        let mut e = vec![F::of(0.0); n]; e[pos] = w;
        let vv: V = V::from_elems(e);
        let mut unit = vec![0.0f64; n]; unit[pos] = if wf > 0.0 { 1.0 } else { -1.0 };
        let inp = || json!({"lane": pos, "value": wf});
        s.evals(1, 1);
        if let Some(m) = s.call(&site("magnitude"), inp, || vv.mag_().f()) { if m != wf.abs() { vio(s, &site("magnitude"), "axis-aligned:magnitude-is-not-|w|", json!({"input": inp(), "got": m, "want": wf.abs()}), pos as u64); } }
        let forms: [(&str, Option<(Vec<f64>, Option<f64>)>); 4] = [
            ("normalized", s.call(&site("normalized"), inp, || (felems::<F, V>(vv.normalized_()), None))),
            ("normalize", s.call(&site("normalize"), inp, || { let mut t = vv; t.normalize_(); (felems::<F, V>(t), None) })),
            ("normalized_and_get_magnitude", s.call(&site("normalized_and_get_magnitude"), inp, || { let (u, l) = vv.normalized_get_(); (felems::<F, V>(u), Some(l.f())) })),
            ("normalize_and_get_magnitude", s.call(&site("normalize_and_get_magnitude"), inp, || { let mut t = vv; let l = t.normalize_get_(); (felems::<F, V>(t), Some(l.f())) })),
        ];
        for (f, got) in forms {
            let Some((u, l)) = got else { continue };
            if u != unit { vio(s, &site(f), "axis-aligned:not-exactly-the-unit-axis", json!({"input": inp(), "got": u, "want": unit}), pos as u64); }
            if let Some(l) = l { if l != wf.abs() { vio(s, &site(f), "axis-aligned:returned-magnitude-is-not-|w|", json!({"input": inp(), "got": l, "want": wf.abs()}), pos as u64); } }
        }
        if wf * wf > 1.01 * 16.0 * F::EPS {
            match s.call(&site("try_normalized"), inp, || vv.try_normalized_().map(|r| felems::<F, V>(r))) {
                Some(Some(u)) => if u != unit { vio(s, &site("try_normalized"), "axis-aligned:not-exactly-the-unit-axis", json!({"input": inp(), "got": u, "want": unit}), pos as u64); },
                Some(None) => vio(s, &site("try_normalized"), "refused-a-vector-that-is-not-near-zero", json!({"input": inp(), "|v|^2": wf * wf, "16 eps": 16.0 * F::EPS}), pos as u64),
                None => {}
            }
        }
    });
    s.class_n("axis-aligned vector", cases.len() as u64);
}

/// Scaling every lane by 2^e is exact through products, sums, square roots (even exponent) and quotients, so as long as the squared
/// lengths stay in range: magnitude(2^e v) = 2^e magnitude(v), normalized(2^e v) = normalized(v), distance likewise and
/// angle_between(2^e a, 2^-e b) = angle_between(a, b) - BIT FOR BIT.  (2^+-480 for f64, 2^+-56 for f32: squared lengths representable.)
fn scale_invariance<F: Fl + Sc, V: Sp<F>>(s: &Section, thorough: bool) {
    let n = V::N;
    let site = |f: &str| format!("{}::{}<{}>", V::NAME, f, <F as Fl>::NAME);
    let all = signed_left(n, thorough);
    let k = all.len() / if thorough { 1500 } else { 150 } + 1;
    let vs: Vec<Vec<i64>> = all.into_iter().step_by(k).filter(|v| v.iter().any(|&x| x != 0)).collect();
    let comp: Vec<Vec<i64>> = companions(n).into_iter().take(4).collect();
    let same = |p: &[f64], q_: &[f64]| p.len() == q_.len() && (0..p.len()).all(|i| p[i] == q_[i]);
    vs.par_iter().for_each(|v| {
        let mut ev = 0u64;
        for e in [F::BIGN, -F::BIGN] {
            let base: V = V::from_elems(v.iter().map(|&x| F::fi(x)).collect());
            let sc: V = V::from_elems(v.iter().map(|&x| F::fi(x).p2(e)).collect());
            let inp = || json!({"v": v, "scaled_by_2^": e});
            let w = wsum(v);
            ev += 3;
            if let Some((m0, m1)) = s.call(&site("magnitude"), inp, || (base.mag_(), sc.mag_())) { if m0.p2(e).f() != m1.f() { vio(s, &site("magnitude"), "power-of-two-scaling:magnitude-does-not-scale", json!({"input": inp(), "magnitude(v)": m0.f(), "magnitude(2^e v)": m1.f()}), w); } }
            if let Some((m0, m1)) = s.call(&site("magnitude_squared"), inp, || (base.mag2_(), sc.mag2_())) { if m0.p2(2 * e).f() != m1.f() { vio(s, &site("magnitude_squared"), "power-of-two-scaling:magnitude_squared-does-not-scale", json!({"input": inp(), "magnitude_squared(v)": m0.f(), "magnitude_squared(2^e v)": m1.f()}), w); } }
            let u0 = s.call(&site("normalized"), inp, || felems::<F, V>(base.normalized_()));
            let forms: [(&str, Option<Vec<f64>>); 4] = [
                ("normalized", s.call(&site("normalized"), inp, || felems::<F, V>(sc.normalized_()))),
                ("normalize", s.call(&site("normalize"), inp, || { let mut t = sc; t.normalize_(); felems::<F, V>(t) })),
                ("normalized_and_get_magnitude", s.call(&site("normalized_and_get_magnitude"), inp, || felems::<F, V>(sc.normalized_get_().0))),
                ("try_normalized", s.call(&site("try_normalized"), inp, || sc.try_normalized_().map(|r| felems::<F, V>(r)).unwrap_or_default())),
            ];
            if let Some(u0) = u0 { for (f, g) in forms {
                let Some(g) = g else { continue };
                if f == "try_normalized" && e < 0 { continue; }   // tiny vectors may be refused
                if !same(&g, &u0) { vio(s, &site(f), "power-of-two-scaling:result-depends-on-the-length-of-the-input", json!({"input": inp(), "got": g, "normalized(v)": u0}), w); }
            } }
            for c in &comp {
                if c == v || c.iter().all(|&x| x == 0) { continue; }
                let (cb, cs, cinv): (V, V, V) = (V::from_elems(c.iter().map(|&x| F::fi(x)).collect()), V::from_elems(c.iter().map(|&x| F::fi(x).p2(e)).collect()), V::from_elems(c.iter().map(|&x| F::fi(x).p2(-e)).collect()));
                let inp = || json!({"a": v, "b": c, "a_scaled_by_2^": e});
                ev += 2;
                if let Some((d0, d1)) = s.call(&site("distance"), inp, || (base.dist_(cb), sc.dist_(cs))) { if d0.p2(e).f() != d1.f() { vio(s, &site("distance"), "power-of-two-scaling:distance-does-not-scale", json!({"input": inp(), "distance(a,b)": d0.f(), "distance(2^e a, 2^e b)": d1.f()}), w); } }
                if let Some((a0, a1, a2)) = s.call(&site("angle_between"), inp, || (base.angle_(cb).f(), sc.angle_(cinv).f(), sc.angle_(cs).f())) {
                    if a0 != a1 || a0 != a2 { vio(s, &site("angle_between"), "power-of-two-scaling:angle-depends-on-the-lengths", json!({"input": inp(), "angle(a,b)": a0, "angle(2^e a, 2^-e b)": a1, "angle(2^e a, 2^e b)": a2}), w); }
                }
            }
        }
        s.evals(ev, ev);
    });
    s.class_n("power-of-two scaled vector", 2 * vs.len() as u64);
    s.meta(&format!("{}<{}>", V::NAME, <F as Fl>::NAME), json!({"vectors": vs.len(), "exponent": F::BIGN}));
}

/// slerp of (2^e from, 2^e to) is 2^e slerp(from, to): the directions, the angle and the weights are unchanged and the lengths scale exactly
fn slerp_scaled<F: Sl + Sc>(s: &Section) {
    let dirs: Vec<Vec<i64>> = grid(3, -1, 1).into_iter().filter(|d| d.iter().any(|&x| x != 0)).step_by(2).collect();
    let site = format!("Vec3::slerp_unclamped<{}>", <F as Fl>::NAME);
    let forms_sites = [site.clone(), format!("Slerp::slerp_unclamped for Vec3<{}>", <F as Fl>::NAME), format!("Vec3::slerp<{}>", <F as Fl>::NAME), format!("Slerp::slerp for Vec3<{}>", <F as Fl>::NAME)];
    for d1 in &dirs { for d2 in &dirs {
        if (0..3).all(|i| d1[i] == -d2[i]) { continue; }
        for &(r1, r2) in &[(1.0f64, 1.0f64), (1.0, 2.0), (3.0, 0.5)] { for e in [F::BIGN, -F::BIGN] { for k in [-2i64, 0, 1, 2, 3, 4, 6] {
            let f = k as f64 / 4.0;
            let from: [f64; 3] = std::array::from_fn(|i| d1[i] as f64 * r1);
            let to: [f64; 3] = std::array::from_fn(|i| d2[i] as f64 * r2);
            let (sf, st): ([f64; 3], [f64; 3]) = (from.map(|x| F::of(x).p2(e).f()), to.map(|x| F::of(x).p2(e).f()));
            let inp = || json!({"from": from, "to": to, "both_scaled_by_2^": e, "factor": f});
            s.eval(k != 0 && k != 4); s.class("lengths scaled by a power of two");
            let Some((b0, b1)) = s.call(&site, inp, || (F::forms(&from, &to, f), F::forms(&sf, &st, f))) else { continue };
            for j in 0..4 {
                let want: [f64; 3] = b0[j].map(|x| F::of(x).p2(e).f());
                if b0[j].iter().any(|x| x.is_nan()) { continue; }
                if (0..3).any(|i| b1[j][i] != want[i]) { vio(s, &forms_sites[j], "power-of-two-scaling:result-does-not-scale-with-the-inputs", json!({"input": inp(), "got": jd(&b1[j]), "2^e * slerp(from,to,f)": jd(&want)}), wsum(d1) + wsum(d2) + k.unsigned_abs()); }
            }
        } } }
    } }
}

/// face_forward with a reference.incident that is tiny or huge (but representable): only the SIGN decides
fn face_forward_tiny<T: Sc, V: Sp<T>>(s: &Section) {
    let n = V::N;
    let site = format!("{}::face_forward<{}>", V::NAME, T::NAME);
    let left: Vec<Vec<i64>> = if n <= 4 { grid(n, -1, 1) } else { let d = deviations(n, 0, &[-1, 1]); let k = d.len() / 200 + 1; d.into_iter().step_by(k).collect() };
    let right: Vec<Vec<i64>> = if n <= 3 { grid(n, -1, 1) } else { companions(n) };
    let selfs: Vec<Vec<i64>> = vec![(0..n).map(|i| i as i64 + 1).collect(), (0..n).map(|i| if i % 2 == 0 { -1 } else { 2 }).collect()];
    left.par_iter().for_each(|inc| {
        let (mut pos, mut neg) = (0u64, 0u64);
        for rf in &right { for &e in T::TINY { for role in 0..2 {
            let dot: i64 = (0..n).map(|i| inc[i] * rf[i]).sum();
            if dot == 0 { continue; }
            let (ei, er) = if role == 0 { (e, 0) } else { (0, e) };
            let vi: V = V::from_elems(inc.iter().map(|&v| T::fi(v).p2(ei)).collect());
            let vr: V = V::from_elems(rf.iter().map(|&v| T::fi(v).p2(er)).collect());
            for sv in &selfs {
                if dot > 0 { pos += 1 } else { neg += 1 }
                let want: Vec<T> = sv.iter().map(|&v| T::fi(if dot > 0 { -v } else { v })).collect();
                let vs: V = V::from_elems(sv.iter().map(|&v| T::fi(v)).collect());
                let inp = || json!({"self": sv, "incident": inc, "reference": rf, "incident_scaled_by_2^": ei, "reference_scaled_by_2^": er, "reference.incident (unscaled)": dot});
                if let Some(g) = s.call(&site, inp, || vs.facefwd_(vi, vr).into_elems()) {
                    if g != want { vio(s, &site, if dot > 0 { "tiny-or-huge-dot:not-flipped-for-positive-dot" } else { "tiny-or-huge-dot:flipped-for-negative-dot" }, json!({"input": inp(), "got": jd(&g), "want": jd(&want)}), wsum(inc) + wsum(rf)); }
                }
            }
        } } }
        s.evals(pos + neg, pos + neg);
        s.class_n("tiny or huge positive dot (flip)", pos); s.class_n("tiny or huge negative dot (keep)", neg);
    });
}

/// refraction next to the critical angle: incident = sin(th) e_a - cos(th) e_b, normal = e_b, eta = cos(phi)/sin(th) gives
/// k = sin^2(phi) (a rational square, tiny for tiny phi) and the transmitted ray cos(phi) e_a - sin(phi) e_b EXACTLY;
/// eta = 1/(cos(phi) sin(th)) gives k = -tan^2(phi) < 0: total internal reflection, the zero vector
fn refracted_near_critical<VX: Sp<X>, VD: Sp<f64>, VS: Sp<f32>>(s: &Section) {
    let n = VX::N;
    let pairs: Vec<(usize, usize)> = if n == 2 { vec![(0, 1), (1, 0)] } else { vec![(0, 1), (n - 1, 0), (n / 2, n / 2 + 1)] };
    let thetas: Vec<(Q, Q)> = circle_points().into_iter().map(|(c, sn)| (c.rat(), sn.rat())).filter(|(c, sn)| c.n > 0 && sn.n > 0).collect();
    let site = format!("{}::refracted<X>", VX::NAME);
    for &(la, lb) in &pairs { for &(ct, st) in &thetas { for tpow in [2u32, 4, 6, 10, 20] {
        let t = Q::new(1, 1i128 << tpow);
        let t2 = t.mul(t);
        let (cp, sp) = (Q::ONE.sub(t2).div(Q::ONE.add(t2)), t.add(t).div(Q::ONE.add(t2)));
        let mut i = vec![qi(0); n]; i[la] = X::R(st); i[lb] = X::R(ct.neg());
        let mut nn = vec![qi(0); n]; nn[lb] = qi(1);
        for tir in [false, true] {
            let eta = if tir { Q::ONE.div(cp.mul(st)) } else { cp.div(st) };
            let k = Q::ONE.sub(eta.mul(eta).mul(st.mul(st)));
            let mut want = vec![qi(0); n];
            if !tir { want[la] = X::R(cp); want[lb] = X::R(sp.neg()); }
            let inp = || json!({"incident": jxs(&i), "normal": jxs(&nn), "eta": format!("{:?}", eta), "k": format!("{:?}", k), "k_as_float": k.to_f64()});
            let w = xw(&i) + tpow as u64;
            s.eval(true);
            s.class(if tir { "just beyond the critical angle (k < 0, tiny)" } else { "just before the critical angle (k > 0, tiny)" });
            let (vi, vn): (VX, VX) = (VX::from_elems(i.clone()), VX::from_elems(nn.clone()));
            if let Some(g) = s.call(&site, inp, || vi.refr_(vn, X::R(eta)).into_elems()) {
                if g != want { vio(s, &site, if tir { "near-critical:total-internal-reflection-not-zero-vector" } else { "near-critical:not-the-grazing-transmitted-ray" }, json!({"input": inp(), "got": jxs(&g), "want": jxs(&want)}), w); }
            }
            // floats: the computed k carries about 16 eta^2 eps of rounding; decided only where |k| is 1024 eta^2 eps or more
            fn fl<F: Fl, V: Sp<F>>(s: &Section, i: &[X], nn: &[X], eta: Q, k: Q, want: &[X], tir: bool, w: u64) {
                let (fe, fk) = (F::of(eta.to_f64()).f(), k.to_f64());
                if fk.abs() < 1024.0 * fe * fe * F::EPS { s.class("float: |k| below the rounding noise of k (not asserted)"); return; }
                let site = format!("{}::refracted<{}>", V::NAME, F::NAME);
                let (fi_, fn_, fw) = (qf(i), qf(nn), qf(want));
                let (vi, vn): (V, V) = (fvec::<F, V>(&fi_), fvec::<F, V>(&fn_));
                let inp = || json!({"incident": fi_, "normal": fn_, "eta": fe, "k": fk});
                s.eval(true);
                s.class("float: near-critical case decided");
                let Some(g) = s.call(&site, inp, || felems::<F, V>(vi.refr_(vn, F::of(fe)))) else { return };
                if tir { if g.iter().any(|&x| x != 0.0) { vio(s, &site, "near-critical:total-internal-reflection-not-zero-vector", json!({"input": inp(), "got": g}), w); } return; }
                let scale = 1.0 + fe + fe * fe / fk.sqrt();
                if (0..g.len()).any(|j| !near::<F>(g[j], fw[j], scale)) { vio(s, &site, "near-critical:not-the-grazing-transmitted-ray", json!({"input": inp(), "got": g, "want": fw}), w); }
            }
            fl::<f64, VD>(s, &i, &nn, eta, k, &want, tir, w);
            fl::<f32, VS>(s, &i, &nn, eta, k, &want, tir, w);
        }
    } } }
}

macro_rules! each_spatial { ($V:ident => $body:block) => { vx::for_spatial_vecs!($V => $body) } }

fn main() {
    let rep = Report::start("C11", "exploration");
    let th = rep.thorough();
    let degs: Degs = Mutex::new(BTreeMap::new());

    rep.section("premise: dot, magnitude_squared, distance_squared, reflected, cross, determine_side, signed_triangle_area, homogenized are branch-free ring arithmetic",
        "one run of each function of each spatial type on tropical degree values (any comparison, cast or non-ring operation panics); records the measured total degree used by the lattice sections; non-trivial: all", true, true, |s| {
        each_spatial!(V => { premise::<V<Deg>>(s, &degs); });
        let v3 = Vec3 { x: Deg::VAR, y: Deg::VAR, z: Deg::VAR };
        record_deg(s, &degs, "Vec3::cross".into(), catch(|| { let r = v3.cross(v3); vec![r.x, r.y, r.z] }), 2);
        let v2 = Vec2 { x: Deg::VAR, y: Deg::VAR };
        record_deg(s, &degs, "Vec2::determine_side".into(), catch(|| vec![v2.determine_side(v2, v2)]), 2);
        record_deg(s, &degs, "Vec2::signed_triangle_area".into(), catch(|| vec![Vec2::signed_triangle_area(v2, v2, v2)]), 2);
        let v4 = Vec4 { x: Deg::VAR, y: Deg::VAR, z: Deg::VAR, w: Deg::VAR };
        record_deg(s, &degs, "Vec4::homogenized".into(), catch(|| { let r = v4.homogenized(); vec![r.x, r.y, r.z, r.w] }), 2);
        s.meta("measured_degree", json!(*degs.lock().unwrap()));
        s.sample(json!({"function": "Vec64::reflected", "input": "all 128 elements = degree-1 variable", "measured_output_degree": measured(&degs, "Vec64::reflected")}));
    });

    rep.section("dot / magnitude_squared / distance_squared / reflected (lattice, all nine spatial types)",
        "every point (a,b) of the simplex lattice L(2N, D) (elements = small non-negative integers, sum <= D) for N = lanes of the type, D >= measured degree 3 (D chosen per type from a point budget, see meta): dot = sum a_i b_i, magnitude_squared = a.a, distance_squared = |a-b|^2, reflected = a - 2(a.b)b, all on public fields, exact; a polynomial identity of degree <= D that holds on L(.,D) holds identically; non-trivial: both operands non-zero", true, true, |s| {
        each_spatial!(V => { algebraic::<V<X>>(s, &degs, th); });
    });
    rep.section("distance_squared of close points far from the origin (f32, f64, i32, i64; all nine spatial types)",
        "lane i of both points is base*k_i + offset (base 4096 for f32, 2^27 for f64, 30000 for i32, 2^31 for i64; k_i in {1,2,3}; offsets from {-2..3} quarter units for floats, whole units for integers; 7 rotations x 3 strides x 2 shifts per type): every lane difference and every squared difference is exact, so distance_squared(a,b) and (a-b).magnitude_squared() must equal the exact sum of squared offsets (floats bit for bit, integers without overflow); a formula using the squared lengths of the operands cancels catastrophically / overflows here; non-trivial: a != b", true, false, |s| {
        s.require_classes(&["close points far from the origin"]);
        each_spatial!(V => {
            dist2_offsets::<f32, V<f32>>(s, "f32", &|k, d| 4096.0f32 * k as f32 + d as f32 * 0.25, &|q| q as f32 / 16.0, 1);
            dist2_offsets::<f64, V<f64>>(s, "f64", &|k, d| 134217728.0f64 * k as f64 + d as f64 * 0.25, &|q| q as f64 / 16.0, 1);
            dist2_offsets::<i32, V<i32>>(s, "i32", &|k, d| 30000i32 * k as i32 + d as i32, &|q| q as i32, 1);
            dist2_offsets::<i64, V<i64>>(s, "i64", &|k, d| (1i64 << 31) * k + d, &|q| q, 1);
        });
    });
    rep.section("cross product (Vec3)",
        "every point (a,a2,b,k) of L(10, D), D = 6 (quick) / 8 (thorough) >= 4 = largest identity degree: value vs the component formula, anticommutative, orthogonal to both operands, |axb|^2 = |a|^2|b|^2-(a.b)^2, additive and homogeneous in each argument; non-trivial: a and b non-zero", true, true, |s| cross_section(s, &degs, th));
    rep.section("determine_side / signed_triangle_area (Vec2, lattice)",
        "every point (c,a,b) of L(6, D), D = 6 / 9 >= measured degree 2: c.determine_side(a,b) = (b-a)x(c-a), signed_triangle_area(a,b,c) = half of it; non-trivial: the three points are not collinear", true, true, |s| side_section(s, &degs, th));
    rep.section("triangle_area (Vec2, signed grid)",
        "all triangles with vertices in {-2..2}^2 (quick) / {-3..3}^2 (thorough), X and f64: triangle_area = |(b-a)x(c-a)|/2 (branches on the sign: bounded, not complete); non-trivial: non-collinear", true, false, |s| triangle_area_section(s, th));
    rep.section("homogenized / homogenize (Vec4)",
        "every point v of L(4, D), D = 7 / 10: on formal fractions (no quotient formed, w = 0 included) each lane N/D satisfies N*w = v_i*D; on X (w != 0) the result is v/w with w lane exactly 1; f64/f32 sweeps of w over +-k, k/7, k/1000 (k <= 200), subnormals, MIN_POSITIVE, MAX/16: w lane exactly 1, other lanes within 2 ulp of v/w; i32/i64 exact quotients; the in-place twin agrees, the result is_point; f64 likewise with the harness bound; non-trivial: w != 0", true, true, |s| homogenized_section(s, &degs, th));
    rep.section("is_point / is_direction / is_homogeneous (Vec4)",
        "w in {1, 0, 2, -1, 1/2, 3/2, -1/2, 5, 1/8} x xyz in {0, 1, -7/2, 5}, tiers X, f64, f32: is_point iff w = 1, is_direction iff w = 0, is_homogeneous = either (values within a few ulp of 0 or 1 are not in the alphabet: the tolerance is not pinned by the property); non-trivial: all", true, false, |s| is_hom_section(s));

    rep.section("magnitude / distance / normalized family, exact (rational-norm vectors, all nine spatial types)",
        "integer patterns with integer norm ((1),(3,4),(5,12),(1,2,2),(2,3,6),(8,9,12),(1,1,1,1),(1,2,2,4),(2,4,5,6), r^2 ones for r=3..8) placed at every lane offset with strides {1, N-1, 3}, three sign patterns, scales {1,1/2,3,2/7}, deduplicated: magnitude = r, magnitude^2 = magnitude_squared, distance(b+v,b) = distance(b,b+v) = r and distance_squared = r^2 for three base points b, normalized / normalize / normalized_and_get_magnitude / normalize_and_get_magnitude = v/r (so unit and parallel) and return r; is_normalized, is_approx_zero, is_magnitude_close_to on their clear cases (exact match, off by a factor >= 2); non-trivial: at least two non-zero lanes", true, false, |s| {
        each_spatial!(V => { exact_norms::<V<X>>(s); });
    });
    rep.section("magnitude / distance / normalized family, f64 and f32",
        "nearly unit inputs (0.6, 0.8 plus or minus 1e-2 .. 1e-7 in various lanes): the three other forms equal normalized() exactly and the length is 1 within the bound; all of {-2..2}^N for N <= 4 ({-3..3}^N thorough), vectors with at most two lanes deviating from the constant 0 or 1 vector for N >= 8, scales {1,1/2,3,1e10,1e-10}; oracle: exact integer sum of squares, sqrt in f64, relative bound 256 eps of the tier (forward error of the real computation is (N/2+2) eps); value and in-place twins, and-get-magnitude forms, distances to six companion vectors; zero vector: magnitude 0 asserted, normalisation not; non-trivial: non-zero vector", true, false, |s| {
        s.require_classes(&["zero-vector: normalisation not asserted", "nearly unit input"]);
        each_spatial!(V => { float_norms::<f64, V<f64>>(s, th); float_norms::<f32, V<f32>>(s, th); });
        each_spatial!(V => { nearly_unit::<f64, V<f64>>(s); nearly_unit::<f32, V<f32>>(s); });
    });
    rep.section("try_normalized refuses only near-zero vectors",
        "v = scale * u for rational unit vectors u of every spatial type and scale in {0, 1e-30, 1e-20, 1e-12, 5e-8, 1e-6, 1e-3, 1e-2, 1, 1e10} (f64, f32) / {0, 2^-40, 2^-25, 2^-24, 2^-23, 2^-10, 1, 1e10} (X, eps = 2^-52): zero -> None; |v|^2 > 16 eps -> Some; Some(r) -> r = u (unit, parallel; floats within 256 eps); 0 < |v|^2 <= 16 eps may answer either way; non-trivial: non-zero vector", true, false, |s| {
        s.require_classes(&["zero->None", "clearly-non-zero->Some", "tiny->None (allowed)", "tiny->Some (allowed, checked)"]);
        each_spatial!(V => { let us = rational_units(<V<X> as VecN<X>>::N); try_norm_exact::<V<X>>(s, &us); try_norm_float::<f64, V<f64>>(s, &us); try_norm_float::<f32, V<f32>>(s, &us); });
    });

    rep.section("refracted: Snell's law, total internal reflection",
        "all ordered pairs (incident, normal) of a rational unit-vector alphabet per type (12 rational circle points on the lane pairs (0,1),(N-1,0),(N/2,N/2+1); for N = 3 every 2nd (thorough: every one) of the 103 rational sphere axes, for N > 3 every 7th at lane offsets 0 and N-3; the +-1/sqrt(N) diagonals for N = 4, 16, 64) x eta in {1/2,3/5,3/4,1,5/4,4/3,3/2,5/3,2}; k = 1-eta^2(1-(n.i)^2) computed exactly; k < 0: the zero vector, exactly; k >= 0: |t| = 1, t-(t.n)n = eta(i-(i.n)n) (Snell in vector form: in the plane of i and n, sin(theta_t) = eta sin(theta_i)), and t.n <= 0 when n.i < 0; X exact where k is a rational square (k = 0 critical angle included), f64/f32 with bound 256 eps (1+eta+eta^2/sqrt k) where |k| >= 1/64; non-trivial: incident != normal", true, false, |s| {
        s.require_classes(&["total internal reflection (k<0)", "critical angle (k=0)", "transmitted (k>0)", "exact: front-side incidence", "exact: grazing incidence"]);
        each_spatial!(V => { refracted_section::<V<X>, V<f64>, V<f32>>(s, th); });
    });
    rep.section("angle_between, exact (angle tokens)",
        "a = r1 z^j, b = r2 z^k on lane pairs for z = i and the unit-circle points with rational parameter 1/2, 1/3, 1/5, all j,k with |k-j| arg z <= pi, radii {1,2,1/3}: the result is the token |k-j| arg z (0, pi/2 and pi included); for N >= 3 all pairs of the 103 rational unit axes (every 5th for N > 3, every 2nd thorough, two lane offsets) whose angle has a rational sine: the result is acos(u.v) as a token; result in [0,pi]; non-trivial: angle != 0", true, false, |s| {
        s.require_classes(&["parallel (0)", "antiparallel (pi)", "perpendicular (pi/2)", "general angle", "3-D axis pair with rational sine"]);
        each_spatial!(V => { angle_exact::<V<X>>(s, th); });
    });
    rep.section("angle_between, f64 and f32",
        "all ordered pairs of non-zero vectors of {-2..2}^N for N <= 4 ({-3..3}^N for N <= 3 thorough); for N >= 8 vectors with <= 2 non-zero lanes (values +-1, +-2) against six companions and a thinned <=2-lane set; oracle from exact integers: result in [0, pi] (never NaN) and |cos(result) - a.b/(|a||b|)| <= 256 eps; non-trivial: not parallel", true, false, |s| {
        s.require_classes(&["parallel (0)", "antiparallel (pi)", "perpendicular (pi/2)", "general angle", "rounded cosine outside [-1,1] (clamp needed)", "lengths scaled by 2^+-40 (f32) / 2^+-400 (f64)"]);
        each_spatial!(V => { angle_float::<f64, V<f64>>(s, th); angle_float::<f32, V<f32>>(s, th); });
    });
    rep.section("face_forward flips by the sign of reference.incident",
        "incident, reference in {-1,0,1}^N for N <= 4, <=2-lane +-1 vectors against companions (both roles) for N >= 8, three self vectors, tiers X, f64, f32: -self when reference.incident > 0, self when < 0, exact comparison; self when = 0 (a zero product has no sign to flip by; this is the behaviour on disk and the reading adopted after seed S11h); non-trivial: all", true, false, |s| {
        s.require_classes(&["reference.incident > 0 (flip)", "reference.incident < 0 (keep)", "reference.incident = 0 (no sign: keep)"]);
        each_spatial!(V => { face_forward_section::<X, V<X>>(s); face_forward_section::<f64, V<f64>>(s); face_forward_section::<f32, V<f32>>(s); });
    });

    rep.section("Vec3 slerp / slerp_unclamped, exact (angle tokens)",
        "from = r1 e1, to = r2 (cos 4phi e1 + sin 4phi e2) for orthonormal rational frames (e1,e2), 8 rational arcs 4phi in (0, pi) (two obtuse, up to 174 deg), length pairs (1,1),(1,2),(3,1/2), factors j/4 for j = -2..6, four entry points (inherent / Slerp trait, unclamped / clamped): result = lerp(r1,r2,f) (cos j phi e1 + sin j phi e2) exactly: factor 0 -> from, 1 -> to, length interpolated linearly, on the arc; clamped forms at the clamped factor; plus nearly parallel pairs (to = one step of a rational arc of 0.016 .. 3e-5 rad) at integer factors -1..3; parallel pairs are run and counted (the exact tier divides 0/0, no verdict); non-trivial: effective factor not in {0,1}", true, false, |s| {
        s.require_classes(&["acute arc", "obtuse arc", "nearly parallel arc"]);
        slerp_exact(s, th);
    });
    rep.section("Vec3 slerp / slerp_unclamped, f64 and f32 (parallel pairs and from == to included)",
        "all ordered non-antiparallel pairs of the 26 directions {-1,0,1}^3 \\ 0 (from = r1 d1, to = r2 d2; d1 = d2 gives the parallel pairs and from == to), length factors (1,1),(1,2),(2,1/2), factors k/8 for k = -4..12 (k/16 thorough): slerp_unclamped(.,.,0) = from, (.,.,1) = to, |result| = |lerp(|from|,|to|,f)|, result on the arc at angle f alpha, never NaN; bound 256 eps (|from|+|to|)(1+|f|)^2 cond, cond = 1+1/sin^3(alpha) for obtuse alpha else 2; the Slerp trait form is bit-identical, the clamped forms equal slerp_unclamped at clamp01(f); plus nearly parallel pairs at 0.25 .. 1e-5 rad (f32: .. 0.01) in three frames with the same assertions; non-trivial: from != to and factor not in {0,1}", true, false, |s| {
        s.require_classes(&["parallel pair, different lengths", "from == to", "general pair", "nearly parallel pair"]);
        slerp_float::<f64>(s, th); slerp_float::<f32>(s, th);
        slerp_float_near_parallel::<f64>(s, th); slerp_float_near_parallel::<f32>(s, th);
    });

    // ---- second audit (AUDIT2.md): special values, thresholds, in-policy extreme magnitudes, family members, twins, second calls ----
    rep.section("second audit: distance, determine_side and triangle areas of close points far from the origin",
        "distance(a,b), distance(b,a) and (a-b).magnitude() on the alphabet of the distance_squared section (lane i = base*k_i + offset/4, f32 base 4096, f64 base 2^27): the exact sum of squared offsets has a correctly rounded square root, compared bit for bit; Vec2::determine_side / signed_triangle_area / triangle_area for all 5^6 (thorough: 7^6, {-3..3}) offset triples a,b,c in {-2..2}^2 (quarter units for floats, whole units for integers) around four far base points (k_x,k_y) in {(1,1),(3,2),(-2,1),(1,-3)} x base (2^20 f32, 2^48 f64, 30000 i32, 2^31 i64): every coordinate difference is exact, so the result is exactly the cross product of the offsets (halved, absolute; integer halves only for an even cross product); non-trivial: non-zero distance / non-collinear", true, false, |s| {
        s.require_classes(&["distance of close points far from the origin", "triangle far from the origin"]);
        each_spatial!(V => {
            dist_offsets::<f32, V<f32>>(s, "f32", &|k, d| 4096.0f32 * k as f32 + d as f32 * 0.25, &|q| (q as f32 / 16.0).sqrt());
            dist_offsets::<f64, V<f64>>(s, "f64", &|k, d| 134217728.0f64 * k as f64 + d as f64 * 0.25, &|q| (q as f64 / 16.0).sqrt());
        });
        side_far::<f32>(s, th, "f32", &|k, d| 1048576.0f32 * k as f32 + d as f32 * 0.25, &|c| c as f32 / 16.0, &|c| Some(c as f32 / 32.0));
        side_far::<f64>(s, th, "f64", &|k, d| 281474976710656.0f64 * k as f64 + d as f64 * 0.25, &|c| c as f64 / 16.0, &|c| Some(c as f64 / 32.0));
        side_far::<i32>(s, th, "i32", &|k, d| 30000i32 * k as i32 + d as i32, &|c| c as i32, &|c| if c % 2 == 0 { Some((c / 2) as i32) } else { None });
        side_far::<i64>(s, th, "i64", &|k, d| (1i64 << 31) * k + d, &|c| c, &|c| if c % 2 == 0 { Some(c / 2) } else { None });
    });
    rep.section("second audit: ring functions on signed operands scaled by powers of two",
        "dot, magnitude_squared, distance_squared, reflected of every spatial type on signed small-integer vectors ({-2..2}^N for N <= 4 ({-3..3}^N for N <= 3 thorough), a thinned <=2-deviation set for N >= 8 (ten times denser thorough)) against signed companions, elements X, f64, f32, operands scaled by exact powers of two (f64: 2^-400, 2^300, 2^-60; f32: 2^-40, 2^30, 2^-12; X: 2^-30, 2^20; the surface normal of reflected by 1 or 2): every result is an exactly representable integer times a power of two, compared with ==; Vec3::cross on all pairs of {-2..2}^3 (thorough {-3..3}^3; X, f64, f32, i32, i64) and Vec2::determine_side / signed_triangle_area / triangle_area on all triples of {-2..2}^2 (thorough {-3..3}^2) likewise; complements the lattice sections, whose non-negative integers cannot see a sign- or size-dependent branch; non-trivial: non-zero result", true, false, |s| {
        s.require_classes(&["negative dot product", "operands scaled by powers of two", "cross product, signed grid", "2d cross product, signed grid"]);
        each_spatial!(V => { ring_signed::<X, V<X>>(s, th); ring_signed::<f64, V<f64>>(s, th); ring_signed::<f32, V<f32>>(s, th); });
        cross_signed::<X>(s, th); cross_signed::<f64>(s, th); cross_signed::<f32>(s, th); cross_signed::<i32>(s, th); cross_signed::<i64>(s, th);
        side_signed::<X>(s, th); side_signed::<f64>(s, th); side_signed::<f32>(s, th); side_signed::<i32>(s, th); side_signed::<i64>(s, th);
    });
    rep.section("second audit: normalisation of axis-aligned vectors and power-of-two scale invariance (f64, f32)",
        "one non-zero lane w (every lane position; w over +-k, k/7, k/1000 for k <= 200 (thorough 2000) and +-2^+-480 (f64) / 2^+-56 (f32) at the first, middle and last lanes, four values elsewhere): magnitude and both returned magnitudes are |w| exactly, all four normalising forms and try_normalized give exactly +-1 in that lane and 0 elsewhere; power-of-two scaling by 2^+-480 / 2^+-56 of <= 150 (thorough 1500) signed vectors per type: magnitude and distance scale exactly, normalized / normalize / normalized_and_get_magnitude / try_normalized (large side) and angle_between (against 2^-e and 2^e scaled companions) return bit-identical results; squared lengths stay representable (extreme-magnitude policy); non-trivial: all", true, false, |s| {
        s.require_classes(&["axis-aligned vector", "power-of-two scaled vector"]);
        each_spatial!(V => { axis_aligned::<f64, V<f64>>(s, th); axis_aligned::<f32, V<f32>>(s, th); scale_invariance::<f64, V<f64>>(s, th); scale_invariance::<f32, V<f32>>(s, th); });
    });
    rep.section("second audit: face_forward with a tiny or huge reference.incident",
        "incident (or reference) scaled by 2^-60, 2^-500, 2^-1000, 2^500 (f64), 2^-30, 2^-100, 2^60 (f32), 2^-60, 2^40 (X): the dot product is +-k 2^e, representable and far below any epsilon; the flip depends on its sign only; incident in {-1,0,1}^N (thinned <=2-lane vectors for N >= 8), reference likewise / companions, two self vectors; non-trivial: all (dot != 0)", true, false, |s| {
        s.require_classes(&["tiny or huge positive dot (flip)", "tiny or huge negative dot (keep)"]);
        each_spatial!(V => { face_forward_tiny::<X, V<X>>(s); face_forward_tiny::<f64, V<f64>>(s); face_forward_tiny::<f32, V<f32>>(s); });
    });
    rep.section("second audit: refracted next to the critical angle",
        "incident = sin(th) e_a - cos(th) e_b for the four first-quadrant rational circle points, normal = e_b, on the lane pairs of the refracted section; eta = cos(phi)/sin(th) with phi of rational parameter 2^-2, 2^-4, 2^-6, 2^-10, 2^-20 makes k = sin^2(phi) (down to 3.6e-12) and the transmitted ray exactly cos(phi) e_a - sin(phi) e_b; eta = 1/(cos(phi) sin(th)) makes k = -tan^2(phi): the zero vector; X exact; f64/f32 where |k| >= 1024 eta^2 eps (rounding noise of k is about 16 eta^2 eps) with the bound of the refracted section; non-trivial: all", true, false, |s| {
        s.require_classes(&["just before the critical angle (k > 0, tiny)", "just beyond the critical angle (k < 0, tiny)", "float: near-critical case decided"]);
        each_spatial!(V => { refracted_near_critical::<V<X>, V<f64>, V<f32>>(s); });
    });
    rep.section("second audit: Vec3 slerp with lengths scaled by a power of two",
        "from = r1 d1, to = r2 d2 for every second direction of {-1,0,1}^3 (non-antiparallel ordered pairs), lengths (1,1),(1,2),(3,1/2), both scaled by 2^+-480 (f64) / 2^+-56 (f32), factors k/4 for k in {-2,0,1,2,3,4,6}, four entry points: the result is 2^e times the unscaled result, bit for bit (directions, angle and weights do not change, lengths scale exactly; squared lengths representable); non-trivial: factor not in {0,1}", true, false, |s| {
        s.require_classes(&["lengths scaled by a power of two"]);
        slerp_scaled::<f64>(s); slerp_scaled::<f32>(s);
    });

    let counted: BTreeMap<String, u64> = THROTTLE.lock().unwrap().iter().map(|(k, v)| (k.clone(), v.0)).collect();
    rep.extra("violations_counted_before_throttle", json!(counted));
    std::process::exit(rep.finish());
}
