//! C12 — lerp is affine with exact endpoints; nlerp/slerp stay on the unit sphere.
use rayon::prelude::*;
use vek::ops::{Lerp, Slerp};
use vek::{Quaternion, Transform, Transition, LinearTransition, ProgressMapperFn, Vec2, Vec3, Vec4};
use vx::lattice::*;
use vx::q::{angle_base_t, clear_inverse, register_inverse, Q};
use vx::term::Term;
use vx::vecs::VecN;
use vx::*;

// ---- generic vector lerp, decided lane by lane ---------------------------------------------------
/// `lane`: the term the real code produced for lane i when run on free generators
/// from_i = var(3i), to_i = var(3i+1), factor_i = var(3i+2) (or the shared var(9000) for scalar factors).
/// It must mention only its own lane's variables and equal `want` on every point of L(3,D).
fn lane_decides(s: &Section, site: &str, i: usize, lane: Term, fvar: u32, clamped: bool, d: u32) {
    let (vf, vt) = (3 * i as u32, 3 * i as u32 + 1);
    let allowed = [vf, vt, fvar];
    s.eval(true);
    if let Some(v) = lane.vars().into_iter().find(|v| !allowed.contains(v)) {
        s.violation(site, "lane-uses-foreign-element", json!({"lane": i, "term": jd(&lane), "foreign_variable": v}));
        return;
    }
    // factor grid: lattice point c gives factor (c-2)/2 so that values below 0 and above 1 occur
    lattice(3, d, |p| {
        let (from, to, f) = (qi(p[0] as i128 - 1), qi(2 * p[1] as i128 - 3), q(p[2] as i128 - 2, 2));
        let env = |v: u32| if v == vf { from } else if v == vt { to } else { f };
        let fc = if clamped { if f < qi(0) { qi(0) } else if f > qi(1) { qi(1) } else { f } } else { f };
        let want = from + fc * (to - from);
        match catch(|| lane.eval_x(&env)) {
            Ok(g) => if g != want { s.violation_w(site, "not-the-affine-interpolation", json!({"lane": i, "from": jx(from), "to": jx(to), "factor": jx(f), "got": jx(g), "want": jx(want), "term": jd(&lane)}), p.iter().sum::<i64>() as u64); },
            Err(e) => s.violation(site, "uninterpretable-lane", json!({"lane": i, "term": jd(&lane), "err": jd(&e)})),
        }
    });
}

macro_rules! vec_lerp_generic { ($s:expr, $V:ident, $d:expr) => {{
    let s: &Section = $s;
    let n = <$V<Term> as VecN<Term>>::N;
    let name = <$V<Term> as VecN<Term>>::NAME;
    let mk = |off: u32| -> $V<Term> { <$V<Term> as VecN<Term>>::from_elems((0..n as u32).map(|i| Term::var(3 * i + off)).collect()) };
    let (from, to, fv) = (mk(0), mk(1), mk(2));
    let fs = Term::var(9000);
    s.class(name);
    // (function label, result, per-lane factor variable?, clamped?)
    let runs: Vec<(&str, Result<$V<Term>, Caught>, bool, bool)> = vec![
        ("lerp_unclamped(vector factor)", catch(|| $V::lerp_unclamped(from, to, fv)), true, false),
        ("lerp_unclamped_precise(vector factor)", catch(|| $V::lerp_unclamped_precise(from, to, fv)), true, false),
        ("lerp_unclamped(scalar factor)", catch(|| $V::lerp_unclamped(from, to, fs)), false, false),
        ("lerp_unclamped_precise(scalar factor)", catch(|| $V::lerp_unclamped_precise(from, to, fs)), false, false),
        ("lerp(scalar factor)", catch(|| $V::lerp(from, to, fs)), false, true),
        ("lerp_precise(scalar factor)", catch(|| $V::lerp_precise(from, to, fs)), false, true),
        ("Lerp::lerp_unclamped", catch(|| <$V<Term> as Lerp<Term>>::lerp_unclamped(from, to, fs)), false, false),
        ("Lerp::lerp_unclamped_precise", catch(|| <$V<Term> as Lerp<Term>>::lerp_unclamped_precise(from, to, fs)), false, false),
        ("Lerp::lerp", catch(|| <$V<Term> as Lerp<Term>>::lerp(from, to, fs)), false, true),
        ("Lerp::lerp_precise", catch(|| <$V<Term> as Lerp<Term>>::lerp_precise(from, to, fs)), false, true),
        ("Lerp::lerp_unclamped_inclusive_range", catch(|| <$V<Term> as Lerp<Term>>::lerp_unclamped_inclusive_range(from..=to, fs)), false, false),
        ("Lerp::lerp_unclamped_precise_inclusive_range", catch(|| <$V<Term> as Lerp<Term>>::lerp_unclamped_precise_inclusive_range(from..=to, fs)), false, false),
        ("Lerp::lerp_inclusive_range", catch(|| <$V<Term> as Lerp<Term>>::lerp_inclusive_range(from..=to, fs)), false, true),
        ("Lerp::lerp_precise_inclusive_range", catch(|| <$V<Term> as Lerp<Term>>::lerp_precise_inclusive_range(from..=to, fs)), false, true),
        ("&Lerp::lerp_unclamped", catch(|| <&$V<Term> as Lerp<Term>>::lerp_unclamped(&from, &to, fs)), false, false),
        ("&Lerp::lerp_unclamped_precise", catch(|| <&$V<Term> as Lerp<Term>>::lerp_unclamped_precise(&from, &to, fs)), false, false),
        ("&Lerp::lerp", catch(|| <&$V<Term> as Lerp<Term>>::lerp(&from, &to, fs)), false, true),
        ("&Lerp::lerp_precise", catch(|| <&$V<Term> as Lerp<Term>>::lerp_precise(&from, &to, fs)), false, true),
        // (added) per-element factor through the clamped inherent forms, and the range forms of the reference impl
        ("lerp(vector factor)", catch(|| $V::lerp(from, to, fv)), true, true),
        ("lerp_precise(vector factor)", catch(|| $V::lerp_precise(from, to, fv)), true, true),
        ("&Lerp::lerp_unclamped_inclusive_range", catch(|| <&$V<Term> as Lerp<Term>>::lerp_unclamped_inclusive_range(&from..=&to, fs)), false, false),
        ("&Lerp::lerp_unclamped_precise_inclusive_range", catch(|| <&$V<Term> as Lerp<Term>>::lerp_unclamped_precise_inclusive_range(&from..=&to, fs)), false, false),
        ("&Lerp::lerp_inclusive_range", catch(|| <&$V<Term> as Lerp<Term>>::lerp_inclusive_range(&from..=&to, fs)), false, true),
        ("&Lerp::lerp_precise_inclusive_range", catch(|| <&$V<Term> as Lerp<Term>>::lerp_precise_inclusive_range(&from..=&to, fs)), false, true),
    ];
    for (label, res, per_lane, clamped) in runs {
        let site = format!("{}::{}", name, label);
        match res {
            Ok(v) => { let lanes = v.into_elems(); for (i, t) in lanes.into_iter().enumerate() { lane_decides(s, &site, i, t, if per_lane { 3 * i as u32 + 2 } else { 9000 }, clamped, $d); } }
            Err(e) => s.violation(&site, "panic", json!({"err": jd(&e)})),
        }
    }
    if s.wants_sample() { if let Ok(v) = catch(|| $V::lerp_unclamped_precise(from, to, fs)) { s.sample(json!({"type": name, "call": "lerp_unclamped_precise(from, to, f) on free generators", "lane0": jd(&v.into_elems()[0]), "decided_on": "every point of L(3,D) per lane"})); } }
}} }

// ---- integer Lerp impls -------------------------------------------------------------------------
/// is the rational exactly representable with a `mant`-bit significand (and a sane exponent)?
fn fits(v: Q, mant: u32) -> bool {
    if v.n == 0 { return true; }
    if v.d & (v.d - 1) != 0 { return false; }
    let n = v.n.unsigned_abs();
    let bits = 128 - (n >> n.trailing_zeros()).leading_zeros();
    bits <= mant && v.d.trailing_zeros() < 100
}
fn round_half_away(v: Q) -> i128 { v.round().n }

macro_rules! int_lerp {
  ($s:expr, $T:ty, $F:ty, $mant:expr, $pairs:expr, $acc:expr) => { int_lerp!($s, $T, $F, $mant, $pairs, $acc, 8) };
  ($s:expr, $T:ty, $F:ty, $mant:expr, $pairs:expr, $acc:expr, $den:expr) => {{
    let s: &Section = $s;
    let den: i32 = $den;
    let tname = stringify!($T); let fname = stringify!($F);
    let (tmin, tmax) = (<$T>::MIN as i128, <$T>::MAX as i128);
    for &(from, to) in $pairs.iter() {
        let (from, to): (i128, i128) = (from, to);
        for k in -den..=2 * den {
            let fq = Q::new(k as i128, den as i128);
            let f = k as $F / den as $F;
            let (a, b) = (from as $T, to as $T);
            let exact = Q::int(from).add(fq.mul(Q::int(to - from)));
            let want = round_half_away(exact);
            let fcl = if k < 0 { Q::ZERO } else if k > den { Q::ONE } else { fq };
            let want_cl = round_half_away(Q::int(from).add(fcl.mul(Q::int(to - from))));
            // exactness conditions of the float formulas (then the result must equal the oracle exactly)
            let m = $mant;
            let endpoints_exact = fits(Q::int(from), m) && fits(Q::int(to), m);
            let precise_exact = endpoints_exact && fits(Q::int(from).mul(Q::ONE.sub(fq)), m) && fits(Q::int(to).mul(fq), m) && fits(exact, m);
            let fast_exact = endpoints_exact && fits(Q::int(to - from), m) && fits(exact, m);
            let forms: [(&str, bool, i128, Result<$T, Caught>); 8] = [
                ("lerp_unclamped", fast_exact, want, catch(|| <$T as Lerp<$F>>::lerp_unclamped(a, b, f))),
                ("lerp_unclamped_precise", precise_exact, want, catch(|| <$T as Lerp<$F>>::lerp_unclamped_precise(a, b, f))),
                ("lerp", fast_exact, want_cl, catch(|| <$T as Lerp<$F>>::lerp(a, b, f))),
                ("lerp_precise", precise_exact, want_cl, catch(|| <$T as Lerp<$F>>::lerp_precise(a, b, f))),
                ("&lerp_unclamped", fast_exact, want, catch(|| <&$T as Lerp<$F>>::lerp_unclamped(&a, &b, f))),
                ("&lerp_unclamped_precise", precise_exact, want, catch(|| <&$T as Lerp<$F>>::lerp_unclamped_precise(&a, &b, f))),
                ("&lerp", fast_exact, want_cl, catch(|| <&$T as Lerp<$F>>::lerp(&a, &b, f))),
                ("&lerp_precise", precise_exact, want_cl, catch(|| <&$T as Lerp<$F>>::lerp_precise(&a, &b, f))),
            ];
            for (label, exact_ok, w, got) in forms {
                // the property: for endpoints the factor's float type represents exactly, and a
                // result inside the type's range
                if !exact_ok || w < tmin || w > tmax { $acc.0 += 1; continue; }
                $acc.1 += 1; if to < from { $acc.2 += 1; }
                let site = format!("Lerp<{}>::{} for {}", fname, label, tname);
                match got {
                    Ok(g) => if g as i128 != w { s.violation_w(&site, "wrong-value", json!({"from": from.to_string(), "to": to.to_string(), "factor": format!("{}/{}", k, den), "got": (g as i128).to_string(), "want": w.to_string()}), (from.unsigned_abs() + to.unsigned_abs()).min(u64::MAX as u128) as u64) },
                    Err(Caught::Panic(m)) => s.violation_w(&site, if m.contains("overflow") { "overflow-panic" } else { "panic" }, json!({"from": from.to_string(), "to": to.to_string(), "factor": format!("{}/{}", k, den), "want": w.to_string(), "panic": m}), (from.unsigned_abs() + to.unsigned_abs()).min(u64::MAX as u128) as u64),
                    Err(Caught::Unmodelled(u)) => s.unmodelled(u),
                }
            }
        }
    }
  }};
}

macro_rules! int_lerp_8bit {
  ($s:expr, $T:ty) => { int_lerp_8bit!($s, $T, 8) };
  ($s:expr, $T:ty, $den:expr) => {{
    let s: &Section = $s;
    let all: Vec<i128> = (<$T>::MIN as i128..=<$T>::MAX as i128).collect();
    all.par_iter().for_each(|&from| {
        let pairs: Vec<(i128, i128)> = all.iter().map(|&to| (from, to)).collect();
        let mut acc = (0u64, 0u64, 0u64);
        int_lerp!(s, $T, f32, 24, pairs, acc, $den);
        int_lerp!(s, $T, f64, 53, pairs, acc, $den);
        s.evals(acc.1, acc.1); s.class_n("asserted", acc.1); s.class_n("to<from", acc.2); s.class_n("skipped(result outside the type's range)", acc.0);
    });
    s.sample(json!({"type": stringify!($T), "call": "lerp_unclamped(200u8, 100u8, 0.5f32)" , "want": 150, "pairs": "all 65536 (from,to)", "factors": format!("k/{0}, k=-{0}..{1}", $den, 2 * $den), "forms": 8, "factor_types": ["f32", "f64"]}));
  }};
}
macro_rules! int_lerp_wide {
  ($s:expr, $T:ty, $vals:expr) => { int_lerp_wide!($s, $T, $vals, 8) };
  ($s:expr, $T:ty, $vals:expr, $den:expr) => {{
    let s: &Section = $s;
    let vals: Vec<i128> = $vals;
    let pairs: Vec<(i128, i128)> = vals.iter().flat_map(|&a| vals.iter().map(move |&b| (a, b))).collect();
    pairs.par_chunks(2048).for_each(|chunk| {
        let mut acc = (0u64, 0u64, 0u64);
        int_lerp!(s, $T, f32, 24, chunk, acc, $den);
        int_lerp!(s, $T, f64, 53, chunk, acc, $den);
        s.evals(acc.1 + acc.0, acc.1); s.class_n("asserted", acc.1); s.class_n("to<from", acc.2); s.class_n("skipped(float formula inexact or result outside range)", acc.0);
    });
  }};
}
/// (added) superset of `alph`: odd values, the last odd / first even-only values around 2^24 and 2^53 (where f32 / f64 stop
/// representing every integer), the largest f32- and f64-representable values below the type's maximum, their negatives;
/// thorough: additionally every +-2^k, +-(2^k - 1), +-(2^k + 1), +-3*2^k in range.
fn alph_x(min: i128, max: i128, thorough: bool) -> Vec<i128> {
    let mut v = alph(min, max);
    let bits = 128 - (max as u128).leading_zeros() as i128; // value bits of the maximum
    let p = |k: i128| 1i128 << k;
    v.extend([7, 101, -100, -7, p(24) - 1, p(24) + 1, p(24) + 2, p(24) - 3, -(p(24) - 1), -(p(24) + 2), p(31), p(32) + 2, p(53) - 1, p(53), p(53) + 1, p(53) + 2, -(p(53) - 1), -(p(53) + 2)]);
    if bits > 24 { v.push(max + 1 - p(bits - 24)); v.push(max + 1 - p(bits - 23)); if min < 0 { v.push(min + p(bits - 24)); v.push(-(max + 1 - p(bits - 24))); } }
    if bits > 53 { v.push(max + 1 - p(bits - 53)); v.push(max + 1 - p(bits - 52)); if min < 0 { v.push(min + p(bits - 53)); v.push(-(max + 1 - p(bits - 53))); } }
    if thorough { for k in 1..bits { for x in [p(k), p(k) - 1, p(k) + 1, 3 * p(k - 1)] { v.push(x); v.push(-x); } } }
    v.retain(|x| *x >= min && *x <= max); v.sort(); v.dedup(); v
}
fn alph(min: i128, max: i128) -> Vec<i128> {
    let mut v = vec![min, min + 1, min / 2, -256, -3, -1, 0, 1, 2, 3, 100, 255, 256, 4096, 1 << 20, 1 << 24, max / 2 + 1, max - 1, max];
    v.retain(|x| *x >= min && *x <= max); v.sort(); v.dedup(); v
}

// ---- floats --------------------------------------------------------------------------------------
macro_rules! float_lerp { ($s:expr, $F:ident) => {{
    let s: &Section = $s;
    let eps = $F::EPSILON as f64;
    let ends: [$F; 11] = [0.0, -0.0, 1.0, -1.0, 0.1, -7.3, 1e-20, 3.0e8, -2.5e8, 123.456, 1e20];
    for &a in &ends { for &b in &ends { for k in -32i32..=64 {
        let f = k as $F / 32.0;
        let fq = Q::new(k as i128, 32);
        let (fast, prec) = (<$F as Lerp<$F>>::lerp_unclamped(a, b, f), <$F as Lerp<$F>>::lerp_unclamped_precise(a, b, f));
        let (rfast, rprec) = (<&$F as Lerp<$F>>::lerp_unclamped(&a, &b, f), <&$F as Lerp<$F>>::lerp_unclamped_precise(&a, &b, f));
        let cl = if k < 0 { 0.0 } else if k > 32 { 1.0 } else { f };
        let (cfast, cprec) = (<$F as Lerp<$F>>::lerp(a, b, f), <$F as Lerp<$F>>::lerp_precise(a, b, f));
        s.evals(6, if k != 0 && k != 32 && a != b { 6 } else { 0 });
        let site = |n: &str| format!("Lerp<{0}>::{1} for {0}", stringify!($F), n);
        let inp = || json!({"from": a, "to": b, "factor": f});
        if k == 0 { s.class("factor-0"); if prec != a || fast != a { s.violation(&site("lerp_unclamped*"), "endpoint-0-not-exact", inp()); } }
        if k == 32 { s.class("factor-1"); if prec != b { s.violation(&site("lerp_unclamped_precise"), "endpoint-1-not-exact", inp()); } }
        if rfast.to_bits() != fast.to_bits() || rprec.to_bits() != prec.to_bits() { s.violation(&site("&lerp_unclamped*"), "reference-impl-differs", inp()); }
        if cfast.to_bits() != <$F as Lerp<$F>>::lerp_unclamped(a, b, cl).to_bits() || cprec.to_bits() != <$F as Lerp<$F>>::lerp_unclamped_precise(a, b, cl).to_bits() { s.violation(&site("lerp/lerp_precise"), "clamped-form-is-not-unclamped-of-clamped-factor", inp()); }
        // affine within the forward error bound (oracle in exact rationals)
        if let Ok(want) = catch(|| { let (aq, bq) = (vx::fl::qf(a as f64), vx::fl::qf(b as f64)); aq.add(fq.mul(bq.sub(aq))).to_f64() }) {
            let scale = (a.abs() as f64).max(b.abs() as f64) * (1.0 + (f.abs() as f64)) * 2.0;
            let tol = vx::fl::K * eps * scale;
            for (n, g) in [("lerp_unclamped", fast), ("lerp_unclamped_precise", prec)] {
                if ((g as f64) - want).abs() > tol { s.violation(&site(n), "not-affine-within-error-bound", json!({"from": a, "to": b, "factor": f, "got": g, "want": want, "tolerance": tol})); }
            }
        } else { s.unmodelled("rational overflow in the oracle"); }
    } } }
    s.sample(json!({"type": stringify!($F), "from": 0.1, "to": -7.3, "factor": "k/32, k=-32..64", "laws": ["f=0 -> from exactly", "precise f=1 -> to exactly", "fast ~ precise ~ exact rational value within 256 eps scale", "lerp == lerp_unclamped(clamp01 f)"]}));
}} }


// =====================================================================================================
// (added by the clause audit) helpers for the strengthened sections
// =====================================================================================================
fn clamp01q(f: Q) -> Q { if f < Q::ZERO { Q::ZERO } else if f > Q::ONE { Q::ONE } else { f } }
/// exact a + f (b - a) of three floats as a float (None: the i128 rationals overflowed)
fn exact_lerp(a: f64, b: f64, f: f64) -> Option<f64> {
    catch(|| { let (aq, bq, fq) = (vx::fl::qf(a), vx::fl::qf(b), vx::fl::qf(f)); aq.add(fq.mul(bq.sub(aq))).to_f64() }).ok()
}

// ---- float scalars: non-dyadic factors, the remaining forms, extreme endpoints ----------------------------
macro_rules! float_lerp_more { ($s:expr, $F:ident) => {{
    let s: &Section = $s;
    let eps = $F::EPSILON as f64;
    let site = |n: &str| format!("Lerp<{0}>::{1} for {0}", stringify!($F), n);
    let mut ends: Vec<$F> = vec![0.1, -7.3, 123.456, -0.001, 1.0 / 3.0, -2.0 / 3.0, 999.999, -64.0, 0.0, 1.0, -1.0e-3, 17.0];
    let mut facs: Vec<$F> = vec![0.0, 1.0, 0.1, 0.3, 1.0 / 3.0, 0.7, 0.9, -0.37, 1.63, 1.0e-9, 1.0 - $F::EPSILON, $F::EPSILON, -2.5, 3.25];
    if s.thorough() { for i in 0..24 { ends.push((i as $F * 0.377 - 3.1) * if i % 5 == 0 { 37.0 } else { 1.0 }); } for k in -37i32..=74 { if k != 0 && k != 37 { facs.push(k as $F / 37.0); } } }
    let (mut differ, mut miss1) = (0u64, 0u64);
    for &a in &ends { for &b in &ends { for &f in &facs {
        let cl: $F = if f < 0.0 { 0.0 } else if f > 1.0 { 1.0 } else { f };
        let fast = <$F as Lerp<$F>>::lerp_unclamped(a, b, f); let prec = <$F as Lerp<$F>>::lerp_unclamped_precise(a, b, f);
        let fast_c = <$F as Lerp<$F>>::lerp_unclamped(a, b, cl); let prec_c = <$F as Lerp<$F>>::lerp_unclamped_precise(a, b, cl);
        if fast.to_bits() != prec.to_bits() { differ += 1; }
        let inp = || json!({"from": a, "to": b, "factor": f});
        // every derived form is bit-identical to the base form it is defined by (clamp computed here)
        let forms: [(&str, $F, $F); 18] = [
            ("&lerp_unclamped", <&$F as Lerp<$F>>::lerp_unclamped(&a, &b, f), fast),
            ("&lerp_unclamped_precise", <&$F as Lerp<$F>>::lerp_unclamped_precise(&a, &b, f), prec),
            ("lerp", <$F as Lerp<$F>>::lerp(a, b, f), fast_c),
            ("lerp_precise", <$F as Lerp<$F>>::lerp_precise(a, b, f), prec_c),
            ("&lerp", <&$F as Lerp<$F>>::lerp(&a, &b, f), fast_c),
            ("&lerp_precise", <&$F as Lerp<$F>>::lerp_precise(&a, &b, f), prec_c),
            ("lerp_unclamped_inclusive_range", <$F as Lerp<$F>>::lerp_unclamped_inclusive_range(a..=b, f), fast),
            ("lerp_unclamped_precise_inclusive_range", <$F as Lerp<$F>>::lerp_unclamped_precise_inclusive_range(a..=b, f), prec),
            ("lerp_inclusive_range", <$F as Lerp<$F>>::lerp_inclusive_range(a..=b, f), fast_c),
            ("lerp_precise_inclusive_range", <$F as Lerp<$F>>::lerp_precise_inclusive_range(a..=b, f), prec_c),
            ("&lerp_unclamped_inclusive_range", <&$F as Lerp<$F>>::lerp_unclamped_inclusive_range(&a..=&b, f), fast),
            ("&lerp_unclamped_precise_inclusive_range", <&$F as Lerp<$F>>::lerp_unclamped_precise_inclusive_range(&a..=&b, f), prec),
            ("&lerp_inclusive_range", <&$F as Lerp<$F>>::lerp_inclusive_range(&a..=&b, f), fast_c),
            ("&lerp_precise_inclusive_range", <&$F as Lerp<$F>>::lerp_precise_inclusive_range(&a..=&b, f), prec_c),
            // a Transition is one more route to the same value
            ("Transition::current_unclamped", LinearTransition::<$F, $F>::with_progress(a, b, f).current_unclamped(), fast),
            ("Transition::current_unclamped_precise", LinearTransition::<$F, $F>::with_progress(a, b, f).current_unclamped_precise(), prec),
            ("Transition::into_current", LinearTransition::<$F, $F>::with_progress(a, b, f).into_current(), fast_c),
            ("Transition::into_current_precise", LinearTransition::<$F, $F>::with_progress(a, b, f).into_current_precise(), prec_c),
        ];
        s.evals(20, if a != b && f != 0.0 && f != 1.0 { 20 } else { 0 });
        for (n, got, base) in forms { if got.to_bits() != base.to_bits() { s.violation(&site(n), "form-differs-from-the-form-it-is-defined-by", json!({"input": inp(), "got": got, "base_form_value": base})); } }
        if f == 0.0 && (fast != a || prec != a) { s.violation(&site("lerp_unclamped*"), "endpoint-0-not-exact", inp()); }
        if f == 1.0 { if prec != b { s.violation(&site("lerp_unclamped_precise"), "endpoint-1-not-exact", inp()); } if fast != b { miss1 += 1; } }
        match exact_lerp(a as f64, b as f64, f as f64) {
            Some(want) => {
                let tol = vx::fl::K * eps * (a.abs() as f64).max(b.abs() as f64) * (1.0 + (f.abs() as f64)) * 2.0;
                for (n, g) in [("lerp_unclamped", fast), ("lerp_unclamped_precise", prec)] {
                    if !(((g as f64) - want).abs() <= tol) { s.violation(&site(n), "not-affine-within-error-bound", json!({"from": a, "to": b, "factor": f, "got": g, "want": want, "tolerance": tol})); }
                }
            }
            None => s.unmodelled("rational overflow in the oracle"),
        }
    } } }
    s.class_n("fast!=precise (bitwise)", differ); s.class_n("fast form misses `to` at factor 1", miss1);
    // extreme magnitudes (no rational oracle: laws that need none)
    let big = $F::MAX / 4.0; let tiny = $F::MIN_POSITIVE; let sub = $F::MIN_POSITIVE * $F::EPSILON;
    let ext: [$F; 10] = [big, -big, $F::MAX / 2.0, tiny, -tiny, sub, -sub, 3.0 * sub, 1.0, 0.0];
    for &a in &ext { for &b in &ext { for k in 0..=8i32 {
        let f = k as $F / 8.0;
        if !((b as f64) - (a as f64)).abs().is_finite() || ((b as f64) - (a as f64)).abs() > $F::MAX as f64 { continue; }
        s.class("extreme-magnitude"); s.evals(2, if a != b { 2 } else { 0 });
        let fast = <$F as Lerp<$F>>::lerp_unclamped(a, b, f); let prec = <$F as Lerp<$F>>::lerp_unclamped_precise(a, b, f);
        let inp = || json!({"from": a, "to": b, "factor": f});
        if k == 0 && (fast != a || prec != a) { s.violation(&site("lerp_unclamped*"), "endpoint-0-not-exact", inp()); }
        if k == 8 && prec != b { s.violation(&site("lerp_unclamped_precise"), "endpoint-1-not-exact", inp()); }
        // a convex combination stays in the hull of the endpoints up to rounding
        let (lo, hi) = (a.min(b) as f64, a.max(b) as f64); let slack = 8.0 * eps * (a.abs() as f64).max(b.abs() as f64) + (sub as f64) * 4.0;
        for (n, g) in [("lerp_unclamped", fast), ("lerp_unclamped_precise", prec)] {
            if !((g as f64) >= lo - slack && (g as f64) <= hi + slack) { s.violation(&site(n), "convex-combination-leaves-the-hull-of-the-endpoints", json!({"input": inp(), "got": g})); }
        }
    } } }
    // recorded, not asserted: the fast formula forms to - from first, which overflows for finite endpoints of opposite sign near MAX
    let nan0 = <$F as Lerp<$F>>::lerp_unclamped($F::MAX, -$F::MAX, 0.0);
    s.meta(&format!("observation: lerp_unclamped({0}::MAX, -{0}::MAX, 0.0)", stringify!($F)), json!(format!("{:?} (the precise form gives {:?}); not asserted: the difference of the endpoints is not a finite {}", nan0, <$F as Lerp<$F>>::lerp_unclamped_precise($F::MAX, -$F::MAX, 0.0), stringify!($F))));
    s.sample(json!({"type": stringify!($F), "from": 0.1, "to": -7.3, "factor": 0.3, "fast": <$F as Lerp<$F>>::lerp_unclamped(0.1, -7.3, 0.3), "precise": <$F as Lerp<$F>>::lerp_unclamped_precise(0.1, -7.3, 0.3)}));
}} }

// ---- float vectors: every lane of every type, trait forms bit-identical to the scalar impl, inherent forms to the exact value ----
macro_rules! vec_lerp_float { ($s:expr, $V:ident, $F:ident, $rounds:expr) => {{
    let s: &Section = $s;
    let n = <$V<$F> as VecN<$F>>::N; let name = <$V<$F> as VecN<$F>>::NAME; let fname = stringify!($F);
    let eps = $F::EPSILON as f64;
    let mkv = |e: &dyn Fn(usize) -> $F| -> $V<$F> { <$V<$F> as VecN<$F>>::from_elems((0..n).map(|i| e(i)).collect()) };
    let facs: [$F; 9] = [-0.5, 0.0, 0.1, 0.3, 0.5, 0.7, 1.0, 1.5, 1.0 / 3.0];
    let cl = |x: $F| -> $F { if x < 0.0 { 0.0 } else if x > 1.0 { 1.0 } else { x } };
    let (mut evals, mut differ, mut miss1, mut unm) = (0u64, 0u64, 0u64, 0u64);
    s.class(name);
    for r in 0..$rounds as usize {
        // every lane gets its own inexact endpoints (periods 101 and 103 > 64 lanes)
        let fe = |i: usize| -> $F { (((i + r) * 37 + 11) % 101) as $F * 0.173 - 8.1 };
        let te = |i: usize| -> $F { (((i + r) * 53 + 29) % 103) as $F * 0.291 - 15.3 };
        let (a, b) = (mkv(&fe), mkv(&te));
        let (al, bl) = (a.into_elems(), b.into_elems());
        for (fi, &f) in facs.iter().enumerate() {
            let fle = |i: usize| -> $F { facs[(fi + i * 5 + r) % facs.len()] };
            let fv = mkv(&fle); let fvl = fv.into_elems();
            let tforms: Vec<(&str, $V<$F>, bool, bool)> = vec![
                ("Lerp::lerp_unclamped", <$V<$F> as Lerp<$F>>::lerp_unclamped(a, b, f), false, false),
                ("Lerp::lerp_unclamped_precise", <$V<$F> as Lerp<$F>>::lerp_unclamped_precise(a, b, f), true, false),
                ("Lerp::lerp", <$V<$F> as Lerp<$F>>::lerp(a, b, f), false, true),
                ("Lerp::lerp_precise", <$V<$F> as Lerp<$F>>::lerp_precise(a, b, f), true, true),
                ("&Lerp::lerp_unclamped", <&$V<$F> as Lerp<$F>>::lerp_unclamped(&a, &b, f), false, false),
                ("&Lerp::lerp_unclamped_precise", <&$V<$F> as Lerp<$F>>::lerp_unclamped_precise(&a, &b, f), true, false),
                ("&Lerp::lerp", <&$V<$F> as Lerp<$F>>::lerp(&a, &b, f), false, true),
                ("&Lerp::lerp_precise", <&$V<$F> as Lerp<$F>>::lerp_precise(&a, &b, f), true, true),
                ("Lerp::lerp_unclamped_inclusive_range", <$V<$F> as Lerp<$F>>::lerp_unclamped_inclusive_range(a..=b, f), false, false),
                ("Lerp::lerp_unclamped_precise_inclusive_range", <$V<$F> as Lerp<$F>>::lerp_unclamped_precise_inclusive_range(a..=b, f), true, false),
                ("Lerp::lerp_inclusive_range", <$V<$F> as Lerp<$F>>::lerp_inclusive_range(a..=b, f), false, true),
                ("Lerp::lerp_precise_inclusive_range", <$V<$F> as Lerp<$F>>::lerp_precise_inclusive_range(a..=b, f), true, true),
                ("&Lerp::lerp_unclamped_inclusive_range", <&$V<$F> as Lerp<$F>>::lerp_unclamped_inclusive_range(&a..=&b, f), false, false),
                ("&Lerp::lerp_unclamped_precise_inclusive_range", <&$V<$F> as Lerp<$F>>::lerp_unclamped_precise_inclusive_range(&a..=&b, f), true, false),
                ("&Lerp::lerp_inclusive_range", <&$V<$F> as Lerp<$F>>::lerp_inclusive_range(&a..=&b, f), false, true),
                ("&Lerp::lerp_precise_inclusive_range", <&$V<$F> as Lerp<$F>>::lerp_precise_inclusive_range(&a..=&b, f), true, true),
            ];
            for i in 0..n {
                let (sf, sp) = (<$F as Lerp<$F>>::lerp_unclamped(al[i], bl[i], f), <$F as Lerp<$F>>::lerp_unclamped_precise(al[i], bl[i], f));
                if sf.to_bits() != sp.to_bits() { differ += 1; }
                if f == 1.0 && sf != bl[i] { miss1 += 1; }
            }
            for (label, got, precise, clamped) in tforms {
                let g = got.into_elems();
                for i in 0..n {
                    evals += 1;
                    let ff = if clamped { cl(f) } else { f };
                    let w = if precise { <$F as Lerp<$F>>::lerp_unclamped_precise(al[i], bl[i], ff) } else { <$F as Lerp<$F>>::lerp_unclamped(al[i], bl[i], ff) };
                    if g[i].to_bits() != w.to_bits() { s.violation_w(&format!("{}<{}>::{}", name, fname, label), "lane-is-not-the-scalar-lerp-of-its-own-elements", json!({"lane": i, "from": al[i], "to": bl[i], "factor": f, "got": g[i], "scalar_impl": w, "precise": precise}), i as u64); }
                }
            }
            let iforms: Vec<(&str, $V<$F>, bool, bool, bool)> = vec![
                ("lerp_unclamped(scalar factor)", $V::lerp_unclamped(a, b, f), false, false, false),
                ("lerp_unclamped_precise(scalar factor)", $V::lerp_unclamped_precise(a, b, f), true, false, false),
                ("lerp(scalar factor)", $V::lerp(a, b, f), false, true, false),
                ("lerp_precise(scalar factor)", $V::lerp_precise(a, b, f), true, true, false),
                ("lerp_unclamped(vector factor)", $V::lerp_unclamped(a, b, fv), false, false, true),
                ("lerp_unclamped_precise(vector factor)", $V::lerp_unclamped_precise(a, b, fv), true, false, true),
                ("lerp(vector factor)", $V::lerp(a, b, fv), false, true, true),
                ("lerp_precise(vector factor)", $V::lerp_precise(a, b, fv), true, true, true),
            ];
            for (label, got, precise, clamped, per_lane) in iforms {
                let g = got.into_elems();
                let site = format!("{}<{}>::{}", name, fname, label);
                for i in 0..n {
                    evals += 1;
                    let f0 = if per_lane { fvl[i] } else { f };
                    let ff = if clamped { cl(f0) } else { f0 };
                    let inp = || json!({"lane": i, "from": al[i], "to": bl[i], "factor": f0, "got": g[i]});
                    if ff == 0.0 && g[i] != al[i] { s.violation_w(&site, "endpoint-0-not-exact", inp(), i as u64); }
                    if ff == 1.0 && precise && g[i] != bl[i] { s.violation_w(&site, "endpoint-1-not-exact", inp(), i as u64); }
                    match exact_lerp(al[i] as f64, bl[i] as f64, ff as f64) {
                        Some(want) => { let tol = vx::fl::K * eps * (al[i].abs() as f64).max(bl[i].abs() as f64) * (1.0 + ff.abs() as f64) * 2.0;
                            if !(((g[i] as f64) - want).abs() <= tol) { s.violation_w(&site, "lane-not-affine-within-error-bound", json!({"input": inp(), "want": want, "tolerance": tol}), i as u64); } }
                        None => unm += 1,
                    }
                }
            }
        }
    }
    s.evals(evals, evals); s.class_n("lanes where the scalar fast and precise forms differ bitwise", differ); s.class_n("lanes where the fast form misses `to` at factor 1", miss1);
    for _ in 0..unm { s.unmodelled("rational overflow in the oracle"); }
}} }

// ---- vectors of integers through the Lerp trait ------------------------------------------------------------
macro_rules! vec_lerp_int { ($s:expr, $V:ident, $T:ty, $F:ident) => {{
    let s: &Section = $s;
    let n = <$V<$T> as VecN<$T>>::N; let name = <$V<$T> as VecN<$T>>::NAME;
    let (tmin, tmax) = (<$T>::MIN as i128, <$T>::MAX as i128);
    let span = tmax - tmin + 1;
    let mut evals = 0u64; let mut desc = 0u64;
    for r in 0..3usize {
        // lane i: from, to anywhere in the type's range (descending and ascending lanes, the limits in lanes 0/1 of round 0)
        let fe = |i: usize| -> i128 { if r == 0 && i == 0 { tmax } else if r == 0 && i == 1 { tmin } else { tmin + ((i as i128 + r as i128) * 37 + 200) % span } };
        let te = |i: usize| -> i128 { if r == 0 && i == 0 { tmin } else if r == 0 && i == 1 { tmax } else { tmin + ((i as i128 + 2 * r as i128) * 101 + 3) % span } };
        let a = <$V<$T> as VecN<$T>>::from_elems((0..n).map(|i| fe(i) as $T).collect());
        let b = <$V<$T> as VecN<$T>>::from_elems((0..n).map(|i| te(i) as $T).collect());
        for k in -8i32..=16 {
            let f = k as $F / 8.0; let fq = Q::new(k as i128, 8);
            let forms: Vec<(&str, $V<$T>, bool)> = vec![
                ("Lerp::lerp_unclamped", <$V<$T> as Lerp<$F>>::lerp_unclamped(a, b, f), false),
                ("Lerp::lerp_unclamped_precise", <$V<$T> as Lerp<$F>>::lerp_unclamped_precise(a, b, f), false),
                ("Lerp::lerp", <$V<$T> as Lerp<$F>>::lerp(a, b, f), true),
                ("Lerp::lerp_precise", <$V<$T> as Lerp<$F>>::lerp_precise(a, b, f), true),
                ("&Lerp::lerp_unclamped", <&$V<$T> as Lerp<$F>>::lerp_unclamped(&a, &b, f), false),
                ("&Lerp::lerp_unclamped_precise", <&$V<$T> as Lerp<$F>>::lerp_unclamped_precise(&a, &b, f), false),
                ("&Lerp::lerp", <&$V<$T> as Lerp<$F>>::lerp(&a, &b, f), true),
                ("&Lerp::lerp_precise", <&$V<$T> as Lerp<$F>>::lerp_precise(&a, &b, f), true),
                ("Lerp::lerp_inclusive_range", <$V<$T> as Lerp<$F>>::lerp_inclusive_range(a..=b, f), true),
                ("&Lerp::lerp_unclamped_precise_inclusive_range", <&$V<$T> as Lerp<$F>>::lerp_unclamped_precise_inclusive_range(&a..=&b, f), false),
            ];
            for (label, got, clamped) in forms {
                let g = got.into_elems();
                for i in 0..n {
                    let (from, to) = (fe(i), te(i));
                    let ff = if clamped { clamp01q(fq) } else { fq };
                    let want = round_half_away(Q::int(from).add(ff.mul(Q::int(to - from))));
                    if want < tmin || want > tmax { continue; }
                    evals += 1; if to < from { desc += 1; }
                    if g[i] as i128 != want { s.violation_w(&format!("{}<{}>::{} (factor {})", name, stringify!($T), label, stringify!($F)), "lane-is-not-the-rounded-interpolation-of-its-own-elements", json!({"lane": i, "from": from.to_string(), "to": to.to_string(), "factor": format!("{}/8", k), "got": (g[i] as i128).to_string(), "want": want.to_string()}), i as u64); }
                }
            }
        }
    }
    s.evals(evals, evals); s.class_n("to<from", desc); s.class(name);
}} }

// ---- integer scalars: range forms and non-dyadic factors ---------------------------------------------------
macro_rules! int_lerp_extra { ($s:expr, $T:ty, $F:ident, $vals:expr, $acc:expr) => {{
    let s: &Section = $s;
    let (tmin, tmax) = (<$T>::MIN as i128, <$T>::MAX as i128);
    let eps = $F::EPSILON as f64;
    let facs: [$F; 12] = [0.1, 0.3, 1.0 / 3.0, 0.7, 0.9, -0.3, 1.7, 1.0e-3, 0.999, 0.45, 2.0 / 3.0, -0.85];
    let vals: &Vec<i128> = $vals;
    for &from in vals.iter() { for &to in vals.iter() {
        let (a, b) = (from as $T, to as $T);
        // (1) the four range forms and their reference twins on the dyadic grid (exact oracle)
        for k in -8i32..=16 {
            let f = k as $F / 8.0; let fq = Q::new(k as i128, 8);
            let want = round_half_away(Q::int(from).add(fq.mul(Q::int(to - from))));
            let want_cl = round_half_away(Q::int(from).add(clamp01q(fq).mul(Q::int(to - from))));
            let forms: [(&str, i128, $T); 8] = [
                ("lerp_unclamped_inclusive_range", want, <$T as Lerp<$F>>::lerp_unclamped_inclusive_range(a..=b, f)),
                ("lerp_unclamped_precise_inclusive_range", want, <$T as Lerp<$F>>::lerp_unclamped_precise_inclusive_range(a..=b, f)),
                ("lerp_inclusive_range", want_cl, <$T as Lerp<$F>>::lerp_inclusive_range(a..=b, f)),
                ("lerp_precise_inclusive_range", want_cl, <$T as Lerp<$F>>::lerp_precise_inclusive_range(a..=b, f)),
                ("&lerp_unclamped_inclusive_range", want, <&$T as Lerp<$F>>::lerp_unclamped_inclusive_range(&a..=&b, f)),
                ("&lerp_unclamped_precise_inclusive_range", want, <&$T as Lerp<$F>>::lerp_unclamped_precise_inclusive_range(&a..=&b, f)),
                ("&lerp_inclusive_range", want_cl, <&$T as Lerp<$F>>::lerp_inclusive_range(&a..=&b, f)),
                ("&lerp_precise_inclusive_range", want_cl, <&$T as Lerp<$F>>::lerp_precise_inclusive_range(&a..=&b, f)),
            ];
            for (label, w, g) in forms {
                if w < tmin || w > tmax { $acc.2 += 1; continue; }
                $acc.0 += 1;
                if g as i128 != w { s.violation_w(&format!("Lerp<{}>::{} for {}", stringify!($F), label, stringify!($T)), "wrong-value", json!({"from": from.to_string(), "to": to.to_string(), "factor": format!("{}/8", k), "got": (g as i128).to_string(), "want": w.to_string()}), (from.unsigned_abs() + to.unsigned_abs()) as u64); }
            }
        }
        // (2) factors that are not multiples of 1/8: the float factor is taken exactly; asserted when the exact value is farther
        //     from a rounding tie than the float evaluation can err (then every correct rounding gives the same integer)
        for &f in &facs {
            let fq = vx::fl::qf(f as f64);
            for (clamped, ff) in [(false, fq), (true, clamp01q(fq))] {
                let exact = Q::int(from).add(ff.mul(Q::int(to - from)));
                let want = round_half_away(exact);
                let tie_dist = exact.sub(exact.floor()).sub(Q::new(1, 2)).abs().to_f64();
                let margin = 8.0 * eps * (from.unsigned_abs().max(to.unsigned_abs()).max(1) as f64) * (1.0 + (f.abs() as f64));
                if want < tmin || want > tmax || tie_dist <= margin { $acc.2 += 1; continue; }
                let (fv, pv, rfv, rpv) = if clamped { (<$T as Lerp<$F>>::lerp(a, b, f), <$T as Lerp<$F>>::lerp_precise(a, b, f), <&$T as Lerp<$F>>::lerp(&a, &b, f), <&$T as Lerp<$F>>::lerp_precise(&a, &b, f)) }
                                           else { (<$T as Lerp<$F>>::lerp_unclamped(a, b, f), <$T as Lerp<$F>>::lerp_unclamped_precise(a, b, f), <&$T as Lerp<$F>>::lerp_unclamped(&a, &b, f), <&$T as Lerp<$F>>::lerp_unclamped_precise(&a, &b, f)) };
                for (label, g) in [(if clamped { "lerp" } else { "lerp_unclamped" }, fv), (if clamped { "lerp_precise" } else { "lerp_unclamped_precise" }, pv), (if clamped { "&lerp" } else { "&lerp_unclamped" }, rfv), (if clamped { "&lerp_precise" } else { "&lerp_unclamped_precise" }, rpv)] {
                    $acc.1 += 1;
                    if g as i128 != want { s.violation_w(&format!("Lerp<{}>::{} for {}", stringify!($F), label, stringify!($T)), "wrong-value-at-a-non-dyadic-factor", json!({"from": from.to_string(), "to": to.to_string(), "factor": f, "got": (g as i128).to_string(), "want": want.to_string(), "exact": format!("{}", exact)}), (from.unsigned_abs() + to.unsigned_abs()) as u64); }
                }
            }
        }
    } }
}} }


// ---- quaternions in floats: nlerp direction, non-unit inputs, slerp on general pairs against a Gram-Schmidt reference ----
fn unit_dirs(thorough: bool) -> Vec<[f64; 3]> {
    let mut v = Vec::new();
    for x in -1..=1 { for y in -1..=1 { for z in -1..=1 { if (x, y, z) > (0, 0, 0) { v.push([x as f64, y as f64, z as f64]); } } } }
    v.extend([[1.0, 2.0, 3.0], [-2.0, 1.0, 5.0], [0.3, -0.9, 0.1]]);
    if thorough { v.extend([[4.0, -1.0, 0.5], [-1.0, -7.0, 2.0], [0.01, 1.0, -0.02], [5.0, 5.0, -4.0], [-3.0, 0.2, 0.1]]); }
    for d in v.iter_mut() { let n = (d[0] * d[0] + d[1] * d[1] + d[2] * d[2]).sqrt(); for c in d.iter_mut() { *c /= n; } }
    v
}
macro_rules! quat_float { ($s:expr, $F:ident) => {{
    let s: &Section = $s;
    let eps = $F::EPSILON as f64; let fname = stringify!($F);
    let dirs = unit_dirs(s.thorough());
    // rotation angles beyond pi give w < 0, i.e. both signs of every rotation occur and so does the sign-flip branch
    let angs: Vec<f64> = if s.thorough() { vec![0.3, 0.7, 1.9, 2.3, 3.9, 4.4, 5.5, 6.0] } else { vec![0.7, 2.3, 3.9, 5.5] };
    let mut qs: Vec<Quaternion<$F>> = Vec::new();
    for a in &dirs { for &ang in &angs { let (sh, ch) = ((ang / 2.0).sin(), (ang / 2.0).cos()); qs.push(Quaternion { x: (a[0] * sh) as $F, y: (a[1] * sh) as $F, z: (a[2] * sh) as $F, w: ch as $F }); } }
    let arr = |r: Quaternion<$F>| -> [f64; 4] { [r.x as f64, r.y as f64, r.z as f64, r.w as f64] };
    let bits = |r: Quaternion<$F>| [r.x.to_bits(), r.y.to_bits(), r.z.to_bits(), r.w.to_bits()];
    let dot4 = |p: [f64; 4], q: [f64; 4]| p[0] * q[0] + p[1] * q[1] + p[2] * q[2] + p[3] * q[3];
    let near = |p: [f64; 4], q: [f64; 4], t: f64| (0..4).all(|i| (p[i] - q[i]).abs() <= t);
    let facs: [f64; 11] = [-0.5, -0.25, 0.0, 0.1, 0.25, 0.5, 0.7, 0.75, 1.0, 1.25, 1.5];
    let (mut n_flip, mut n_direct, mut n_nlerp, mut n_nonunit, mut n_arc, mut evals) = (0u64, 0u64, 0u64, 0u64, 0u64, 0u64);
    for (ia, &a) in qs.iter().enumerate() { for (ib, &b) in qs.iter().enumerate() { for &f64f in &facs {
        let f = f64f as $F; let ff = f as f64;
        let fc: $F = if f < 0.0 { 0.0 } else if f > 1.0 { 1.0 } else { f };
        let (aa, ba) = (arr(a), arr(b));
        let inp = || json!({"from": aa, "to": ba, "factor": ff});
        // ---- nlerp: the result is the component interpolation scaled to unit length (also for non-unit inputs)
        for (sa, sb) in [(1.0 as $F, 1.0 as $F), (3.0, 0.25)] {
            let (a2, b2) = (Quaternion { x: a.x * sa, y: a.y * sa, z: a.z * sa, w: a.w * sa }, Quaternion { x: b.x * sb, y: b.y * sb, z: b.z * sb, w: b.w * sb });
            let (p, q) = (arr(a2), arr(b2));
            for clamped in [false, true] {
                let t = if clamped { fc as f64 } else { ff };
                let l = [p[0] + t * (q[0] - p[0]), p[1] + t * (q[1] - p[1]), p[2] + t * (q[2] - p[2]), p[3] + t * (q[3] - p[3])];
                let nl = dot4(l, l).sqrt(); let mag = dot4(p, p).sqrt().max(dot4(q, q).sqrt());
                if nl < 0.05 * mag { continue; }   // the interpolated components pass near zero: no direction to normalize
                let want = [l[0] / nl, l[1] / nl, l[2] / nl, l[3] / nl];
                let tol = 64.0 * eps * (1.0 + t.abs()) * mag / nl;
                let forms: Vec<(&str, Quaternion<$F>)> = if clamped { vec![
                    ("Lerp::lerp", <Quaternion<$F> as Lerp<$F>>::lerp(a2, b2, f)), ("Lerp::lerp_precise", <Quaternion<$F> as Lerp<$F>>::lerp_precise(a2, b2, f)),
                    ("&Lerp::lerp", <&Quaternion<$F> as Lerp<$F>>::lerp(&a2, &b2, f)), ("&Lerp::lerp_precise", <&Quaternion<$F> as Lerp<$F>>::lerp_precise(&a2, &b2, f)),
                    ("Lerp::lerp_inclusive_range", <Quaternion<$F> as Lerp<$F>>::lerp_inclusive_range(a2..=b2, f)), ("&Lerp::lerp_precise_inclusive_range", <&Quaternion<$F> as Lerp<$F>>::lerp_precise_inclusive_range(&a2..=&b2, f)),
                ] } else { vec![
                    ("Lerp::lerp_unclamped", <Quaternion<$F> as Lerp<$F>>::lerp_unclamped(a2, b2, f)), ("Lerp::lerp_unclamped_precise", <Quaternion<$F> as Lerp<$F>>::lerp_unclamped_precise(a2, b2, f)),
                    ("&Lerp::lerp_unclamped", <&Quaternion<$F> as Lerp<$F>>::lerp_unclamped(&a2, &b2, f)), ("&Lerp::lerp_unclamped_precise", <&Quaternion<$F> as Lerp<$F>>::lerp_unclamped_precise(&a2, &b2, f)),
                    ("Lerp::lerp_unclamped_inclusive_range", <Quaternion<$F> as Lerp<$F>>::lerp_unclamped_inclusive_range(a2..=b2, f)), ("&Lerp::lerp_unclamped_precise_inclusive_range", <&Quaternion<$F> as Lerp<$F>>::lerp_unclamped_precise_inclusive_range(&a2..=&b2, f)),
                ] };
                for (name, r) in forms {
                    evals += 1; n_nlerp += 1; if sa != 1.0 { n_nonunit += 1; }
                    let g = arr(r);
                    let site = format!("{} for Quaternion<{}>", name, fname);
                    if !((dot4(g, g).sqrt() - 1.0).abs() <= 64.0 * eps) { s.violation(&site, "not-unit", json!({"from": p, "to": q, "factor": ff, "norm": dot4(g, g).sqrt()})); }
                    if !near(g, want, tol) { s.violation(&site, "not-the-normalized-component-interpolation", json!({"from": p, "to": q, "factor": ff, "got": g, "want": want, "tolerance": tol})); }
                }
            }
        }
        // ---- slerp of unit quaternions
        let r = Quaternion::slerp_unclamped(a, b, f);
        let rc = Quaternion::slerp_unclamped(a, b, fc);
        let forms: [(&str, Quaternion<$F>, Quaternion<$F>); 5] = [
            ("Slerp::slerp_unclamped for Quaternion", <Quaternion<$F> as Slerp<$F>>::slerp_unclamped(a, b, f), r),
            ("Slerp::slerp_unclamped for &Quaternion", <&Quaternion<$F> as Slerp<$F>>::slerp_unclamped(&a, &b, f), r),
            ("Quaternion::slerp", Quaternion::slerp(a, b, f), rc),
            ("Slerp::slerp for Quaternion", <Quaternion<$F> as Slerp<$F>>::slerp(a, b, f), rc),
            ("Slerp::slerp for &Quaternion", <&Quaternion<$F> as Slerp<$F>>::slerp(&a, &b, f), rc),
        ];
        for (name, g, base) in forms { evals += 1; if bits(g) != bits(base) { s.violation(&format!("{}<{}>", name, fname), "differs-from-slerp_unclamped-at-the-(clamped)-factor", json!({"input": inp(), "got": arr(g), "slerp_unclamped": arr(base)})); } }
        evals += 1;
        let c = dot4(aa, ba);
        if c.abs() < 1e-6 { continue; }               // both arcs equally short: the property leaves the choice open
        let sg = if c < 0.0 { n_flip += 1; -1.0 } else { n_direct += 1; 1.0 };
        let bs = [sg * ba[0], sg * ba[1], sg * ba[2], sg * ba[3]];
        let u = [bs[0] - c.abs() * aa[0], bs[1] - c.abs() * aa[1], bs[2] - c.abs() * aa[2], bs[3] - c.abs() * aa[3]];
        let su = dot4(u, u).sqrt();
        let g = arr(r);
        let site = format!("Quaternion::slerp_unclamped<{}>", fname);
        if su < 1e-3 {
            // (nearly) the same rotation: every factor gives that rotation
            if ia == ib && !near(g, aa, 64.0 * eps) { s.violation(&site, "from==to-not-fixed", inp()); }
            continue;
        }
        let theta = su.atan2(c.abs());
        let tol = 256.0 * eps * (1.0 + ff.abs()) * 4.0 / su;
        let e2 = [u[0] / su, u[1] / su, u[2] / su, u[3] / su];
        let (sn, cs) = ((ff * theta).sin(), (ff * theta).cos());
        let want = [cs * aa[0] + sn * e2[0], cs * aa[1] + sn * e2[1], cs * aa[2] + sn * e2[2], cs * aa[3] + sn * e2[3]];
        n_arc += 1;
        if !((dot4(g, g).sqrt() - 1.0).abs() <= tol) { s.violation(&site, "not-unit", json!({"input": inp(), "norm": dot4(g, g).sqrt(), "tolerance": tol})); }
        if !near(g, want, tol) { s.violation(&site, "not-on-the-shorter-great-arc-at-constant-angular-speed", json!({"input": inp(), "got": g, "want": want, "tolerance": tol, "arc_angle": theta})); }
        if s.wants_sample() && ia + 3 == ib && f64f == 0.25 { s.sample(json!({"input": inp(), "slerp": g, "gram_schmidt_reference": want})); }
    } } }
    s.evals(evals, evals);
    s.class_n("sign-flip-branch (dot < 0)", n_flip); s.class_n("direct-branch (dot > 0)", n_direct); s.class_n("nlerp-direction", n_nlerp); s.class_n("nlerp-of-non-unit-inputs", n_nonunit); s.class_n("general-pair-on-the-arc", n_arc);
}} }

// ---- Transform with inexact endpoints, mixed element types, clamped and range forms -------------------------
macro_rules! transform_more { ($s:expr, $P:ty, $O:ident, $S:ty, $Fac:ident, $mkp:expr, $mks:expr, $label:expr) => {{
    let s: &Section = $s;
    let label: &str = $label;
    let axes: [[f64; 3]; 4] = [[1.0 / 3.0, 2.0 / 3.0, 2.0 / 3.0], [2.0 / 7.0, -3.0 / 7.0, 6.0 / 7.0], [0.0, 0.6, 0.8], [1.0, 0.0, 0.0]];
    let mk = |i: usize| -> Transform<$P, $O, $S> {
        let a = 0.37 + i as f64 * 0.83; let ax = axes[i % 4]; let sg = if i % 3 == 2 { -1.0 } else { 1.0 };
        let (sh, ch) = ((a / 2.0).sin() * sg, (a / 2.0).cos() * sg);
        Transform { position: ($mkp)(i), orientation: Quaternion { x: (ax[0] * sh) as $O, y: (ax[1] * sh) as $O, z: (ax[2] * sh) as $O, w: ch as $O }, scale: ($mks)(i) }
    };
    let mut facs: Vec<$Fac> = vec![-0.4, 0.0, 0.3, 0.5, 0.7, 1.0, 1.6, 1.0 / 3.0];
    let nt = if s.thorough() { for k in -7i32..=21 { if k % 7 != 0 { facs.push(k as $Fac / 7.0); } } 8 } else { 7 };
    let (mut differ, mut flips, mut evals) = (0u64, 0u64, 0u64);
    for i in 0..nt { for j in 0..nt { for &t in &facs {
        let (a, b) = (mk(i), mk(j));
        let tc: $Fac = if t < 0.0 { 0.0 } else if t > 1.0 { 1.0 } else { t };
        let lanes_p = |t: $Fac, precise: bool| -> [$P; 3] { let l = |x: $P, y: $P| if precise { <$P as Lerp<$Fac>>::lerp_unclamped_precise(x, y, t) } else { <$P as Lerp<$Fac>>::lerp_unclamped(x, y, t) }; [l(a.position.x, b.position.x), l(a.position.y, b.position.y), l(a.position.z, b.position.z)] };
        let lanes_s = |t: $Fac, precise: bool| -> [$S; 3] { let l = |x: $S, y: $S| if precise { <$S as Lerp<$Fac>>::lerp_unclamped_precise(x, y, t) } else { <$S as Lerp<$Fac>>::lerp_unclamped(x, y, t) }; [l(a.scale.x, b.scale.x), l(a.scale.y, b.scale.y), l(a.scale.z, b.scale.z)] };
        let so = |t: $Fac| { let r = Quaternion::slerp_unclamped(a.orientation, b.orientation, t as $O); [r.x, r.y, r.z, r.w] };
        if lanes_p(t, false) != lanes_p(t, true) || lanes_s(t, false) != lanes_s(t, true) { differ += 1; }
        let dotab = a.orientation.x * b.orientation.x + a.orientation.y * b.orientation.y + a.orientation.z * b.orientation.z + a.orientation.w * b.orientation.w;
        if dotab < 0.0 { flips += 1; }
        type TT = Transform<$P, $O, $S>;
        let cases: Vec<(&str, TT, bool, bool)> = vec![
            ("Lerp::lerp_unclamped for Transform", <TT as Lerp<$Fac>>::lerp_unclamped(a, b, t), false, false),
            ("Lerp::lerp_unclamped_precise for Transform", <TT as Lerp<$Fac>>::lerp_unclamped_precise(a, b, t), true, false),
            ("Lerp::lerp_unclamped for &Transform", <&TT as Lerp<$Fac>>::lerp_unclamped(&a, &b, t), false, false),
            ("Lerp::lerp_unclamped_precise for &Transform", <&TT as Lerp<$Fac>>::lerp_unclamped_precise(&a, &b, t), true, false),
            ("Lerp::lerp for Transform", <TT as Lerp<$Fac>>::lerp(a, b, t), false, true),
            ("Lerp::lerp_precise for Transform", <TT as Lerp<$Fac>>::lerp_precise(a, b, t), true, true),
            ("Lerp::lerp for &Transform", <&TT as Lerp<$Fac>>::lerp(&a, &b, t), false, true),
            ("Lerp::lerp_precise for &Transform", <&TT as Lerp<$Fac>>::lerp_precise(&a, &b, t), true, true),
            ("Lerp::lerp_unclamped_inclusive_range for Transform", <TT as Lerp<$Fac>>::lerp_unclamped_inclusive_range(a..=b, t), false, false),
            ("Lerp::lerp_unclamped_precise_inclusive_range for Transform", <TT as Lerp<$Fac>>::lerp_unclamped_precise_inclusive_range(a..=b, t), true, false),
            ("Lerp::lerp_inclusive_range for &Transform", <&TT as Lerp<$Fac>>::lerp_inclusive_range(&a..=&b, t), false, true),
            ("Lerp::lerp_precise_inclusive_range for &Transform", <&TT as Lerp<$Fac>>::lerp_precise_inclusive_range(&a..=&b, t), true, true),
        ];
        for (name, r, precise, clamped) in cases {
            evals += 1;
            let tt = if clamped { tc } else { t };
            let site = format!("{} [{}]", name, label);
            let d = || json!({"i": i, "j": j, "t": t as f64, "got_position": format!("{:?}", r.position), "got_scale": format!("{:?}", r.scale), "got_orientation": format!("{:?}", r.orientation)});
            if [r.position.x, r.position.y, r.position.z] != lanes_p(tt, precise) { s.violation(&site, "position-is-not-the-lerp-of-positions", d()); }
            if [r.scale.x, r.scale.y, r.scale.z] != lanes_s(tt, precise) { s.violation(&site, "scale-is-not-the-lerp-of-scales", d()); }
            if [r.orientation.x, r.orientation.y, r.orientation.z, r.orientation.w] != so(tt) { s.violation(&site, "orientation-is-not-the-slerp-of-orientations", d()); }
            // the endpoints themselves, independent of the part functions
            let eo = 64.0 * ($O::EPSILON as f64);
            let qn = |q: Quaternion<$O>, sg: f64| (r.orientation.x as f64 - sg * q.x as f64).abs() <= eo && (r.orientation.y as f64 - sg * q.y as f64).abs() <= eo && (r.orientation.z as f64 - sg * q.z as f64).abs() <= eo && (r.orientation.w as f64 - sg * q.w as f64).abs() <= eo;
            if tt == 0.0 && (r.position != a.position || r.scale != a.scale || !qn(a.orientation, 1.0)) { s.violation(&site, "factor-0-is-not-from", d()); }
            if tt == 1.0 && ((precise && (r.position != b.position || r.scale != b.scale)) || !(qn(b.orientation, 1.0) || qn(b.orientation, -1.0))) { s.violation(&site, "factor-1-is-not-to", d()); }
        }
    } } }
    s.evals(evals, evals); s.class_n(&format!("fast!=precise [{}]", label), differ); s.class_n("orientations-in-opposite-hemispheres", flips); s.class(label);
}} }

// ---- Transition: distinguishing inputs, sequences of progress updates ---------------------------------------
macro_rules! transition_more { ($s:expr, $T:ty, $P:ident, $a:expr, $b:expr, $label:expr, $acc:expr) => {{
    let s: &Section = $s;
    fn sq(x: $P) -> $P { x * x }
    fn inv(x: $P) -> $P { 1.0 - x }
    fn smooth(x: $P) -> $P { x * x * (3.0 - 2.0 * x) }
    fn ident(x: $P) -> $P { x }
    let (a, b): ($T, $T) = ($a, $b);
    let mut ps: Vec<$P> = vec![-0.5, 0.0, 0.3, 0.25, 0.7, 1.0, 1.5, 1.0 / 3.0, 0.9];
    if s.thorough() { for k in -11i32..=33 { ps.push(((k * 7) % 45) as $P / 22.0); } }
    for (mname, mf) in [("x^2", sq as fn($P) -> $P), ("1-x", inv as fn($P) -> $P), ("3x^2-2x^3", smooth as fn($P) -> $P), ("x", ident as fn($P) -> $P)] {
        // one transition object driven through the whole progress sequence (the by-reference accessors must not disturb it)
        let mut t = Transition::<$T, ProgressMapperFn<$P>, $P>::with_mapper(a, b, ProgressMapperFn(mf));
        for &p in &ps {
            t.progress = p;
            let m = mf(p);
            let site = |n: &str| format!("Transition<{}, mapper {}>::{}", $label, mname, n);
            let (wl, wu, wlp, wup) = (<$T as Lerp<$P>>::lerp(a, b, m), <$T as Lerp<$P>>::lerp_unclamped(a, b, m), <$T as Lerp<$P>>::lerp_precise(a, b, m), <$T as Lerp<$P>>::lerp_unclamped_precise(a, b, m));
            if wu != wup { $acc.0 += 1; } if wl != wu { $acc.1 += 1; }
            let d = || json!({"progress": p as f64, "mapped": m as f64, "start": format!("{:?}", a), "end": format!("{:?}", b)});
            $acc.2 += 8;
            if t.current() != wl { s.violation(&site("current"), "not-the-lerp-at-mapped-progress", d()); }
            if t.current_unclamped() != wu { s.violation(&site("current_unclamped"), "not-the-lerp-at-mapped-progress", d()); }
            if t.current_precise() != wlp { s.violation(&site("current_precise"), "not-the-lerp-at-mapped-progress", d()); }
            if t.current_unclamped_precise() != wup { s.violation(&site("current_unclamped_precise"), "not-the-lerp-at-mapped-progress", d()); }
            if t.start != a || t.end != b || t.progress != p { s.violation(&site("current*"), "accessor-changed-the-transition", d()); }
            if t.into_current() != wl { s.violation(&site("into_current"), "not-the-lerp-at-mapped-progress", d()); }
            if t.into_current_unclamped() != wu { s.violation(&site("into_current_unclamped"), "not-the-lerp-at-mapped-progress", d()); }
            if t.into_current_precise() != wlp { s.violation(&site("into_current_precise"), "not-the-lerp-at-mapped-progress", d()); }
            if t.into_current_unclamped_precise() != wup { s.violation(&site("into_current_unclamped_precise"), "not-the-lerp-at-mapped-progress", d()); }
        }
    }
    // linear transition: the progress is the factor
    for &p in &ps {
        let lt = LinearTransition::<$T, $P>::with_progress(a, b, p);
        $acc.2 += 4;
        let site = |n: &str| format!("LinearTransition<{}>::{}", $label, n);
        if lt.current() != <$T as Lerp<$P>>::lerp(a, b, p) { s.violation(&site("current"), "not-the-lerp-at-progress", json!({"progress": p as f64})); }
        if lt.current_unclamped_precise() != <$T as Lerp<$P>>::lerp_unclamped_precise(a, b, p) { s.violation(&site("current_unclamped_precise"), "not-the-lerp-at-progress", json!({"progress": p as f64})); }
        if lt.into_current_precise() != <$T as Lerp<$P>>::lerp_precise(a, b, p) { s.violation(&site("into_current_precise"), "not-the-lerp-at-progress", json!({"progress": p as f64})); }
        if lt.into_current_unclamped() != <$T as Lerp<$P>>::lerp_unclamped(a, b, p) { s.violation(&site("into_current_unclamped"), "not-the-lerp-at-progress", json!({"progress": p as f64})); }
    }
}} }


// =====================================================================================================
// (added by the second-pass audit, out/AUDIT2.md) helpers
// =====================================================================================================
fn two_prod(a: f64, b: f64) -> (f64, f64) { let p = a * b; (p, a.mul_add(b, -p)) }
fn two_sum(a: f64, b: f64) -> (f64, f64) { let s = a + b; let bb = s - a; (s, (a - (s - bb)) + (b - bb)) }
/// dot product of two 4-vectors as an unevaluated sum hi + lo (error ~ eps^2: exact for all purposes here)
fn dot4_dd(p: [f64; 4], q: [f64; 4]) -> (f64, f64) {
    let (mut hi, mut lo) = (0.0f64, 0.0f64);
    for i in 0..4 { let (pr, pe) = two_prod(p[i], q[i]); let (sm, se) = two_sum(hi, pr); hi = sm; lo += pe + se; }
    two_sum(hi, lo)
}
/// |v| - 1 for a 4-vector whose length is close to 1, without the rounding error of the measurement
fn norm_minus_one(g: [f64; 4]) -> f64 { let (hi, lo) = dot4_dd(g, g); let d = (hi - 1.0) + lo; d / (1.0 + (1.0 + d).sqrt()) }

// ---- quaternion slerp / nlerp on a ladder of arc lengths: next to the near-parallel threshold, narrow, nearly orthogonal ----
macro_rules! quat_narrow { ($s:expr, $F:ident) => {{
    let s: &Section = $s;
    let eps = $F::EPSILON as f64; let fname = stringify!($F);
    let is32 = std::mem::size_of::<$F>() == 4;
    let raw: [[f64; 4]; 7] = [[0.0, 0.0, 0.0, 1.0], [1.0, 0.0, 0.0, 0.0], [0.1, -0.5, 0.3, 0.8], [-0.7, 0.1, 0.1, -0.7], [0.5, 0.5, -0.5, 0.5], [0.02, 0.9, -0.3, 0.05], [-0.3, -0.2, 0.6, -0.4]];
    let seeds: [[f64; 4]; 3] = [[0.0, 1.0, 0.0, 0.0], [0.3, -0.4, 0.8, 0.2], [0.0, 0.0, 1.0, 0.0]];
    let d4 = |p: [f64; 4], q: [f64; 4]| p[0] * q[0] + p[1] * q[1] + p[2] * q[2] + p[3] * q[3];
    let unit = |p: [f64; 4]| { let n = d4(p, p).sqrt(); [p[0] / n, p[1] / n, p[2] / n, p[3] / n] };
    // arc lengths (angle between the two unit quaternions in R^4): the fallback threshold is cos > 1 - eps, i.e. angle < sqrt(2 eps)
    // = 2.1e-8 (f64) / 4.9e-4 (f32); the f32 threshold is part of the f64 ladder (a constant typed with f32 precision)
    let thr = (2.0 * eps).sqrt();
    let mut angs: Vec<f64> = vec![0.5, 0.2, 0.1, 0.0316, 0.03, 0.01, 3e-3, 1.9e-3, 1.8e-3, 1e-3, 7e-4, 5e-4, 4.9e-4, 4.8e-4, 4e-4, 3e-4, 1e-4, 3e-5, 1e-5, 1e-6, 0.0,
        thr * 4.0, thr * 2.0, thr * 1.5, thr * 1.1, thr * 1.01, thr, thr * 0.99, thr * 0.9, thr * 0.5, thr * 0.1];
    if !is32 { angs.extend([1e-7, 1e-9, 1e-12]); }
    let hp = std::f64::consts::FRAC_PI_2;
    for d in [1e-1, 1e-2, 1e-3, 1e-4, 1e-6, 1e-9, 1e-12] { angs.push(hp - d); angs.push(hp + d); }
    angs.extend([1.0, 1.3, 1.9, 2.6, 3.0]);
    let mut facs: Vec<f64> = vec![-0.5, 0.0, 0.1, 0.25, 0.5, 0.75, 0.9, 1.0, 1.5, 2.0];
    if s.thorough() {
        for i in 1..=40 { angs.push(thr * 0.1 * i as f64); }                                               // a fine sweep across the threshold
        for k in 1..=13 { for m in [1.0, 2.0, 5.0] { let v = m * 10f64.powi(-k); if v < 3.1 { angs.push(v); angs.push(hp - v); angs.push(hp + v); } } }
        facs.extend([-1.0, 0.01, 1.0 / 3.0, 0.99, 1.25, 3.0]);
    }
    let arr = |r: Quaternion<$F>| -> [f64; 4] { [r.x as f64, r.y as f64, r.z as f64, r.w as f64] };
    let bits = |r: Quaternion<$F>| [r.x.to_bits(), r.y.to_bits(), r.z.to_bits(), r.w.to_bits()];
    let near = |p: [f64; 4], q: [f64; 4], t: f64| (0..4).all(|i| (p[i] - q[i]).abs() <= t);
    let (mut n_fb, mut n_thr, mut n_narrow, mut n_orth, mut n_wide, mut n_skip, mut n_nl, mut evals) = (0u64, 0u64, 0u64, 0u64, 0u64, 0u64, 0u64, 0u64);
    for r in &raw { let a0 = unit(*r); for sd in &seeds {
        let k = d4(*sd, a0); let e0 = [sd[0] - k * a0[0], sd[1] - k * a0[1], sd[2] - k * a0[2], sd[3] - k * a0[3]];
        if d4(e0, e0).sqrt() < 0.1 { continue; }
        let e0 = unit(e0);
        for &ang in &angs { for sign in [1.0f64, -1.0] {
            let (sn, cs) = ang.sin_cos();
            let a = Quaternion { x: a0[0] as $F, y: a0[1] as $F, z: a0[2] as $F, w: a0[3] as $F };
            let b = Quaternion { x: (sign * (cs * a0[0] + sn * e0[0])) as $F, y: (sign * (cs * a0[1] + sn * e0[1])) as $F, z: (sign * (cs * a0[2] + sn * e0[2])) as $F, w: (sign * (cs * a0[3] + sn * e0[3])) as $F };
            let (aa, ba) = (arr(a), arr(b));
            // reference from the actual (rounded) inputs: compensated dot, Gram-Schmidt with one rounding per component
            let (chi, clo) = dot4_dd(aa, ba); let c = chi + clo;
            if c.abs() <= 64.0 * eps { n_skip += 1; continue; }      // the sign of the dot product is within rounding of zero: both arcs equally short
            let sg = if c < 0.0 { -1.0 } else { 1.0 };
            let bs = [sg * ba[0], sg * ba[1], sg * ba[2], sg * ba[3]];
            let u: Vec<f64> = (0..4).map(|i| (-(sg * chi)).mul_add(aa[i], bs[i]) - sg * clo * aa[i]).collect();
            let u = [u[0], u[1], u[2], u[3]];
            let su = d4(u, u).sqrt();
            let theta = su.atan2(c.abs());
            if theta < thr * 0.95 { n_fb += 1; } else if theta <= thr * 4.0 { n_thr += 1; } else if theta < 0.05 { n_narrow += 1; } else if (theta - hp).abs() < 0.2 { n_orth += 1; } else { n_wide += 1; }
            for &ff in &facs {
                let f = ff as $F; let fc: $F = if f < 0.0 { 0.0 } else if f > 1.0 { 1.0 } else { f }; let ff = f as f64;
                let inp = || json!({"from": aa, "to": ba, "factor": ff, "arc_angle": theta});
                let want = if su == 0.0 { aa } else { let (s1, c1) = (ff * theta).sin_cos(); [c1 * aa[0] + s1 * u[0] / su, c1 * aa[1] + s1 * u[1] / su, c1 * aa[2] + s1 * u[2] / su, c1 * aa[3] + s1 * u[3] / su] };
                // forward bound: coefficients sin(x theta)/sin(theta) are insensitive to the error of theta = acos(dot) (relative
                // derivative f(1-f^2) theta/3 against an absolute error eps/theta), every other operation errs by <= 1 ulp of O(1+|f|) terms
                let tol = 64.0 * eps * (1.0 + ff.abs()) * (1.0 + ff.abs());
                let r = Quaternion::slerp_unclamped(a, b, f);
                let g = arr(r);
                let site = format!("Quaternion::slerp_unclamped<{}>", fname);
                evals += 2;
                if !(norm_minus_one(g).abs() <= tol) { s.violation_w(&site, "not-unit(narrow/threshold/orthogonal arc ladder)", json!({"input": inp(), "got": g, "norm_minus_1": norm_minus_one(g), "tolerance": tol}), (theta * 1e6) as u64); }
                if !near(g, want, tol) { s.violation_w(&site, "not-on-the-shorter-great-arc-at-constant-angular-speed(arc ladder)", json!({"input": inp(), "got": g, "want": want, "tolerance": tol}), (theta * 1e6) as u64); }
                let rc = Quaternion::slerp_unclamped(a, b, fc);
                for (name, got, base) in [("Slerp::slerp_unclamped for Quaternion", <Quaternion<$F> as Slerp<$F>>::slerp_unclamped(a, b, f), r), ("Slerp::slerp_unclamped for &Quaternion", <&Quaternion<$F> as Slerp<$F>>::slerp_unclamped(&a, &b, f), r),
                                          ("Quaternion::slerp", Quaternion::slerp(a, b, f), rc), ("Slerp::slerp for &Quaternion", <&Quaternion<$F> as Slerp<$F>>::slerp(&a, &b, f), rc)] {
                    evals += 1;
                    if bits(got) != bits(base) { s.violation(&format!("{}<{}>", name, fname), "differs-from-slerp_unclamped-at-the-(clamped)-factor", json!({"input": inp(), "got": arr(got), "slerp_unclamped": arr(base)})); }
                }
                // nlerp on the same pair: direction of the component interpolation, unit within the bound of x / sqrt(x.x)
                // (4 products + 3 additions: 4u, sqrt: halves + u, division: u => |norm - 1| <= 4u = 2 eps; asserted at 3 eps)
                for clamped in [false, true] {
                    let t = if clamped { fc as f64 } else { ff };
                    let l = [aa[0] + t * (ba[0] - aa[0]), aa[1] + t * (ba[1] - aa[1]), aa[2] + t * (ba[2] - aa[2]), aa[3] + t * (ba[3] - aa[3])];
                    let nl = d4(l, l).sqrt();
                    if nl < 0.05 { continue; }
                    let wantn = [l[0] / nl, l[1] / nl, l[2] / nl, l[3] / nl];
                    let toln = 16.0 * eps * (1.0 + t.abs()) / nl;
                    let forms: [(&str, Quaternion<$F>); 4] = if clamped { [
                        ("Lerp::lerp", <Quaternion<$F> as Lerp<$F>>::lerp(a, b, f)), ("Lerp::lerp_precise", <Quaternion<$F> as Lerp<$F>>::lerp_precise(a, b, f)),
                        ("&Lerp::lerp", <&Quaternion<$F> as Lerp<$F>>::lerp(&a, &b, f)), ("&Lerp::lerp_precise", <&Quaternion<$F> as Lerp<$F>>::lerp_precise(&a, &b, f)) ] } else { [
                        ("Lerp::lerp_unclamped", <Quaternion<$F> as Lerp<$F>>::lerp_unclamped(a, b, f)), ("Lerp::lerp_unclamped_precise", <Quaternion<$F> as Lerp<$F>>::lerp_unclamped_precise(a, b, f)),
                        ("&Lerp::lerp_unclamped", <&Quaternion<$F> as Lerp<$F>>::lerp_unclamped(&a, &b, f)), ("&Lerp::lerp_unclamped_precise", <&Quaternion<$F> as Lerp<$F>>::lerp_unclamped_precise(&a, &b, f)) ] };
                    for (name, got) in forms {
                        evals += 1; n_nl += 1;
                        let gn = arr(got); let site = format!("{} for Quaternion<{}>", name, fname);
                        if !(norm_minus_one(gn).abs() <= 3.0 * eps) { s.violation_w(&site, "not-unit-within-the-bound-of-x/|x|", json!({"input": inp(), "got": gn, "norm_minus_1": norm_minus_one(gn), "bound": 3.0 * eps}), (theta * 1e6) as u64); }
                        if !near(gn, wantn, toln) { s.violation_w(&site, "not-the-normalized-component-interpolation(arc ladder)", json!({"input": inp(), "got": gn, "want": wantn, "tolerance": toln}), (theta * 1e6) as u64); }
                    }
                }
            }
        } }
    } }
    s.evals(evals, evals);
    s.class_n("arc below the fallback threshold", n_fb); s.class_n("arc within [0.95, 4] x threshold", n_thr); s.class_n("narrow arc (threshold x4 .. 0.05)", n_narrow);
    s.class_n("nearly orthogonal pair (dot next to 0, both signs)", n_orth); s.class_n("ordinary arc", n_wide); s.class_n("skipped: |dot| <= 64 eps", n_skip); s.class_n("nlerp on the ladder", n_nl);
}} }

// ---- nlerp / unnormalized lerp: power-of-two scaling is exact, mixed magnitudes tell the precise formula from the fast one ----
macro_rules! quat_scale { ($s:expr, $F:ident, $exps:expr) => {{
    let s: &Section = $s;
    let fname = stringify!($F); let eps = $F::EPSILON as f64;
    let raw: [[f64; 4]; 6] = [[0.0, 0.0, 0.0, 1.0], [0.1, -0.5, 0.3, 0.8], [-0.7, 0.1, 0.1, -0.7], [0.5, 0.5, -0.5, 0.5], [0.02, 0.9, -0.3, 0.05], [-0.3, -0.2, 0.6, 0.4]];
    let qs: Vec<Quaternion<$F>> = raw.iter().map(|r| { let n = (r[0] * r[0] + r[1] * r[1] + r[2] * r[2] + r[3] * r[3]).sqrt(); Quaternion { x: (r[0] / n) as $F, y: (r[1] / n) as $F, z: (r[2] / n) as $F, w: (r[3] / n) as $F } }).collect();
    let arr = |r: Quaternion<$F>| -> [f64; 4] { [r.x as f64, r.y as f64, r.z as f64, r.w as f64] };
    let bits = |r: Quaternion<$F>| [r.x.to_bits(), r.y.to_bits(), r.z.to_bits(), r.w.to_bits()];
    let sc = |q: Quaternion<$F>, k: $F| Quaternion { x: q.x * k, y: q.y * k, z: q.z * k, w: q.w * k };
    let facs: [$F; 7] = [-0.5, 0.0, 0.3, 0.5, 0.9, 1.0, 1.5];
    let exps: &[i32] = $exps;
    let (mut n_sc, mut n_mix, mut n_un) = (0u64, 0u64, 0u64);
    for (ia, &a) in qs.iter().enumerate() { for (ib, &b) in qs.iter().enumerate() {
        let d = { let (p, q) = (arr(a), arr(b)); p[0] * q[0] + p[1] * q[1] + p[2] * q[2] + p[3] * q[3] };
        for &f in &facs {
            type QF = Quaternion<$F>;
            let base: [(&str, fn(QF, QF, $F) -> QF, bool); 8] = [
                ("Lerp::lerp_unclamped for Quaternion", |a, b, f| <QF as Lerp<$F>>::lerp_unclamped(a, b, f), true), ("Lerp::lerp_unclamped_precise for Quaternion", |a, b, f| <QF as Lerp<$F>>::lerp_unclamped_precise(a, b, f), true),
                ("Lerp::lerp_unclamped for &Quaternion", |a, b, f| <&QF as Lerp<$F>>::lerp_unclamped(&a, &b, f), true), ("Lerp::lerp_unclamped_precise for &Quaternion", |a, b, f| <&QF as Lerp<$F>>::lerp_unclamped_precise(&a, &b, f), true),
                ("Quaternion::lerp_unclamped_unnormalized", |a, b, f| QF::lerp_unclamped_unnormalized(a, b, f), false), ("Quaternion::lerp_unclamped_precise_unnormalized", |a, b, f| QF::lerp_unclamped_precise_unnormalized(a, b, f), false),
                ("Quaternion::lerp_unnormalized", |a, b, f| QF::lerp_unnormalized(a, b, f), false), ("Quaternion::lerp_precise_unnormalized", |a, b, f| QF::lerp_precise_unnormalized(a, b, f), false),
            ];
            // (1) scaling both endpoints by 2^e scales every intermediate exactly: nlerp is unchanged bit for bit, the unnormalized forms scale
            let fa = f as f64; let lerped_len = (1.0 - 2.0 * fa * (1.0 - fa) * (1.0 - d)).max(0.0).sqrt();
            for &e in exps { let k = (2.0 as $F).powi(e);
                for (name, fun, normalized) in base.iter() {
                    if *normalized && lerped_len < 0.05 { continue; }
                    n_sc += 1;
                    let r0 = fun(a, b, f); let r1 = fun(sc(a, k), sc(b, k), f);
                    let want = if *normalized { r0 } else { sc(r0, k) };
                    if bits(r1) != bits(want) && !(arr(r1) == arr(want)) { s.violation_w(&format!("{}<{}>", name, fname), "not-invariant-under-scaling-both-endpoints-by-a-power-of-two", json!({"from": arr(a), "to": arr(b), "factor": f as f64, "scale": format!("2^{}", e), "got": arr(r1), "want": arr(want)}), e.unsigned_abs() as u64); }
                }
            }
            // (2) the unnormalized family on floats: exact ends, the clamped forms are the unclamped ones at the clamped factor
            let fc: $F = if f < 0.0 { 0.0 } else if f > 1.0 { 1.0 } else { f };
            for (name, fun, ufun, precise) in [("Quaternion::lerp_unclamped_unnormalized", base[4].1, base[4].1, false), ("Quaternion::lerp_unclamped_precise_unnormalized", base[5].1, base[5].1, true), ("Quaternion::lerp_unnormalized", base[6].1, base[4].1, false), ("Quaternion::lerp_precise_unnormalized", base[7].1, base[5].1, true)] {
                // endpoints of very different magnitude in every lane: `to` survives factor 1 only in the precise formula
                for (sa, sb) in [(1.0 as $F, 1.0 as $F), ((2.0 as $F).powi(40), (2.0 as $F).powi(-40)), ((2.0 as $F).powi(-40), (2.0 as $F).powi(40))] {
                    let (p, q) = (sc(a, sa), sc(b, sb)); n_un += 1;
                    let g = fun(p, q, f); let site = format!("{}<{}>", name, fname);
                    let inp = || json!({"from": arr(p), "to": arr(q), "factor": f as f64, "got": arr(g)});
                    if bits(g) != bits(ufun(p, q, fc)) && name.ends_with("_unnormalized") && !name.contains("unclamped") { s.violation(&site, "clamped-form-is-not-unclamped-of-clamped-factor", inp()); }
                    let ff = if name.contains("unclamped") { f } else { fc };
                    if ff == 0.0 && arr(g) != arr(p) { s.violation(&site, "endpoint-0-not-exact", inp()); }
                    if ff == 1.0 && precise && arr(g) != arr(q) { s.violation(&site, "endpoint-1-not-exact", inp()); }
                    let (pa, qa, ga) = (arr(p), arr(q), arr(g));
                    for i in 0..4 { if let Some(w) = exact_lerp(pa[i], qa[i], ff as f64) {
                        let tol = vx::fl::K * eps * pa[i].abs().max(qa[i].abs()) * (1.0 + (ff as f64).abs()) * 2.0;
                        if !((ga[i] - w).abs() <= tol) { s.violation(&site, "not-affine-within-error-bound", json!({"input": inp(), "lane": i, "want": w, "tolerance": tol})); }
                    } }
                }
            }
            // (3) nlerp of endpoints of very different magnitude (both squared lengths representable): the precise forms reach the
            //     direction of `to` at factor 1 (from*(1-1) + to*1 = to exactly); every form reaches the direction of `from` at 0
            if ia != ib { for (sa, sb) in [((2.0 as $F).powi(40), (2.0 as $F).powi(-40)), ((2.0 as $F).powi(-40), (2.0 as $F).powi(40))] {
                let (p, q) = (sc(a, sa), sc(b, sb));
                let near = |g: [f64; 4], w: [f64; 4]| (0..4).all(|i| (g[i] - w[i]).abs() <= 8.0 * eps);
                let forms: [(&str, QF, bool, bool); 8] = [
                    ("Lerp::lerp_unclamped for Quaternion", <QF as Lerp<$F>>::lerp_unclamped(p, q, f), false, false), ("Lerp::lerp_unclamped_precise for Quaternion", <QF as Lerp<$F>>::lerp_unclamped_precise(p, q, f), true, false),
                    ("Lerp::lerp_unclamped for &Quaternion", <&QF as Lerp<$F>>::lerp_unclamped(&p, &q, f), false, false), ("Lerp::lerp_unclamped_precise for &Quaternion", <&QF as Lerp<$F>>::lerp_unclamped_precise(&p, &q, f), true, false),
                    ("Lerp::lerp for Quaternion", <QF as Lerp<$F>>::lerp(p, q, f), false, true), ("Lerp::lerp_precise for Quaternion", <QF as Lerp<$F>>::lerp_precise(p, q, f), true, true),
                    ("Lerp::lerp for &Quaternion", <&QF as Lerp<$F>>::lerp(&p, &q, f), false, true), ("Lerp::lerp_precise for &Quaternion", <&QF as Lerp<$F>>::lerp_precise(&p, &q, f), true, true) ];
                for (name, g, precise, clamped) in forms {
                    let ff = if clamped { fc } else { f };
                    if ff == 0.0 { n_mix += 1; if !near(arr(g), arr(a)) { s.violation(&format!("{}<{}>", name, fname), "factor-0-is-not-the-direction-of-from(mixed magnitudes)", json!({"from": arr(p), "to": arr(q), "got": arr(g)})); } }
                    if ff == 1.0 && precise { n_mix += 1; if !near(arr(g), arr(b)) { s.violation(&format!("{}<{}>", name, fname), "precise-factor-1-is-not-the-direction-of-to(mixed magnitudes)", json!({"from": arr(p), "to": arr(q), "got": arr(g)})); } }
                }
            } }
        }
    } }
    s.evals(n_sc + n_mix + n_un, n_sc + n_mix + n_un);
    s.class_n("power-of-two scaling", n_sc); s.class_n("mixed-magnitude endpoints", n_mix); s.class_n("unnormalized family on floats", n_un);
}} }

// ---- float scalars and vectors: adjacent endpoints, factors next to 0 and 1 and far outside, power-of-two scaling ----
macro_rules! float_lerp_edges { ($s:expr, $F:ident, $mant:expr, $big:expr) => {{
    let s: &Section = $s;
    let eps = $F::EPSILON as f64; let u = eps / 2.0;
    let site = |n: &str| format!("Lerp<{0}>::{1} for {0}", stringify!($F), n);
    // (1) nearly equal endpoints: to = from stepped 1, 2, 3 and 4097 ulps up or down
    let xs: [$F; 9] = [1.0, -1.0, 0.1, 123.456, -7.3, 1.0e10, 1.0e-10, $F::MIN_POSITIVE * 8.0, $F::MAX / 4.0];
    let (mut n_adj, mut n_exact, mut n_fac, mut n_scale) = (0u64, 0u64, 0u64, 0u64);
    for &x in &xs { for steps in [1i32, 2, 3, 4097, -1, -2, -4097] {
        let mut y = x; for _ in 0..steps.abs() { y = if steps > 0 { y.next_up() } else { y.next_down() }; }
        for (a, b) in [(x, y), (y, x)] { for f in [0.0 as $F, 1.0, 2.0, -1.0, 3.0, 0.5, 0.25, 0.1, 0.9, 1.0 - $F::EPSILON] {
            n_adj += 1;
            let fast = <$F as Lerp<$F>>::lerp_unclamped(a, b, f); let prec = <$F as Lerp<$F>>::lerp_unclamped_precise(a, b, f);
            let inp = || json!({"from": a as f64, "to": b as f64, "ulps_apart": steps, "factor": f as f64, "fast": fast as f64, "precise": prec as f64});
            // exact value as a rational scaled by 1/from (power-of-two free: compare through differences, all exact in f64 for F = f32; for f64 use Q on the ulp lattice)
            let ulp = (x.next_up() - x).abs().min((x - x.next_down()).abs()) as f64;    // lattice step (exact power of two)
            let (ai, bi) = ((a as f64 - x as f64) / ulp, (b as f64 - x as f64) / ulp);       // exact small integers
            let fq = vx::fl::qf(f as f64);
            // value - x = (ai + f (bi - ai)) ulp ; representable iff x/ulp + that rational fits the significand
            let off = Q::int(ai as i128).add(fq.mul(Q::int((bi - ai) as i128)));
            let xi = vx::fl::qf(x as f64 / ulp);   // x on the lattice: an integer < 2^mant
            let val = xi.add(off);
            if fits(val, $mant) && fits(Q::ONE.sub(fq), $mant) && fits(xi.add(Q::int(ai as i128)).mul(Q::ONE.sub(fq)), $mant) && fits(xi.add(Q::int(bi as i128)).mul(fq), $mant) {
                // every intermediate of both formulas is representable: both must return the exact value
                n_exact += 1;
                let want = (val.to_f64() * ulp) as $F;
                if fast != want { s.violation(&site("lerp_unclamped"), "nearly-equal-endpoints-exact-case-wrong", json!({"input": inp(), "want": want as f64})); }
                if prec != want { s.violation(&site("lerp_unclamped_precise"), "nearly-equal-endpoints-exact-case-wrong", json!({"input": inp(), "want": want as f64})); }
            }
            // both ends exactly, also for the fast form: to - from is exact (Sterbenz) and from + (to - from) = to needs no rounding
            if f == 0.0 && (fast != a || prec != a) { s.violation(&site("lerp_unclamped*"), "endpoint-0-not-exact", inp()); }
            if f == 1.0 && (fast != b || prec != b) { s.violation(&site("lerp_unclamped*"), "endpoint-1-not-exact(nearly equal endpoints)", inp()); }
            // derived bound: fast = one rounding of the exact value; precise = three roundings of terms <= (|1-f| + |f|) max
            let want = (val.to_f64()) * ulp; let m = (a.abs() as f64).max(b.abs() as f64);
            if !(((fast as f64) - want).abs() <= 2.0 * u * m * (1.0 + (f.abs() as f64))) { s.violation(&site("lerp_unclamped"), "nearly-equal-endpoints-outside-one-rounding", json!({"input": inp(), "want": want})); }
            if !(((prec as f64) - want).abs() <= 8.0 * u * m * (1.0 + (f.abs() as f64))) { s.violation(&site("lerp_unclamped_precise"), "nearly-equal-endpoints-outside-three-roundings", json!({"input": inp(), "want": want})); }
        } }
    } }
    // (2) factors next to 0 and 1 and far outside: clamped forms return the ends exactly (precise) / the fast value at the clamped factor
    let ends: [$F; 8] = [0.1, -7.3, 123.456, 1.0 / 3.0, 0.0, -1.0e-3, 1.0e10, $F::MIN_POSITIVE * 8.0];
    let lo_f: [$F; 6] = [-0.0, -$F::MIN_POSITIVE, -$F::EPSILON, -1.0, -1.0e30, -$F::MAX];
    let hi_f: [$F; 5] = [(1.0 as $F).next_up(), 1.0 + 2.0 * $F::EPSILON, 2.0, 1.0e30, $F::MAX];
    let in_f: [$F; 5] = [$F::MIN_POSITIVE, $F::EPSILON, (1.0 as $F).next_down(), 0.5, (0.5 as $F).next_up()];
    for &a in &ends { for &b in &ends {
        let one = <$F as Lerp<$F>>::lerp_unclamped(a, b, 1.0);
        for &f in lo_f.iter().chain(hi_f.iter()).chain(in_f.iter()) {
            let cl: $F = if f < 0.0 { 0.0 } else if f > 1.0 { 1.0 } else { f };
            let (wf, wp) = if cl == 0.0 { (a, a) } else if cl == 1.0 { (one, b) } else { (<$F as Lerp<$F>>::lerp_unclamped(a, b, cl), <$F as Lerp<$F>>::lerp_unclamped_precise(a, b, cl)) };
            let inp = || json!({"from": a as f64, "to": b as f64, "factor": f as f64});
            for (n, g, w) in [("lerp", <$F as Lerp<$F>>::lerp(a, b, f), wf), ("lerp_precise", <$F as Lerp<$F>>::lerp_precise(a, b, f), wp), ("&lerp", <&$F as Lerp<$F>>::lerp(&a, &b, f), wf), ("&lerp_precise", <&$F as Lerp<$F>>::lerp_precise(&a, &b, f), wp),
                              ("lerp_inclusive_range", <$F as Lerp<$F>>::lerp_inclusive_range(a..=b, f), wf), ("&lerp_precise_inclusive_range", <&$F as Lerp<$F>>::lerp_precise_inclusive_range(&a..=&b, f), wp)] {
                n_fac += 1;
                if !(g == w) { s.violation(&site(n), "clamped-form-wrong-for-a-factor-next-to-or-far-outside-[0,1]", json!({"input": inp(), "got": g as f64, "want": w as f64})); }
            }
            // unclamped at a factor within one ulp of 0 or 1: exact value from rationals, one / three roundings
            if f.abs() <= 4.0 { if let Some(want) = exact_lerp(a as f64, b as f64, f as f64) {
                let m = (a.abs() as f64).max(b.abs() as f64) * (1.0 + (f.abs() as f64));
                for (n, g, k) in [("lerp_unclamped", <$F as Lerp<$F>>::lerp_unclamped(a, b, f), 4.0), ("lerp_unclamped_precise", <$F as Lerp<$F>>::lerp_unclamped_precise(a, b, f), 8.0)] {
                    n_fac += 1;
                    if !(((g as f64) - want).abs() <= k * u * m + ($F::MIN_POSITIVE as f64) * ($F::EPSILON as f64)) { s.violation(&site(n), "factor-next-to-0-or-1-outside-the-rounding-bound", json!({"input": inp(), "got": g as f64, "want": want})); }
                }
            } }
        }
    } }
    // (3) scaling both endpoints by 2^e scales the result exactly (no overflow / underflow in range): all four base forms
    let ends2: [$F; 8] = [0.1, -7.3, 123.456, 1.0 / 3.0, 0.0, -1.0e-3, 17.0, -0.6];
    let facs2: [$F; 8] = [0.0, 1.0, 0.1, 1.0 / 3.0, 0.9, -0.37, 1.63, $F::EPSILON];
    for &a in &ends2 { for &b in &ends2 { for &f in &facs2 { for e in [$big, -$big, 40, -40] {
        let k = (2.0 as $F).powi(e);
        for (n, g, w) in [("lerp_unclamped", <$F as Lerp<$F>>::lerp_unclamped(a * k, b * k, f), <$F as Lerp<$F>>::lerp_unclamped(a, b, f) * k), ("lerp_unclamped_precise", <$F as Lerp<$F>>::lerp_unclamped_precise(a * k, b * k, f), <$F as Lerp<$F>>::lerp_unclamped_precise(a, b, f) * k),
                          ("lerp", <$F as Lerp<$F>>::lerp(a * k, b * k, f), <$F as Lerp<$F>>::lerp(a, b, f) * k), ("&lerp_precise", <&$F as Lerp<$F>>::lerp_precise(&(a * k), &(b * k), f), <$F as Lerp<$F>>::lerp_precise(a, b, f) * k)] {
            n_scale += 1;
            if !(g == w) { s.violation_w(&site(n), "not-covariant-under-scaling-both-endpoints-by-a-power-of-two", json!({"from": a as f64, "to": b as f64, "factor": f as f64, "scale": format!("2^{}", e), "got": g as f64, "want": w as f64}), e.unsigned_abs() as u64); }
        }
    } } } }
    s.evals(n_adj * 2 + n_fac + n_scale, n_adj * 2 + n_fac + n_scale);
    s.class_n("nearly equal endpoints", n_adj); s.class_n("nearly equal endpoints, every intermediate exact", n_exact); s.class_n("factor next to 0/1 or far outside", n_fac); s.class_n("power-of-two scaling (scalars)", n_scale);
}} }

// vectors: special lanes (zero, equal ends, signed zero, one non-zero lane, mixed magnitudes) and power-of-two scaling through all forms
macro_rules! vec_lerp_edges { ($s:expr, $V:ident, $F:ident, $big:expr) => {{
    let s: &Section = $s;
    let n = <$V<$F> as VecN<$F>>::N; let name = <$V<$F> as VecN<$F>>::NAME; let fname = stringify!($F);
    let mkv = |e: &dyn Fn(usize) -> $F| -> $V<$F> { <$V<$F> as VecN<$F>>::from_elems((0..n).map(|i| e(i)).collect()) };
    let sp: [($F, $F); 12] = [(0.0, 0.0), (0.1, 0.1), (0.0, -7.3), (123.456, 0.0), (-0.0, 0.3), (1.0e20, 0.1), (0.1, -1.0e20), (1.0, (1.0 as $F).next_up()), (1.0e-20, 1.0e10), (-1.0, 1.0), (0.7, -0.7), (3.0, 3.0)];
    let facs: [$F; 7] = [-0.5, 0.0, 0.3, 1.0 / 3.0, 1.0, 1.5, 0.9];
    let cl = |x: $F| -> $F { if x < 0.0 { 0.0 } else if x > 1.0 { 1.0 } else { x } };
    let mut evals = 0u64;
    // rounds: r < 12: lane i takes special pair (i + r) mod 12; r >= 12: exactly one lane (r - 12) mod n non-zero
    for r in 0..(12 + n.min(4)) {
        let pair = |i: usize| -> ($F, $F) { if r < 12 { sp[(i + r) % 12] } else if i == (r - 12) * (n - 1) / 3usize.max(1) % n { (0.3, -7.3) } else { (0.0, 0.0) } };
        let (a, b) = (mkv(&|i| pair(i).0), mkv(&|i| pair(i).1));
        let (al, bl) = (a.into_elems(), b.into_elems());
        for (fi, &f) in facs.iter().enumerate() {
            let fv = mkv(&|i| facs[(fi + i) % facs.len()]); let fvl = fv.into_elems();
            let forms: Vec<(&str, $V<$F>, bool, bool, bool)> = vec![
                ("lerp_unclamped(scalar factor)", $V::lerp_unclamped(a, b, f), false, false, false), ("lerp_unclamped_precise(scalar factor)", $V::lerp_unclamped_precise(a, b, f), true, false, false),
                ("lerp(scalar factor)", $V::lerp(a, b, f), false, true, false), ("lerp_precise(scalar factor)", $V::lerp_precise(a, b, f), true, true, false),
                ("lerp_unclamped(vector factor)", $V::lerp_unclamped(a, b, fv), false, false, true), ("lerp_unclamped_precise(vector factor)", $V::lerp_unclamped_precise(a, b, fv), true, false, true),
                ("lerp(vector factor)", $V::lerp(a, b, fv), false, true, true), ("lerp_precise(vector factor)", $V::lerp_precise(a, b, fv), true, true, true),
                ("Lerp::lerp_unclamped", <$V<$F> as Lerp<$F>>::lerp_unclamped(a, b, f), false, false, false), ("Lerp::lerp_unclamped_precise", <$V<$F> as Lerp<$F>>::lerp_unclamped_precise(a, b, f), true, false, false),
                ("&Lerp::lerp", <&$V<$F> as Lerp<$F>>::lerp(&a, &b, f), false, true, false), ("&Lerp::lerp_precise", <&$V<$F> as Lerp<$F>>::lerp_precise(&a, &b, f), true, true, false),
            ];
            for (label, got, precise, clamped, per_lane) in forms {
                let g = got.into_elems(); let site = format!("{}<{}>::{}", name, fname, label);
                for i in 0..n {
                    evals += 1;
                    let f0 = if per_lane { fvl[i] } else { f }; let ff = if clamped { cl(f0) } else { f0 };
                    let inp = || json!({"lane": i, "from": al[i] as f64, "to": bl[i] as f64, "factor": f0 as f64, "got": g[i] as f64});
                    if ff == 0.0 && g[i] != al[i] { s.violation_w(&site, "endpoint-0-not-exact", inp(), i as u64); }
                    if ff == 1.0 && precise && g[i] != bl[i] { s.violation_w(&site, "endpoint-1-not-exact", inp(), i as u64); }
                    if al[i] == bl[i] && !precise && g[i] != al[i] { s.violation_w(&site, "equal-ends-not-fixed-by-the-fast-form", inp(), i as u64); }   // f * 0 + from = from exactly
                    if let Some(want) = exact_lerp(al[i] as f64, bl[i] as f64, ff as f64) {
                        let tol = vx::fl::K * ($F::EPSILON as f64) * (al[i].abs() as f64).max(bl[i].abs() as f64) * (1.0 + ff.abs() as f64) * 2.0;
                        if !(((g[i] as f64) - want).abs() <= tol) { s.violation_w(&site, "lane-not-affine-within-error-bound", json!({"input": inp(), "want": want, "tolerance": tol}), i as u64); }
                    }
                }
            }
        }
    }
    // power-of-two scaling of lane-distinct ordinary endpoints: every form, every lane, exactly covariant
    let fe = |i: usize| -> $F { ((i * 37 + 11) % 101) as $F * 0.173 - 8.1 }; let te = |i: usize| -> $F { ((i * 53 + 29) % 103) as $F * 0.291 - 15.3 };
    let (a, b) = (mkv(&fe), mkv(&te));
    for &f in &[0.3 as $F, 1.0 / 3.0, 1.0, -0.5, 0.0] { for e in [$big, -$big] {
        let k = (2.0 as $F).powi(e);
        let (ak, bk) = (mkv(&|i| fe(i) * k), mkv(&|i| te(i) * k));
        let fv = mkv(&|i| facs[(i * 3 + 1) % facs.len()]);
        let forms: Vec<(&str, $V<$F>, $V<$F>)> = vec![
            ("lerp_unclamped(scalar factor)", $V::lerp_unclamped(ak, bk, f), $V::lerp_unclamped(a, b, f)), ("lerp_unclamped_precise(scalar factor)", $V::lerp_unclamped_precise(ak, bk, f), $V::lerp_unclamped_precise(a, b, f)),
            ("lerp(vector factor)", $V::lerp(ak, bk, fv), $V::lerp(a, b, fv)), ("lerp_precise(vector factor)", $V::lerp_precise(ak, bk, fv), $V::lerp_precise(a, b, fv)),
            ("Lerp::lerp_unclamped", <$V<$F> as Lerp<$F>>::lerp_unclamped(ak, bk, f), <$V<$F> as Lerp<$F>>::lerp_unclamped(a, b, f)), ("&Lerp::lerp_unclamped_precise", <&$V<$F> as Lerp<$F>>::lerp_unclamped_precise(&ak, &bk, f), <$V<$F> as Lerp<$F>>::lerp_unclamped_precise(a, b, f)),
        ];
        for (label, got, base) in forms { let (g, w) = (got.into_elems(), base.into_elems()); for i in 0..n { evals += 1;
            if !(g[i] == w[i] * k) { s.violation_w(&format!("{}<{}>::{}", name, fname, label), "lane-not-covariant-under-scaling-both-endpoints-by-a-power-of-two", json!({"lane": i, "from": fe(i) as f64, "to": te(i) as f64, "scale": format!("2^{}", e), "got": g[i] as f64, "want": (w[i] * k) as f64}), i as u64); } } }
    } }
    s.evals(evals, evals); s.class(name);
}} }

// ---- integers: factors one ulp around rounding ties and around 0 / 1, and far outside [0,1] for the clamped forms ----
macro_rules! int_lerp_f { ($s:expr, $T:ty, $F:ident, $mant:expr, $acc:expr) => {{
    let s: &Section = $s;
    let tname = stringify!($T); let fname = stringify!($F);
    let (tmin, tmax) = (<$T>::MIN as i128, <$T>::MAX as i128);
    let mut pairs: Vec<(i128, i128)> = vec![(0, 1), (1, 0), (0, 2), (2, 0), (1, 2), (2, 1), (0, 4), (4, 0), (1, 3), (3, 1), (0, 64), (64, 0), (0, 100), (100, 0), (7, 8), (0, 3), (3, 0), (5, 10),
        (0, -1), (-1, 0), (-1, 1), (1, -1), (0, -2), (-2, 0), (-4, 0), (0, -64), (-64, 64), (0, -3), (-3, 3),
        (tmin, tmin + 1), (tmin + 1, tmin), (tmax - 1, tmax), (tmax, tmax - 1), (tmin, tmax), (tmax, tmin), (tmin, tmin + 2), (tmax, tmax - 2), (tmin, 0), (0, tmax), (tmax, 0)];
    if s.thorough() { for a in -12i128..=12 { for b in -12i128..=12 { pairs.push((a, b)); } } for k in 0..100 { let p = 1i128 << k; pairs.extend([(0, p), (p, 0), (0, -p), (-p, 0), (p, 2 * p), (-p, p)]); } }
    pairs.retain(|&(a, b)| a >= tmin && a <= tmax && b >= tmin && b <= tmax);
    pairs.sort(); pairs.dedup();
    let mut facs: Vec<$F> = Vec::new();
    if s.thorough() { for k in 1..=12 { let t = (2.0 as $F).powi(-k); for j in [1.0 as $F, 3.0, 5.0, 7.0] { let v = t * j; facs.extend([v.next_down(), v.next_up(), (-v).next_down(), (-v).next_up(), (1.0 + v).next_down(), (1.0 + v).next_up()]); } } }
    for t in [0.5 as $F, 0.25, 0.75, 0.125, 0.375, 1.5, 2.5, -0.5, -1.5, 1.0, 0.0, 2.0, -1.0, 1.0 / 6.0, 5.0 / 6.0] { facs.extend([t.next_down(), t, t.next_up()]); }
    facs.extend([$F::MIN_POSITIVE, -$F::MIN_POSITIVE, $F::EPSILON, 1.0 - $F::EPSILON, 1.0 + $F::EPSILON, -0.0]);
    for &(from, to) in &pairs {
        let (a, b) = (from as $T, to as $T);
        let m = $mant;
        let endpoints_exact = fits(Q::int(from), m) && fits(Q::int(to), m);
        for &f in &facs {
            let Some(fq) = Q::from_f64(f as f64) else { continue };
            let Ok((exact, exact_cl, p1, p2, omf, want, want_cl, near_tie)) = catch(|| { let fcl = clamp01q(fq);
                let (exact, exact_cl) = (Q::int(from).add(fq.mul(Q::int(to - from))), Q::int(from).add(fcl.mul(Q::int(to - from))));
                let fr = exact.sub(exact.floor()).sub(Q::new(1, 2)).abs();
                (exact, exact_cl, Q::int(from).mul(Q::ONE.sub(fq)), Q::int(to).mul(fq), Q::ONE.sub(fq), round_half_away(exact), round_half_away(exact_cl), fr != Q::ZERO && fr.to_f64() < 1.0e-6) }) else { $acc.0 += 1; continue };
            // the float formulas are exact when every intermediate is representable (checked in exact rationals): fast = one fma of
            // (to - from), precise = from (1 - f) + to f with 1 - f exact
            let fast_exact = endpoints_exact && fits(Q::int(to - from), m) && fits(exact, m);
            let precise_exact = endpoints_exact && fits(omf, m) && fits(p1, m) && fits(p2, m) && fits(exact, m);
            let clamped_differs = exact_cl != exact;
            let forms: [(&str, bool, i128, Result<$T, Caught>); 8] = [
                ("lerp_unclamped", fast_exact, want, catch(|| <$T as Lerp<$F>>::lerp_unclamped(a, b, f))),
                ("lerp_unclamped_precise", precise_exact, want, catch(|| <$T as Lerp<$F>>::lerp_unclamped_precise(a, b, f))),
                ("lerp", fast_exact || (clamped_differs && endpoints_exact && fits(Q::int(to - from), m)), want_cl, catch(|| <$T as Lerp<$F>>::lerp(a, b, f))),
                ("lerp_precise", precise_exact || (clamped_differs && endpoints_exact), want_cl, catch(|| <$T as Lerp<$F>>::lerp_precise(a, b, f))),
                ("&lerp_unclamped", fast_exact, want, catch(|| <&$T as Lerp<$F>>::lerp_unclamped(&a, &b, f))),
                ("&lerp_unclamped_precise", precise_exact, want, catch(|| <&$T as Lerp<$F>>::lerp_unclamped_precise(&a, &b, f))),
                ("&lerp", fast_exact || (clamped_differs && endpoints_exact && fits(Q::int(to - from), m)), want_cl, catch(|| <&$T as Lerp<$F>>::lerp(&a, &b, f))),
                ("&lerp_precise", precise_exact || (clamped_differs && endpoints_exact), want_cl, catch(|| <&$T as Lerp<$F>>::lerp_precise(&a, &b, f))),
            ];
            for (label, ok, w, got) in forms {
                if !ok || w < tmin || w > tmax { $acc.0 += 1; continue; }
                $acc.1 += 1; if near_tie { $acc.2 += 1; }
                let site = format!("Lerp<{}>::{} for {}", fname, label, tname);
                let d = || json!({"from": from.to_string(), "to": to.to_string(), "factor": f as f64, "factor_exact": format!("{}", fq), "exact_value": format!("{}", exact), "want": w.to_string()});
                match got {
                    Ok(g) => if g as i128 != w { s.violation_w(&site, "wrong-value-at-a-factor-one-ulp-from-a-tie-or-an-end", json!({"input": d(), "got": (g as i128).to_string()}), (from.unsigned_abs() + to.unsigned_abs()).min(u64::MAX as u128) as u64) },
                    Err(Caught::Panic(p)) => s.violation_w(&site, "panic", json!({"input": d(), "panic": p}), (from.unsigned_abs() + to.unsigned_abs()).min(u64::MAX as u128) as u64),
                    Err(Caught::Unmodelled(u)) => s.unmodelled(u),
                }
            }
        }
        // factors far outside [0,1] (no rational needed): the clamped forms return the ends
        if endpoints_exact && fits(Q::int(to - from), m) {
            for (f, w) in [(1.0e30 as $F, to), ($F::MAX, to), (3.0e9, to), (-1.0e30, from), (-$F::MAX, from), (-3.0e9, from)] {
                for (label, got) in [("lerp", catch(|| <$T as Lerp<$F>>::lerp(a, b, f))), ("lerp_precise", catch(|| <$T as Lerp<$F>>::lerp_precise(a, b, f))), ("&lerp", catch(|| <&$T as Lerp<$F>>::lerp(&a, &b, f))), ("&lerp_precise", catch(|| <&$T as Lerp<$F>>::lerp_precise(&a, &b, f))),
                                     ("lerp_inclusive_range", catch(|| <$T as Lerp<$F>>::lerp_inclusive_range(a..=b, f))), ("&lerp_precise_inclusive_range", catch(|| <&$T as Lerp<$F>>::lerp_precise_inclusive_range(&a..=&b, f)))] {
                    $acc.1 += 1; $acc.3 += 1;
                    let site = format!("Lerp<{}>::{} for {}", fname, label, tname);
                    match got { Ok(g) => if g as i128 != w { s.violation(&site, "clamped-form-wrong-for-a-factor-far-outside-[0,1]", json!({"from": from.to_string(), "to": to.to_string(), "factor": f as f64, "got": (g as i128).to_string(), "want": w.to_string()})); },
                                Err(e) => s.violation(&site, "panic", json!({"from": from.to_string(), "to": to.to_string(), "factor": f as f64, "error": format!("{:?}", e)})) }
                }
            }
        }
    }
}} }

fn main() {
    let rep = Report::start("C12", "exploration");
    let d = if rep.thorough() { 6 } else { 4 };

    rep.section("generic vector lerp (13 types, inherent + Lerp trait, value + reference, scalar + per-element factor)",
        "each of 24 function forms (18 + per-element factor through the clamped inherent forms + the 4 inclusive-range forms of the reference impl) of each of the 13 vector types is run once on free term generators (operators and the scalar Lerp/Clamp impls are uninterpreted constructors); every lane's resulting term must mention only its own lane's from/to/factor and, interpreted exactly, equal from + clamp?(f)(to-from) on every point of L(3,D), D >= degree 2 (+2 quick, +4 thorough) with factors (c-2)/2 covering <0, 0, 1/2, 1, >1; non-trivial: all", true, true, |s| {
        s.require_classes(&["Vec2", "Vec3", "Vec4", "Vec8", "Vec16", "Vec32", "Vec64", "Extent2", "Extent3", "Rgb", "Rgba", "Uv", "Uvw"]);
        for_all_vecs!(V => { vec_lerp_generic!(s, V, d); });
    });

    rep.section("quaternion component lerp (unnormalized family) as a polynomial identity",
        "L(9, D): from, to in X^4 and factor: lerp_unclamped_unnormalized / lerp_unclamped_precise_unnormalized / lerp_unnormalized / lerp_precise_unnormalized equal the per-component affine interpolation; non-trivial: from != to", true, true, |s| {
        par_lattice(9, d, |p| {
            let c = |i: usize| qi(p[i] as i128);
            let from = Quaternion { x: c(0), y: c(1), z: c(2), w: c(3) - qi(1) };
            let to = Quaternion { x: c(4) - qi(2), y: c(5), z: c(6), w: c(7) };
            let f = q(p[8] as i128 - 2, 2);
            let fcl = if f < qi(0) { qi(0) } else if f > qi(1) { qi(1) } else { f };
            let want = |f: X| [from.x + f * (to.x - from.x), from.y + f * (to.y - from.y), from.z + f * (to.z - from.z), from.w + f * (to.w - from.w)];
            let dq = |r: Quaternion<X>| [r.x, r.y, r.z, r.w];
            let inp = || json!({"from": jxs(&dq(from)), "to": jxs(&dq(to)), "factor": jx(f)});
            for (name, got, w) in [
                ("lerp_unclamped_unnormalized", s.call("q", inp, || dq(Quaternion::lerp_unclamped_unnormalized(from, to, f))), want(f)),
                ("lerp_unclamped_precise_unnormalized", s.call("q", inp, || dq(Quaternion::lerp_unclamped_precise_unnormalized(from, to, f))), want(f)),
                ("lerp_unnormalized", s.call("q", inp, || dq(Quaternion::lerp_unnormalized(from, to, f))), want(fcl)),
                ("lerp_precise_unnormalized", s.call("q", inp, || dq(Quaternion::lerp_precise_unnormalized(from, to, f))), want(fcl)),
            ] {
                s.eval(dq(from) != dq(to));
                if let Some(g) = got { if g != w { s.violation_w(&format!("Quaternion::{}", name), "not-the-affine-interpolation", json!({"input": inp(), "got": jxs(&g), "want": jxs(&w)}), p.iter().sum::<i64>() as u64); } }
            }
            if s.wants_sample() && p.iter().sum::<i64>() == d as i64 { s.sample(json!({"input": inp(), "want": jxs(&want(f))})); }
        });
    });

    let r_int = "ALL 65536 (from,to) pairs of the 8-bit type x factors k/8 (k=-8..16; thorough: k/64, k=-64..128, see meta) x factor types {f32,f64} x {fast, precise} x {by value, by reference} x {clamped, unclamped}; oracle: exact rational from + f(to-from) rounded half away from zero, asserted whenever it lies in the type's range (8-bit endpoints and 3-bit factors make the float formulas exact, so no tolerance); non-trivial: all asserted cases";
    let den8: i32 = if rep.thorough() { 64 } else { 8 };   // (added) thorough: factor grid k/64, k = -64..128 (contains the quick grid)
    let th = rep.thorough();
    rep.section("integer Lerp: i8 exhaustive", r_int, true, false, |s| { s.require_classes(&["asserted", "to<from"]); s.meta("factor_grid_denominator", json!(den8)); int_lerp_8bit!(s, i8, den8); });
    rep.section("integer Lerp: u8 exhaustive", r_int, true, false, |s| { s.require_classes(&["asserted", "to<from"]); s.meta("factor_grid_denominator", json!(den8)); int_lerp_8bit!(s, u8, den8); });
    rep.section("integer Lerp: wider types, boundary alphabets",
        "squares of boundary alphabets (range limits, halves, powers of two, small and odd values, the values around 2^24 and 2^53 where f32/f64 stop representing every integer, the largest f32/f64-representable values below the type maximum; thorough: every +-2^k, +-(2^k+-1), +-3*2^k and factors k/16) for i16,u16,i32,u32,i64,u64,isize,usize x the same factors/forms; a case is asserted only when the endpoints and every intermediate of the float formula are exactly representable in the factor's float type (checked in exact rationals), otherwise skipped and counted; non-trivial: asserted cases", true, false, |s| {
        s.require_classes(&["asserted", "to<from"]);
        // (changed) alph -> alph_x, a superset (see alph_x); thorough: factor grid k/16 and the +-2^k families
        let denw: i32 = if th { 16 } else { 8 };
        s.meta("alphabet_sizes", json!({"i16": alph_x(i16::MIN as i128, i16::MAX as i128, th).len(), "i32": alph_x(i32::MIN as i128, i32::MAX as i128, th).len(), "i64": alph_x(i64::MIN as i128, i64::MAX as i128, th).len(), "u64": alph_x(0, u64::MAX as i128, th).len(), "factor_grid_denominator": denw}));
        int_lerp_wide!(s, i16, alph_x(i16::MIN as i128, i16::MAX as i128, th), denw); int_lerp_wide!(s, u16, alph_x(0, u16::MAX as i128, th), denw);
        int_lerp_wide!(s, i32, alph_x(i32::MIN as i128, i32::MAX as i128, th), denw); int_lerp_wide!(s, u32, alph_x(0, u32::MAX as i128, th), denw);
        int_lerp_wide!(s, i64, alph_x(i64::MIN as i128, i64::MAX as i128, th), denw); int_lerp_wide!(s, u64, alph_x(0, u64::MAX as i128, th), denw);
        int_lerp_wide!(s, isize, alph_x(isize::MIN as i128, isize::MAX as i128, th), denw); int_lerp_wide!(s, usize, alph_x(0, usize::MAX as i128, th), denw);
        s.sample(json!({"type": "i32", "call": "lerp_unclamped(i32::MIN, i32::MAX, 0.5f64)", "want": "0 (exact value -0.5 rounds half away from zero to -1? no: MIN + 0.5*(MAX-MIN) = -0.5 -> -1)"}));
    });

    let r_fl = "11^2 endpoint pairs (signed zeros, tiny, huge, mixed signs) x 97 factors k/32 in [-1,2] x {fast, precise} x {value, reference} x {clamped}: factor 0 returns from exactly, the precise form returns to exactly at 1, both forms are within 256 eps max(|from|,|to|)(1+|f|)2 of the exact rational interpolation, reference impls are bit-identical, clamped = unclamped on the clamped factor; non-trivial: from != to and 0 != f != 1";
    rep.section("float Lerp: f64", r_fl, true, false, |s| { s.require_classes(&["factor-0", "factor-1"]); float_lerp!(s, f64); });
    rep.section("float Lerp: f32", r_fl, true, false, |s| { s.require_classes(&["factor-0", "factor-1"]); float_lerp!(s, f32); });

    // ---- quaternion nlerp / slerp -------------------------------------------------------------------
    rep.section("quaternion slerp, exact (angle tokens)",
        "from = identity, to = +-(axis sin 4phi, cos 4phi) for unit axes {x,y,z,(1,2,2)/3,(2,3,6)/7} and 6 rational angle bases phi with 4phi < pi/2 (so that +-to exercises the sign-flip branch), factors j/4, j=-2..6: slerp_unclamped = (axis sin(j phi), cos(j phi)) exactly: unit, constant angular speed, shorter arc, far end up to sign; plus from == to (near-parallel fallback) and to == -from (same rotation: result +-from at every factor); Slerp trait for values and references and the clamped form; non-trivial: j not in {0,4}", true, false, |s| {
        s.require_classes(&["sign-flip-branch", "direct-branch", "parallel-fallback"]);
        let axes: [[X; 3]; 5] = [[qi(1), qi(0), qi(0)], [qi(0), qi(1), qi(0)], [qi(0), qi(0), qi(-1)], [q(1, 3), q(2, 3), q(2, 3)], [q(2, 7), q(-3, 7), q(6, 7)]];
        for (tn, td) in [(1, 8), (1, 10), (1, 12), (1, 16), (2, 21), (1, 20)] {
            let b = angle_base_t(tn, td);
            clear_inverse();
            register_inverse(X::tok(b, 4));
            for ax in &axes { for flip in [false, true] {
                let (s4, c4) = X::tok(b, 4).sin_cos_q();
                assert!(s4.n > 0 && c4.n > 0);
                let sg = if flip { qi(-1) } else { qi(1) };
                let from = Quaternion { x: qi(0), y: qi(0), z: qi(0), w: qi(1) };
                let to = Quaternion { x: sg * ax[0] * X::R(s4), y: sg * ax[1] * X::R(s4), z: sg * ax[2] * X::R(s4), w: sg * X::R(c4) };
                s.class(if flip { "sign-flip-branch" } else { "direct-branch" });
                for j in -2i128..=6 {
                    let f = q(j, 4);
                    let (sj, cj) = X::tok(b, j).sin_cos_q();
                    let want = [ax[0] * X::R(sj), ax[1] * X::R(sj), ax[2] * X::R(sj), X::R(cj)];
                    let dq = |r: Quaternion<X>| [r.x, r.y, r.z, r.w];
                    let inp = || json!({"to": jxs(&dq(to)), "factor": jx(f), "phi_base_t": format!("{}/{}", tn, td)});
                    let fc = if j < 0 { 0 } else if j > 4 { 4 } else { j };
                    let (sc, cc) = X::tok(b, fc).sin_cos_q();
                    let want_cl = [ax[0] * X::R(sc), ax[1] * X::R(sc), ax[2] * X::R(sc), X::R(cc)];
                    for (name, got, w) in [
                        ("Quaternion::slerp_unclamped", s.call("slerp", inp, || dq(Quaternion::slerp_unclamped(from, to, f))), want),
                        ("Slerp::slerp_unclamped for Quaternion", s.call("slerp", inp, || dq(<Quaternion<X> as Slerp<X>>::slerp_unclamped(from, to, f))), want),
                        ("Slerp::slerp_unclamped for &Quaternion", s.call("slerp", inp, || dq(<&Quaternion<X> as Slerp<X>>::slerp_unclamped(&from, &to, f))), want),
                        ("Quaternion::slerp", s.call("slerp", inp, || dq(Quaternion::slerp(from, to, f))), want_cl),
                        ("Slerp::slerp for &Quaternion", s.call("slerp", inp, || dq(<&Quaternion<X> as Slerp<X>>::slerp(&from, &to, f))), want_cl),
                    ] {
                        s.eval(j != 0 && j != 4);
                        if let Some(g) = got { if g != w { s.violation(name, "not-on-the-arc-at-constant-speed", json!({"input": inp(), "got": jxs(&g), "want": jxs(&w)})); } }
                    }
                    if s.wants_sample() && j == 1 && flip { s.sample(json!({"input": inp(), "want": jxs(&want)})); }
                }
            } }
        }
        // from == to: the near-parallel lerp fallback returns the same unit quaternion for every factor
        for ax in &axes {
            let qq = Quaternion { x: ax[0] * q(3, 5), y: ax[1] * q(3, 5), z: ax[2] * q(3, 5), w: q(4, 5) };
            for j in -2i128..=6 {
                s.eval(true); s.class("parallel-fallback");
                let dq = |r: Quaternion<X>| [r.x, r.y, r.z, r.w];
                if let Some(g) = s.call("slerp", || json!({"q": jxs(&dq(qq))}), || dq(Quaternion::slerp_unclamped(qq, qq, q(j, 4)))) {
                    if g != dq(qq) { s.violation("Quaternion::slerp_unclamped", "from==to-not-fixed", json!({"q": jxs(&dq(qq)), "factor": j, "got": jxs(&g)})); }
                }
                // to == -from denotes the same rotation: the shorter arc has length zero, so every factor yields +-from (a unit
                // quaternion for the same rotation); a division by zero / no value at all is a failure, not an unmodelled case
                s.eval(true); s.class("to-is-minus-from");
                let nq = Quaternion { x: -qq.x, y: -qq.y, z: -qq.z, w: -qq.w };
                for (site, r) in [("Quaternion::slerp_unclamped", catch(|| dq(Quaternion::slerp_unclamped(qq, nq, q(j, 4))))), ("Slerp::slerp_unclamped for &Quaternion", catch(|| dq(<&Quaternion<X> as Slerp<X>>::slerp_unclamped(&qq, &nq, q(j, 4)))))] {
                    match r {
                        Ok(g) => if g != dq(qq) && g != dq(nq) { s.violation(site, "to==-from-not-the-same-rotation", json!({"q": jxs(&dq(qq)), "factor/4": j, "got": jxs(&g)})); },
                        Err(e) => s.violation(site, "to==-from-yields-no-value", json!({"q": jxs(&dq(qq)), "factor/4": j, "error": format!("{:?}", e)})),
                    }
                }
            }
        }
    });

    rep.section("quaternion nlerp (Lerp trait) returns unit quaternions; slerp stays unit (f64)",
        "all ordered pairs of 26 unit quaternions (axis in 13 directions x 2 angles) x 9 factors in [-0.5,1.5] (f64): |Lerp result| = 1 within 64 eps for value/reference, fast/precise; |slerp| = 1, slerp(.,.,0) ~ from, slerp(.,.,1) ~ +-to, and for a common axis slerp is the rotation at the interpolated angle (constant angular speed) within 256 eps / sin(angle); pairs with |dot| < 1e-3 of antiparallel-in-4D excluded for nlerp (degenerate: lerp passes near zero); non-trivial: from != to", true, false, |s| {
        s.require_classes(&["common-axis", "general-pair", "to-is-minus-from"]);
        let dirs: Vec<[f64; 3]> = { let mut v = Vec::new(); for x in -1..=1 { for y in -1..=1 { for z in -1..=1 { if (x, y, z) > (0, 0, 0) { v.push([x as f64, y as f64, z as f64]); } } } } v };
        let mut qs: Vec<(usize, f64, Quaternion<f64>)> = Vec::new();
        for (ai, a) in dirs.iter().enumerate() { let n = (a[0] * a[0] + a[1] * a[1] + a[2] * a[2]).sqrt(); for ang in [0.7f64, 2.3] { let (sh, ch) = ((ang / 2.0).sin(), (ang / 2.0).cos()); qs.push((ai, ang, Quaternion { x: a[0] / n * sh, y: a[1] / n * sh, z: a[2] / n * sh, w: ch })); } }
        let norm = |r: Quaternion<f64>| (r.x * r.x + r.y * r.y + r.z * r.z + r.w * r.w).sqrt();
        for &(ai, aa, a) in &qs { for &(bi, ba, b) in &qs { for k in -2i32..=6 {
            let f = k as f64 / 4.0;
            let dot = a.x * b.x + a.y * b.y + a.z * b.z + a.w * b.w;
            s.eval(ai != bi || aa != ba);
            let inp = || json!({"from": [a.x, a.y, a.z, a.w], "to": [b.x, b.y, b.z, b.w], "factor": f});
            // nlerp
            let lerped_norm = { let l = [a.x + f * (b.x - a.x), a.y + f * (b.y - a.y), a.z + f * (b.z - a.z), a.w + f * (b.w - a.w)]; (l[0] * l[0] + l[1] * l[1] + l[2] * l[2] + l[3] * l[3]).sqrt() };
            if lerped_norm > 0.05 {
                for (name, r) in [("Lerp::lerp_unclamped", <Quaternion<f64> as Lerp<f64>>::lerp_unclamped(a, b, f)), ("Lerp::lerp_unclamped_precise", <Quaternion<f64> as Lerp<f64>>::lerp_unclamped_precise(a, b, f)),
                                  ("&Lerp::lerp_unclamped", <&Quaternion<f64> as Lerp<f64>>::lerp_unclamped(&a, &b, f)), ("Lerp::lerp", <Quaternion<f64> as Lerp<f64>>::lerp(a, b, f)),
                                  ("&Lerp::lerp_unclamped_precise", <&Quaternion<f64> as Lerp<f64>>::lerp_unclamped_precise(&a, &b, f)), ("&Lerp::lerp", <&Quaternion<f64> as Lerp<f64>>::lerp(&a, &b, f)),
                                  ("Lerp::lerp_precise", <Quaternion<f64> as Lerp<f64>>::lerp_precise(a, b, f)), ("&Lerp::lerp_precise", <&Quaternion<f64> as Lerp<f64>>::lerp_precise(&a, &b, f)),
                                  ("Quaternion::lerp_unclamped", Quaternion::lerp_unclamped(a, b, f)), ("Quaternion::lerp_unclamped_precise", Quaternion::lerp_unclamped_precise(a, b, f)),
                                  ("Quaternion::lerp", Quaternion::lerp(a, b, f)), ("Quaternion::lerp_precise", Quaternion::lerp_precise(a, b, f))] {
                    if (norm(r) - 1.0).abs() > 64.0 * f64::EPSILON { s.violation(&format!("{} for Quaternion<f64>", name), "not-unit", json!({"input": inp(), "norm": norm(r)})); }
                }
            }
            // slerp
            let r = Quaternion::slerp_unclamped(a, b, f);
            let ct = dot.abs().min(1.0);
            let ang = ct.acos();
            let cond = if ang > 1e-3 { 1.0 / ang.sin() } else { 1.0 };
            let tol = 256.0 * f64::EPSILON * cond * (1.0 + f.abs()) * 4.0;
            if (norm(r) - 1.0).abs() > tol && (0..=4).contains(&k) { s.violation("Quaternion::slerp_unclamped<f64>", "not-unit", json!({"input": inp(), "norm": norm(r), "tolerance": tol})); }
            let close = |p: Quaternion<f64>, q: [f64; 4], t: f64| (p.x - q[0]).abs() <= t && (p.y - q[1]).abs() <= t && (p.z - q[2]).abs() <= t && (p.w - q[3]).abs() <= t;
            if k == 0 && !close(r, [a.x, a.y, a.z, a.w], tol) { s.violation("Quaternion::slerp_unclamped<f64>", "factor-0-is-not-from", inp()); }
            let sg = if dot < 0.0 { -1.0 } else { 1.0 };
            if k == 4 && !close(r, [sg * b.x, sg * b.y, sg * b.z, sg * b.w], tol) { s.violation("Quaternion::slerp_unclamped<f64>", "factor-1-is-not-+-to", inp()); }
            if ai == bi {
                s.class("common-axis");
                // same axis: result is the rotation about it with the interpolated angle (shorter arc)
                let ax = dirs[ai]; let n = (ax[0] * ax[0] + ax[1] * ax[1] + ax[2] * ax[2]).sqrt();
                let (ha, mut hb) = (aa / 2.0, ba / 2.0);
                if dot < 0.0 { hb -= std::f64::consts::PI; }
                let h = ha + f * (hb - ha);
                let want = [ax[0] / n * h.sin(), ax[1] / n * h.sin(), ax[2] / n * h.sin(), h.cos()];
                if !close(r, want, tol) { s.violation("Quaternion::slerp_unclamped<f64>", "not-constant-angular-speed-on-the-shorter-arc", json!({"input": inp(), "got": [r.x, r.y, r.z, r.w], "want": want})); }
            } else { s.class("general-pair"); }
            if s.wants_sample() && k == 1 && ai != bi { s.sample(json!({"input": inp(), "slerp": [r.x, r.y, r.z, r.w]})); }
        } } }
        // to = -from (the same rotation): unit result equal to +-from at every factor, including 1/2 where a plain lerp passes through zero
        for &(_, _, a) in &qs { for k in -2i32..=6 {
            let f = k as f64 / 4.0;
            let b = Quaternion { x: -a.x, y: -a.y, z: -a.z, w: -a.w };
            s.eval(true); s.class("to-is-minus-from");
            for (site, r) in [("Quaternion::slerp_unclamped<f64>", Quaternion::slerp_unclamped(a, b, f)), ("Quaternion::slerp<f64>", Quaternion::slerp(a, b, f)), ("Slerp::slerp_unclamped for &Quaternion<f64>", <&Quaternion<f64> as Slerp<f64>>::slerp_unclamped(&a, &b, f))] {
                let t = 64.0 * f64::EPSILON;
                let same = |sg: f64| (r.x - sg * a.x).abs() <= t && (r.y - sg * a.y).abs() <= t && (r.z - sg * a.z).abs() <= t && (r.w - sg * a.w).abs() <= t;
                if !(same(1.0) || same(-1.0)) { s.violation(site, "to==-from-not-the-same-rotation", json!({"from": [a.x, a.y, a.z, a.w], "factor": f, "got": format!("{:?}", [r.x, r.y, r.z, r.w])})); }
            }
        } }
    });

    rep.section("Transform lerp = (lerp position, slerp orientation, lerp scale)",
        "6x6 ordered pairs of transforms (f64) x 5 factors, value and reference impls, fast and precise: each field is bit-identical to the corresponding part interpolation checked above (differential); non-trivial: all", true, false, |s| {
        let mk = |i: usize| -> Transform<f64, f64, f64> {
            let a = 0.3 + i as f64 * 0.45; let ax = [[1.0, 0.0, 0.0], [0.0, 1.0, 0.0], [0.6, 0.0, 0.8]][i % 3];
            Transform { position: Vec3 { x: i as f64, y: -2.0 * i as f64, z: 0.5 }, orientation: Quaternion { x: ax[0] * (a / 2.0).sin(), y: ax[1] * (a / 2.0).sin(), z: ax[2] * (a / 2.0).sin(), w: (a / 2.0).cos() }, scale: Vec3 { x: 1.0 + i as f64, y: 0.5, z: 2.0 - 0.25 * i as f64 } }
        };
        for i in 0..6 { for j in 0..6 { for k in [-1i32, 0, 1, 2, 3] {
            let (a, b, t) = (mk(i), mk(j), k as f64 / 2.0);
            let bits3 = |v: Vec3<f64>| [v.x.to_bits(), v.y.to_bits(), v.z.to_bits()];
            let bitsq = |q: Quaternion<f64>| [q.x.to_bits(), q.y.to_bits(), q.z.to_bits(), q.w.to_bits()];
            let so = Quaternion::slerp_unclamped(a.orientation, b.orientation, t);
            let cases = [
                ("Lerp::lerp_unclamped for Transform", <Transform<f64, f64, f64> as Lerp<f64>>::lerp_unclamped(a, b, t), false),
                ("Lerp::lerp_unclamped_precise for Transform", <Transform<f64, f64, f64> as Lerp<f64>>::lerp_unclamped_precise(a, b, t), true),
                ("Lerp::lerp_unclamped for &Transform", <&Transform<f64, f64, f64> as Lerp<f64>>::lerp_unclamped(&a, &b, t), false),
                ("Lerp::lerp_unclamped_precise for &Transform", <&Transform<f64, f64, f64> as Lerp<f64>>::lerp_unclamped_precise(&a, &b, t), true),
            ];
            for (name, r, precise) in cases {
                s.eval(true);
                let (wp, ws) = if precise { (<Vec3<f64> as Lerp<f64>>::lerp_unclamped_precise(a.position, b.position, t), <Vec3<f64> as Lerp<f64>>::lerp_unclamped_precise(a.scale, b.scale, t)) }
                               else { (<Vec3<f64> as Lerp<f64>>::lerp_unclamped(a.position, b.position, t), <Vec3<f64> as Lerp<f64>>::lerp_unclamped(a.scale, b.scale, t)) };
                if bits3(r.position) != bits3(wp) { s.violation(name, "position-is-not-the-lerp-of-positions", json!({"i": i, "j": j, "t": t})); }
                if bits3(r.scale) != bits3(ws) { s.violation(name, "scale-is-not-the-lerp-of-scales", json!({"i": i, "j": j, "t": t})); }
                if bitsq(r.orientation) != bitsq(so) { s.violation(name, "orientation-is-not-the-slerp-of-orientations", json!({"i": i, "j": j, "t": t})); }
            }
        } } }
        let d = Transform::<f64, f64, f64>::default();
        s.eval(true);
        if d.position != (Vec3 { x: 0.0, y: 0.0, z: 0.0 }) || d.scale != (Vec3 { x: 1.0, y: 1.0, z: 1.0 }) || d.orientation != (Quaternion { x: 0.0, y: 0.0, z: 0.0, w: 1.0 }) { s.violation("Transform::default", "not-identity", json!({})); }
        s.sample(json!({"pair": [0, 3], "t": 0.5, "law": "fields bit-identical to Lerp(position), Slerp(orientation), Lerp(scale)"}));
    });

    rep.section("Transition: current value = interpolation at the mapped progress",
        "12 accessors/constructors x mappers {identity, x^2, 1-x} x progress {-1/2,0,1/4,1/2,1,3/2} x element types {f32, Vec2<f32>, i32, X}: each accessor equals the direct Lerp call at the mapped (and, for clamped forms, clamped) progress; non-trivial: all", true, false, |s| {
        fn sq(x: f32) -> f32 { x * x }
        fn inv(x: f32) -> f32 { 1.0 - x }
        fn sqx(x: X) -> X { x * x }
        for p in [-0.5f32, 0.0, 0.25, 0.5, 1.0, 1.5] {
            for (mname, mf) in [("x^2", sq as fn(f32) -> f32), ("1-x", inv as fn(f32) -> f32)] {
                macro_rules! trans { ($T:ty, $a:expr, $b:expr) => {{
                    let (a, b): ($T, $T) = ($a, $b);
                    let t = Transition::<$T, ProgressMapperFn<f32>, f32>::with_mapper_and_progress(a, b, ProgressMapperFn(mf), p);
                    let m = mf(p);
                    let site = |n: &str| format!("Transition<{}, mapper {}>::{}", stringify!($T), mname, n);
                    s.evals(8, 8);
                    if t.into_current() != <$T as Lerp<f32>>::lerp(a, b, m) { s.violation(&site("into_current"), "not-the-lerp-at-mapped-progress", json!({"progress": p})); }
                    if t.into_current_unclamped() != <$T as Lerp<f32>>::lerp_unclamped(a, b, m) { s.violation(&site("into_current_unclamped"), "not-the-lerp-at-mapped-progress", json!({"progress": p})); }
                    if t.into_current_precise() != <$T as Lerp<f32>>::lerp_precise(a, b, m) { s.violation(&site("into_current_precise"), "not-the-lerp-at-mapped-progress", json!({"progress": p})); }
                    if t.into_current_unclamped_precise() != <$T as Lerp<f32>>::lerp_unclamped_precise(a, b, m) { s.violation(&site("into_current_unclamped_precise"), "not-the-lerp-at-mapped-progress", json!({"progress": p})); }
                    if t.current() != <$T as Lerp<f32>>::lerp(a, b, m) { s.violation(&site("current"), "not-the-lerp-at-mapped-progress", json!({"progress": p})); }
                    if t.current_unclamped() != <$T as Lerp<f32>>::lerp_unclamped(a, b, m) { s.violation(&site("current_unclamped"), "not-the-lerp-at-mapped-progress", json!({"progress": p})); }
                    if t.current_precise() != <$T as Lerp<f32>>::lerp_precise(a, b, m) { s.violation(&site("current_precise"), "not-the-lerp-at-mapped-progress", json!({"progress": p})); }
                    if t.current_unclamped_precise() != <$T as Lerp<f32>>::lerp_unclamped_precise(a, b, m) { s.violation(&site("current_unclamped_precise"), "not-the-lerp-at-mapped-progress", json!({"progress": p})); }
                    let r = t.into_range(); if r.start != a || r.end != b { s.violation(&site("into_range"), "endpoints-lost", json!({})); }
                }} }
                trans!(f32, 2.0, -6.0);
                trans!(Vec2<f32>, Vec2 { x: 1.0, y: 2.0 }, Vec2 { x: -3.0, y: 10.0 });
                trans!(i32, 10, 20);
                trans!(Vec4<f32>, Vec4 { x: 1.0, y: 2.0, z: 0.0, w: 1.0 }, Vec4 { x: -3.0, y: 10.0, z: 8.0, w: 1.0 });
            }
            // identity mapper / linear transition / constructors
            let lt = LinearTransition::<f32, f32>::with_progress(2.0, -6.0, p);
            s.evals(4, 4);
            if lt.into_current_unclamped() != <f32 as Lerp<f32>>::lerp_unclamped(2.0, -6.0, p) { s.violation("LinearTransition::with_progress", "not-the-lerp-at-progress", json!({"progress": p})); }
            let n = LinearTransition::<f32, f32>::new(2.0, -6.0);
            if n.progress != 0.0 || n.into_current() != 2.0 { s.violation("LinearTransition::new", "does-not-start-at-start", json!({})); }
            let w = Transition::<f32, ProgressMapperFn<f32>, f32>::with_mapper(2.0, -6.0, ProgressMapperFn(sq));
            if w.progress != 0.0 || w.start != 2.0 || w.end != -6.0 { s.violation("Transition::with_mapper", "wrong-fields", json!({})); }
            // the mapper objects themselves: identity maps every progress to itself, the function wrapper applies its function
            s.evals(3, 3);
            if vek::ProgressMapper::<f32>::map_progress(&vek::IdentityProgressMapper, p) != p { s.violation("IdentityProgressMapper::map_progress", "not-the-identity", json!({"progress": p})); }
            if vek::ProgressMapper::<f32>::map_progress(&ProgressMapperFn(sq as fn(f32) -> f32), p) != sq(p) || vek::ProgressMapper::<f32>::map_progress(&ProgressMapperFn(inv as fn(f32) -> f32), p) != inv(p) { s.violation("ProgressMapperFn::map_progress", "not-the-wrapped-function", json!({"progress": p})); }
            // every accessor of a linear transition (identity mapper)
            for (name, got, want) in [("into_current", lt.into_current(), <f32 as Lerp<f32>>::lerp(2.0, -6.0, p)), ("into_current_precise", lt.into_current_precise(), <f32 as Lerp<f32>>::lerp_precise(2.0, -6.0, p)),
                ("into_current_unclamped_precise", lt.into_current_unclamped_precise(), <f32 as Lerp<f32>>::lerp_unclamped_precise(2.0, -6.0, p)), ("current", lt.current(), <f32 as Lerp<f32>>::lerp(2.0, -6.0, p)),
                ("current_unclamped", lt.current_unclamped(), <f32 as Lerp<f32>>::lerp_unclamped(2.0, -6.0, p)), ("current_precise", lt.current_precise(), <f32 as Lerp<f32>>::lerp_precise(2.0, -6.0, p)),
                ("current_unclamped_precise", lt.current_unclamped_precise(), <f32 as Lerp<f32>>::lerp_unclamped_precise(2.0, -6.0, p))] {
                s.evals(1, 1);
                if got != want { s.violation(&format!("LinearTransition::{}", name), "not-the-lerp-at-progress", json!({"progress": p, "got": got, "want": want})); }
            }
            let fr: LinearTransition<f32, f32> = (2.0f32..-6.0f32).into();
            if fr.start != 2.0 || fr.end != -6.0 || fr.progress != 0.0 { s.violation("Transition::from(Range)", "wrong-fields", json!({})); }
        }
        // exact element type with an exact progress
        for pn in [-1i128, 0, 1, 2, 4, 6] {
            let p = q(pn, 4);
            let t = Transition::<X, ProgressMapperFn<X>, X>::with_mapper_and_progress(qi(3), qi(-5), ProgressMapperFn(sqx as fn(X) -> X), p);
            let m = p * p; let mc = if m > qi(1) { qi(1) } else { m };
            s.evals(2, 2);
            if t.into_current_unclamped() != qi(3) + m * qi(-8) { s.violation("Transition<X>::into_current_unclamped", "not-the-lerp-at-mapped-progress", json!({"progress": jx(p)})); }
            if t.into_current() != qi(3) + mc * qi(-8) { s.violation("Transition<X>::into_current", "not-the-lerp-at-mapped-progress", json!({"progress": jx(p)})); }
        }
        s.sample(json!({"T": "f32", "start": 2.0, "end": -6.0, "mapper": "x^2", "progress": 0.5, "current": <f32 as Lerp<f32>>::lerp(2.0, -6.0, 0.25)}));
    });

    // =================================================================================================
    // sections added by the clause audit (out/AUDIT.md)
    // =================================================================================================
    rep.section("float Lerp: non-dyadic factors, every derived form, extreme magnitudes (f64, f32)",
        "12^2 endpoint pairs with full significands x 14 factors (0, 1, 0.1, 0.3, 1/3, 0.7, 0.9, -0.37, 1.63, 1e-9, 1-eps, eps, -2.5, 3.25; thorough: 36^2 pairs x 124 factors incl. k/37, k=-37..74): fast and precise forms within 256 eps 2 max(|from|,|to|)(1+|f|) of the exact rational value of the float inputs, factor 0 -> from exactly, precise factor 1 -> to exactly; the 14 derived forms (reference impls, clamped forms, 8 inclusive-range forms) and 4 Transition routes are bit-identical to the base form at the (clamped) factor; plus 10^2 pairs of extreme magnitudes (MAX/4, MAX/2, MIN_POSITIVE, subnormals) x 9 factors in [0,1]: exact endpoints and the convex-hull law; non-trivial: from != to and f not in {0,1}", true, false, |s| {
        s.require_classes(&["fast!=precise (bitwise)", "fast form misses `to` at factor 1", "extreme-magnitude"]);
        float_lerp_more!(s, f64); float_lerp_more!(s, f32);
    });

    rep.section("float vectors: every lane of the 13 types, all 24 forms (f64, f32)",
        "13 vector types x {f64, f32} x R rounds of lane-distinct inexact endpoints (R = 3 quick, 8 thorough) x 9 factors (scalar) and a lane-varying factor vector: the 16 Lerp-trait forms (value/reference x fast/precise x clamped/unclamped x plain/inclusive-range) are bit-identical, lane by lane, to the scalar Lerp impl (checked against exact rationals above) applied to that lane's own elements at the (clamped) factor - the precise forms to the precise scalar formula, the fast forms to the fast one; the 8 inherent forms (scalar and per-element factor) are within 256 eps 2 max(|from|,|to|)(1+|f|) of the exact rational value, exact at factor 0 and (precise) at factor 1; non-trivial: all lanes", true, false, |s| {
        s.require_classes(&["Vec2", "Vec3", "Vec4", "Vec8", "Vec16", "Vec32", "Vec64", "Extent2", "Extent3", "Rgb", "Rgba", "Uv", "Uvw", "lanes where the scalar fast and precise forms differ bitwise", "lanes where the fast form misses `to` at factor 1"]);
        let rounds = if s.thorough() { 8 } else { 3 };
        for_all_vecs!(V => { vec_lerp_float!(s, V, f64, rounds); vec_lerp_float!(s, V, f32, rounds); });
        s.sample(json!({"type": "Vec3<f64>", "lane_endpoints": "from_i = ((i+r)*37+11 mod 101)*0.173-8.1, to_i = ((i+r)*53+29 mod 103)*0.291-15.3", "law": "Lerp::lerp_unclamped_precise(a,b,f).lane(i) bit== f64::lerp_unclamped_precise(a_i,b_i,f)"}));
    });

    rep.section("integer vectors through the Lerp trait (u8, i8, u16, i32 elements; f32 and f64 factors)",
        "13 vector types x element types {u8, i8, u16, i32} x factor types {f32, f64} x 3 rounds of lane-distinct endpoints anywhere in the element range (range limits in lanes 0/1, descending lanes) x factors k/8, k=-8..16 x 10 trait forms (value/reference, fast/precise, clamped, two range forms): each lane equals round-half-away(from_i + f (to_i - from_i)) computed in exact rationals, asserted when it lies in the element range; non-trivial: all asserted lanes", true, false, |s| {
        s.require_classes(&["to<from", "Vec64", "Rgba", "Extent2"]);
        for_all_vecs!(V => { vec_lerp_int!(s, V, u8, f32); vec_lerp_int!(s, V, i8, f32); vec_lerp_int!(s, V, u8, f64); vec_lerp_int!(s, V, i8, f64); vec_lerp_int!(s, V, u16, f32); vec_lerp_int!(s, V, i32, f64); });
        s.sample(json!({"type": "Rgba<u8>", "call": "Lerp::lerp(Rgba(255,0,..), Rgba(0,255,..), 0.5f32)", "want_lane0": 128, "want_lane1": 128}));
    });

    rep.section("integer Lerp: inclusive-range forms and factors that are not multiples of 1/8",
        "8- and 16-bit types x pairs of an alphabet (quick: 40 values incl. limits; thorough: ALL 65536 pairs of i8/u8 and 160^2 of i16/u16) x {f32, f64}: (1) the 8 inclusive-range forms on factors k/8 against the exact rounded value; (2) fast/precise x clamped/unclamped x value/reference at 12 non-dyadic factors (0.1, 0.3, 1/3, 0.7, 0.9, -0.3, 1.7, 1e-3, 0.999, 0.45, 2/3, -0.85): the float factor is converted exactly, the real-valued result rounded half away from zero; asserted when the exact value is farther than 8 eps max(|from|,|to|)(1+|f|) from a rounding tie (then every correctly evaluated formula rounds to the same integer) and lies in the type's range; non-trivial: asserted cases", true, false, |s| {
        s.require_classes(&["range-forms asserted", "non-dyadic asserted"]);
        let th = s.thorough();
        let sub = |min: i128, max: i128, n: i128| -> Vec<i128> { let mut v: Vec<i128> = (0..n).map(|i| min + (max - min) * i / (n - 1)).collect(); v.extend([min, min + 1, max - 1, max, 0, 1, 2, 3, 100, 101, 127, 128, 200, 255]); v.retain(|x| *x >= min && *x <= max); v.sort(); v.dedup(); v };
        let mut acc = (0u64, 0u64, 0u64);
        let v8i: Vec<i128> = if th { (-128..=127).collect() } else { sub(-128, 127, 30) }; let v8u: Vec<i128> = if th { (0..=255).collect() } else { sub(0, 255, 30) };
        let (v16i, v16u) = (sub(i16::MIN as i128, i16::MAX as i128, if th { 150 } else { 24 }), sub(0, u16::MAX as i128, if th { 150 } else { 24 }));
        int_lerp_extra!(s, i8, f32, &v8i, acc); int_lerp_extra!(s, i8, f64, &v8i, acc); int_lerp_extra!(s, u8, f32, &v8u, acc); int_lerp_extra!(s, u8, f64, &v8u, acc);
        int_lerp_extra!(s, i16, f32, &v16i, acc); int_lerp_extra!(s, i16, f64, &v16i, acc); int_lerp_extra!(s, u16, f32, &v16u, acc); int_lerp_extra!(s, u16, f64, &v16u, acc);
        s.evals(acc.0 + acc.1 + acc.2, acc.0 + acc.1); s.class_n("range-forms asserted", acc.0); s.class_n("non-dyadic asserted", acc.1); s.class_n("skipped(outside the type's range or too close to a tie)", acc.2);
        s.sample(json!({"call": "lerp_unclamped(200u8, 100u8, 0.3f32)", "exact": "200 - 100*0.300000011920929 = 169.9999988...", "want": 170}));
    });

    rep.section("narrow and wide integers with f64 / f32 factors next to rounding ties",
        "endpoints (from, to) from a small set per type (u8, i8, u16, i16, i32, i64) x every tie position k + 1/2 between them (at most 6 per pair) x factor = the float nearest to (k + 1/2 +- d)/(to - from) for d in {1e-9, 1e-6} (f64 factors) and {1e-3} (f32 factors): these factors are NOT representable in f32 / are far from dyadic grids; the exact value from + f*(to - from) is computed from the factor's exact rational value and rounded half away from zero; asserted when its distance to the tie exceeds 1e-12 (f64) / 1e-4 (f32) relative to |to - from| + |from| (so the float evaluation cannot legitimately cross the tie); forms: lerp_unclamped, lerp_unclamped_precise, lerp, lerp_precise; non-trivial: all", true, false, |s| {
        s.require_classes(&["f64 factor, 8/16-bit endpoints", "f64 factor, wide endpoints", "f32 factor"]);
        macro_rules! ties { ($T:ty, $name:literal, $pairs:expr, $cls:literal) => {{
            let pairs: Vec<($T, $T)> = $pairs;
            for &(from, to) in &pairs {
                let span = to as i128 - from as i128;
                if span == 0 { continue; }
                let steps: Vec<i128> = { let n = span.abs(); let mut v: Vec<i128> = vec![0, 1, n / 2, n - 2, n - 1]; v.retain(|&k| k >= 0 && k < n); v.sort(); v.dedup(); v };
                for &k in &steps { for sign in [-1.0f64, 1.0] {
                    // f64 factors
                    for d in [1e-9f64, 1e-6] {
                        let f = ((k as f64 + 0.5 + sign * d) / span.abs() as f64).clamp(0.0, 1.0);
                        let fq = vx::fl::qf(f);
                        let exact = Q::new(from as i128, 1).add(fq.mul(Q::new(span, 1)));
                        let want = exact.round();   // half away from zero
                        let dist = exact.sub(exact.floor()).sub(Q::new(1, 2)).abs().to_f64();
                        if dist <= 1e-12 * (span.abs() as f64 + (from as f64).abs()) { continue; }
                        s.eval(true); s.class($cls);
                        for (form, got) in [("lerp_unclamped", catch(|| <$T as Lerp<f64>>::lerp_unclamped(from, to, f))), ("lerp_unclamped_precise", catch(|| <$T as Lerp<f64>>::lerp_unclamped_precise(from, to, f))),
                                            ("lerp", catch(|| <$T as Lerp<f64>>::lerp(from, to, f))), ("lerp_precise", catch(|| <$T as Lerp<f64>>::lerp_precise(from, to, f)))] {
                            match got { Ok(g) => if Q::new(g as i128, 1) != want { s.violation_w(&format!("Lerp<f64>::{} for {}", form, $name), "not-the-exact-value-rounded-to-nearest(near a tie)", json!({"from": from as i64, "to": to as i64, "factor": f, "got": g as i64, "want": want.to_f64(), "exact": exact.to_f64()}), k as u64); },
                                        Err(e) => s.violation_w(&format!("Lerp<f64>::{} for {}", form, $name), "panic", json!({"from": from as i64, "to": to as i64, "factor": f, "error": format!("{:?}", e)}), k as u64) }
                        }
                    }
                    // f32 factors (only where the type's values are exact in f32)
                    if (from as i128).abs() <= 1 << 20 && (to as i128).abs() <= 1 << 20 {
                        let f = (((k as f64 + 0.5 + sign * 1e-3) / span.abs() as f64).clamp(0.0, 1.0)) as f32;
                        let fq = vx::fl::qf(f as f64);
                        let exact = Q::new(from as i128, 1).add(fq.mul(Q::new(span, 1)));
                        let want = exact.round();
                        let dist = exact.sub(exact.floor()).sub(Q::new(1, 2)).abs().to_f64();
                        if dist <= 1e-4 * (span.abs() as f64 + (from as f64).abs()) { continue; }
                        s.eval(true); s.class("f32 factor");
                        for (form, got) in [("lerp_unclamped", catch(|| <$T as Lerp<f32>>::lerp_unclamped(from, to, f))), ("lerp_unclamped_precise", catch(|| <$T as Lerp<f32>>::lerp_unclamped_precise(from, to, f)))] {
                            match got { Ok(g) => if Q::new(g as i128, 1) != want { s.violation_w(&format!("Lerp<f32>::{} for {}", form, $name), "not-the-exact-value-rounded-to-nearest(near a tie)", json!({"from": from as i64, "to": to as i64, "factor": f, "got": g as i64, "want": want.to_f64(), "exact": exact.to_f64()}), k as u64); },
                                        Err(e) => s.violation_w(&format!("Lerp<f32>::{} for {}", form, $name), "panic", json!({"from": from as i64, "to": to as i64, "factor": f, "error": format!("{:?}", e)}), k as u64) }
                        }
                    }
                } }
            }
        }} }
        ties!(u8, "u8", vec![(0, 1), (0, 255), (255, 0), (3, 200), (200, 100)], "f64 factor, 8/16-bit endpoints");
        ties!(i8, "i8", vec![(0, 1), (-128, 127), (127, -128), (-5, 90), (10, -10)], "f64 factor, 8/16-bit endpoints");
        ties!(u16, "u16", vec![(0, 1), (0, 65535), (65535, 0), (1000, 1007)], "f64 factor, 8/16-bit endpoints");
        ties!(i16, "i16", vec![(0, 1), (-32768, 32767), (300, -300), (-7, 0)], "f64 factor, 8/16-bit endpoints");
        ties!(i32, "i32", vec![(0, 1), (-1000, 1000), (100000, 100009), (1 << 20, 0)], "f64 factor, wide endpoints");
        ties!(i64, "i64", vec![(0, 1), (-1000, 1000), (1 << 20, -(1 << 20))], "f64 factor, wide endpoints");
        // (second-pass audit) the remaining members of the integer impl list
        ties!(u32, "u32", vec![(0, 1), (1000, 0), (100000, 100009), (1 << 20, 7)], "f64 factor, wide endpoints");
        ties!(u64, "u64", vec![(0, 1), (1000, 0), (3, 1 << 20)], "f64 factor, wide endpoints");
        ties!(isize, "isize", vec![(0, 1), (-1000, 1000), (1 << 20, -(1 << 20))], "f64 factor, wide endpoints");
        ties!(usize, "usize", vec![(0, 1), (1000, 0), (100000, 100009)], "f64 factor, wide endpoints");
    });

    rep.section("quaternion slerp, exact, general endpoints (from = q0 r^k1, to = +-q0 r^(k1+4))",
        "q0 in 5 rational unit quaternions (no zero component but one), r^k = (axis sin(k phi), cos(k phi)) for 5 rational unit axes and rational angle bases phi (3 quick, 6 thorough), k1 in {0,1}, both signs of `to`, factors j/4, j=-2..6: slerp_unclamped(from, to, j/4) = q0 r^(k1+j) exactly (Hamilton product computed here on arrays): neither endpoint is the identity, endpoints do not commute with the axis; inherent, Slerp value/reference, clamped forms; non-trivial: j not in {0,4}", true, false, |s| {
        s.require_classes(&["sign-flip-branch", "direct-branch"]);
        let hmul = |a: [X; 4], b: [X; 4]| -> [X; 4] { [
            a[3] * b[0] + b[3] * a[0] + (a[1] * b[2] - a[2] * b[1]),
            a[3] * b[1] + b[3] * a[1] + (a[2] * b[0] - a[0] * b[2]),
            a[3] * b[2] + b[3] * a[2] + (a[0] * b[1] - a[1] * b[0]),
            a[3] * b[3] - (a[0] * b[0] + a[1] * b[1] + a[2] * b[2]) ] };
        let q0s: [[X; 4]; 5] = [[q(1, 5), q(2, 5), q(2, 5), q(4, 5)], [q(2, 7), q(3, 7), q(6, 7), qi(0)], [q(1, 2), q(-1, 2), q(1, 2), q(-1, 2)], [q(2, 9), q(4, 9), q(5, 9), q(6, 9)], [q(-1, 5), q(2, 5), q(-4, 5), q(-2, 5)]];
        let axes: [[X; 3]; 5] = [[qi(1), qi(0), qi(0)], [qi(0), qi(1), qi(0)], [qi(0), qi(0), qi(-1)], [q(1, 3), q(2, 3), q(2, 3)], [q(2, 7), q(-3, 7), q(6, 7)]];
        let bases: &[(i128, i128)] = if s.thorough() { &[(1, 8), (1, 10), (1, 12), (1, 16), (2, 21), (1, 20)] } else { &[(1, 8), (1, 12), (1, 20)] };
        for &(tn, td) in bases {
            let b = angle_base_t(tn, td);
            clear_inverse(); register_inverse(X::tok(b, 4));
            for q0 in &q0s { for ax in &axes { for k1 in [0i128, 1] { for flip in [false, true] {
                let rk = |k: i128| -> [X; 4] { let (sn, cs) = X::tok(b, k).sin_cos_q(); [ax[0] * X::R(sn), ax[1] * X::R(sn), ax[2] * X::R(sn), X::R(cs)] };
                let built = catch(|| (hmul(*q0, rk(k1)), hmul(*q0, rk(k1 + 4))));
                let (fa, ta) = match built { Ok(v) => v, Err(_) => { s.unmodelled("rational overflow building the endpoints"); continue; } };
                let sg = if flip { qi(-1) } else { qi(1) };
                let from = Quaternion { x: fa[0], y: fa[1], z: fa[2], w: fa[3] };
                let to = Quaternion { x: sg * ta[0], y: sg * ta[1], z: sg * ta[2], w: sg * ta[3] };
                s.class(if flip { "sign-flip-branch" } else { "direct-branch" });
                let dq = |r: Quaternion<X>| [r.x, r.y, r.z, r.w];
                for j in -2i128..=6 {
                    let f = q(j, 4);
                    let jc = j.clamp(0, 4);
                    let (want, want_cl) = match catch(|| (hmul(*q0, rk(k1 + j)), hmul(*q0, rk(k1 + jc)))) { Ok(v) => v, Err(_) => { s.unmodelled("rational overflow in the oracle"); continue; } };
                    let inp = || json!({"from": jxs(&dq(from)), "to": jxs(&dq(to)), "factor": jx(f), "phi_base_t": format!("{}/{}", tn, td)});
                    for (name, got, w) in [
                        ("Quaternion::slerp_unclamped", s.call("slerp", inp, || dq(Quaternion::slerp_unclamped(from, to, f))), want),
                        ("Slerp::slerp_unclamped for Quaternion", s.call("slerp", inp, || dq(<Quaternion<X> as Slerp<X>>::slerp_unclamped(from, to, f))), want),
                        ("Slerp::slerp_unclamped for &Quaternion", s.call("slerp", inp, || dq(<&Quaternion<X> as Slerp<X>>::slerp_unclamped(&from, &to, f))), want),
                        ("Quaternion::slerp", s.call("slerp", inp, || dq(Quaternion::slerp(from, to, f))), want_cl),
                        ("Slerp::slerp for Quaternion", s.call("slerp", inp, || dq(<Quaternion<X> as Slerp<X>>::slerp(from, to, f))), want_cl),
                        ("Slerp::slerp for &Quaternion", s.call("slerp", inp, || dq(<&Quaternion<X> as Slerp<X>>::slerp(&from, &to, f))), want_cl),
                    ] {
                        s.eval(j != 0 && j != 4);
                        if let Some(g) = got { if g != w { s.violation(name, "not-on-the-arc-at-constant-speed", json!({"input": inp(), "got": jxs(&g), "want": jxs(&w)})); } }
                    }
                    if s.wants_sample() && j == 1 && flip { s.sample(json!({"input": inp(), "want": jxs(&want)})); }
                }
            } } } }
        }
    });

    rep.section("quaternion nlerp direction and slerp on general pairs against a Gram-Schmidt reference (f64, f32)",
        "all ordered pairs of Q unit quaternions (16 axes x 4 angles incl. rotation angles > pi, i.e. w < 0 and both signs of a rotation; thorough 21 x 8) x 11 factors in [-0.5,1.5], for f64 and f32: the 12 Lerp-trait forms (value/reference, fast/precise, clamped, range) return the component interpolation scaled to unit length within 64 eps (1+|f|) max|q| / |lerp| - for unit inputs and for inputs scaled by 3 and 1/4 (skipped where the interpolated components pass within 5% of zero); slerp_unclamped = cos(f theta) a + sin(f theta) e2 with e2 from Gram-Schmidt of +-b against a and theta = atan2(|u|, |a.b|) (unit, shorter arc, constant angular speed, both ends) within 256 eps (1+|f|) 4 / sin theta; pairs with |a.b| < 1e-6 skipped (both arcs equally short); Slerp value/reference and the three clamped forms bit-identical to slerp_unclamped at the (clamped) factor; non-trivial: all", true, false, |s| {
        s.require_classes(&["sign-flip-branch (dot < 0)", "direct-branch (dot > 0)", "nlerp-direction", "nlerp-of-non-unit-inputs", "general-pair-on-the-arc"]);
        quat_float!(s, f64); quat_float!(s, f32);
        // a factor type that converts into the element type (Slerp<f32> for Quaternion<f64>)
        let qa = Quaternion { x: 0.1f64, y: -0.5, z: 0.3, w: (1.0f64 - 0.35).sqrt() }; let qb = Quaternion { x: -0.7f64, y: 0.1, z: 0.1, w: -(1.0f64 - 0.51).sqrt() };
        for k in -4i32..=12 {
            let f = k as f32 / 8.0 + 0.01; let fc = if f < 0.0 { 0.0 } else if f > 1.0 { 1.0 } else { f };
            let b4 = |r: Quaternion<f64>| [r.x.to_bits(), r.y.to_bits(), r.z.to_bits(), r.w.to_bits()];
            s.evals(4, 4); s.class("factor-type-converts-into-element-type");
            for (name, g, w) in [("Slerp<f32>::slerp_unclamped for Quaternion<f64>", <Quaternion<f64> as Slerp<f32>>::slerp_unclamped(qa, qb, f), Quaternion::slerp_unclamped(qa, qb, f as f64)),
                                 ("Slerp<f32>::slerp_unclamped for &Quaternion<f64>", <&Quaternion<f64> as Slerp<f32>>::slerp_unclamped(&qa, &qb, f), Quaternion::slerp_unclamped(qa, qb, f as f64)),
                                 ("Slerp<f32>::slerp for Quaternion<f64>", <Quaternion<f64> as Slerp<f32>>::slerp(qa, qb, f), Quaternion::slerp_unclamped(qa, qb, fc as f64)),
                                 ("Slerp<f32>::slerp for &Quaternion<f64>", <&Quaternion<f64> as Slerp<f32>>::slerp(&qa, &qb, f), Quaternion::slerp_unclamped(qa, qb, fc as f64))] {
                if b4(g) != b4(w) { s.violation(name, "differs-from-slerp_unclamped-at-the-converted-factor", json!({"factor": f})); }
            }
        }
    });

    rep.section("Transform lerp: inexact endpoints, mixed element types, clamped and range forms, endpoints",
        "7x7 (thorough 8x8) ordered pairs of transforms (non-axis-aligned rotation axes, orientations in both hemispheres, inexact positions/scales) x 8 factors (-0.4, 0, 0.3, 0.5, 0.7, 1, 1.6, 1/3; thorough + k/7, k=-7..21) x 12 forms (value/reference x fast/precise x clamped/unclamped + 4 range forms) for Transform<f64,f64,f64> (factor f64), Transform<f32,f64,f32> (factor f32 converting into the f64 orientation), Transform<i32,f32,u8> (integer position and scale): position and scale lanes equal the SCALAR Lerp impl of that lane (precise forms the precise one: the inputs are chosen so that fast != precise), orientation equals Quaternion::slerp_unclamped at the converted (clamped) factor; and independently: factor 0 gives `from`, factor 1 gives `to` (position/scale exactly for precise forms, orientation up to sign within 64 eps); non-trivial: all", true, false, |s| {
        s.require_classes(&["fast!=precise [f64,f64,f64]", "fast!=precise [f32,f64,f32]", "orientations-in-opposite-hemispheres", "i32,f32,u8"]);
        transform_more!(s, f64, f64, f64, f64, |i: usize| Vec3 { x: 0.1 + i as f64 * 1.7, y: -7.3 * i as f64, z: 123.456 - i as f64 / 3.0 }, |i: usize| Vec3 { x: 1.0 + i as f64 / 7.0, y: 0.3 * (i as f64 + 1.0), z: 2.0 - 0.27 * i as f64 }, "f64,f64,f64");
        transform_more!(s, f32, f64, f32, f32, |i: usize| Vec3 { x: 0.1 + i as f32 * 1.7, y: -7.3 * i as f32, z: 123.456 - i as f32 / 3.0 }, |i: usize| Vec3 { x: 1.0 + i as f32 / 7.0, y: 0.3 * (i as f32 + 1.0), z: 2.0 - 0.27 * i as f32 }, "f32,f64,f32");
        transform_more!(s, i32, f32, u8, f32, |i: usize| Vec3 { x: 1000 - 333 * i as i32, y: i32::MIN / 512 + i as i32, z: 7 * (i as i32 % 3) - 5 }, |i: usize| Vec3 { x: 200 - 25 * i as u8, y: 3 + i as u8, z: if i % 2 == 0 { 255 } else { 0 } }, "i32,f32,u8");
        s.sample(json!({"T": "Transform<f32,f64,f32>", "factor_type": "f32", "law": "position.x == f32::lerp_unclamped_precise(a.position.x, b.position.x, t) for the precise forms; orientation == Quaternion::<f64>::slerp_unclamped(a.o, b.o, t as f64)"}));
    });

    rep.section("Transition: inputs on which clamped/unclamped and fast/precise all differ; progress sequences; defaults",
        "element types {f32 (0.1 -> -7.3), f64 progress with f64 and with i64/u8 elements, Vec3<f32>, Rgba<u8> descending, i32 descending through 0, Quaternion<f32> (nlerp), Transform<f32,f32,f32>} x mappers {x^2, 1-x, 3x^2-2x^3, x (function pointer)} x a sequence of 9 progress values written into one transition object (-0.5, 0, 0.3, 0.25, 0.7, 1, 1.5, 1/3, 0.9; thorough + 45 more in (-2,2), non-monotone): the 4 by-reference accessors, then the 4 consuming ones on a copy, equal the direct Lerp call of the same flavour at the mapped progress, and the by-reference accessors leave start/end/progress untouched; LinearTransition on the same; Default / From<fn> / From<Range> constructors; the exact element type X through all 8 accessors; non-trivial: all", true, false, |s| {
        s.require_classes(&["cases where fast != precise", "cases where clamped != unclamped"]);
        let mut acc = (0u64, 0u64, 0u64);
        transition_more!(s, f32, f32, 0.1, -7.3, "f32", acc);
        transition_more!(s, f64, f64, 0.1, -7.3, "f64", acc);
        transition_more!(s, Vec3<f32>, f32, Vec3 { x: 0.1, y: 123.456, z: -0.001 }, Vec3 { x: -7.3, y: 0.7, z: 999.999 }, "Vec3<f32>", acc);
        transition_more!(s, vek::Rgba<u8>, f32, vek::Rgba { r: 255, g: 200, b: 0, a: 17 }, vek::Rgba { r: 0, g: 100, b: 255, a: 18 }, "Rgba<u8>", acc);
        transition_more!(s, i32, f32, 20, -10, "i32", acc);
        transition_more!(s, i64, f64, -(1i64 << 40) - 1, (1i64 << 50) + 3, "i64,progress f64", acc);
        transition_more!(s, u8, f64, 200, 100, "u8,progress f64", acc);
        transition_more!(s, Quaternion<f32>, f32, Quaternion { x: 0.1, y: -0.5, z: 0.3, w: 0.8062258 }, Quaternion { x: -0.7, y: 0.1, z: 0.1, w: 0.7 }, "Quaternion<f32>", acc);
        transition_more!(s, Transform<f32, f32, f32>, f32,
            Transform { position: Vec3 { x: 0.1, y: -7.3, z: 2.0 }, orientation: Quaternion { x: 0.0, y: 0.6, z: 0.0, w: 0.8 }, scale: Vec3 { x: 1.0, y: 0.3, z: 2.0 } },
            Transform { position: Vec3 { x: 9.7, y: 0.3, z: -1.1 }, orientation: Quaternion { x: -0.6, y: 0.0, z: 0.0, w: -0.8 }, scale: Vec3 { x: 0.7, y: 1.3, z: 0.1 } }, "Transform<f32,f32,f32>", acc);
        s.evals(acc.2, acc.2); s.class_n("cases where fast != precise", acc.0); s.class_n("cases where clamped != unclamped", acc.1);
        // constructors never called before
        fn cube(x: f32) -> f32 { x * x * x }
        s.evals(5, 5);
        let d = Transition::<f32, ProgressMapperFn<f32>, f32>::default();
        if d.start != 0.0 || d.end != 0.0 || d.progress != 0.0 || (d.progress_mapper.0)(0.37) != 0.37 { s.violation("Transition::default", "wrong-fields", json!({})); }
        let dl = LinearTransition::<Vec2<f32>, f32>::default();
        if dl.start != (Vec2 { x: 0.0, y: 0.0 }) || dl.end != (Vec2 { x: 0.0, y: 0.0 }) || dl.progress != 0.0 { s.violation("LinearTransition::default", "wrong-fields", json!({})); }
        for p in [-0.5f32, 0.0, 0.37, 1.0, 2.5] { if vek::ProgressMapper::<f32>::map_progress(&ProgressMapperFn::<f32>::default(), p) != p { s.violation("ProgressMapperFn::default", "not-the-identity", json!({"progress": p})); } }
        let pm: ProgressMapperFn<f32> = (cube as fn(f32) -> f32).into();
        if vek::ProgressMapper::<f32>::map_progress(&pm, 0.7) != cube(0.7) { s.violation("ProgressMapperFn::from(fn)", "not-the-wrapped-function", json!({})); }
        let fr: Transition<i32, ProgressMapperFn<f32>, f32> = (20..-10).into();
        if fr.start != 20 || fr.end != -10 || fr.progress != 0.0 || fr.current() != 20 { s.violation("Transition::from(Range)", "wrong-fields", json!({})); }
        // exact element type, all eight accessors, mapper x^2
        fn sqx(x: X) -> X { x * x }
        for pn in [-2i128, -1, 0, 1, 2, 3, 4, 6] {
            let p = q(pn, 4);
            let t = Transition::<X, ProgressMapperFn<X>, X>::with_mapper_and_progress(qi(3), qi(-5), ProgressMapperFn(sqx as fn(X) -> X), p);
            let m = p * p; let mc = if m > qi(1) { qi(1) } else { m };
            let (wu, wc) = (qi(3) + m * qi(-8), qi(3) + mc * qi(-8));
            s.evals(8, 8);
            for (name, got, want) in [("current", t.current(), wc), ("current_unclamped", t.current_unclamped(), wu), ("current_precise", t.current_precise(), wc), ("current_unclamped_precise", t.current_unclamped_precise(), wu),
                                      ("into_current", t.into_current(), wc), ("into_current_unclamped", t.into_current_unclamped(), wu), ("into_current_precise", t.into_current_precise(), wc), ("into_current_unclamped_precise", t.into_current_unclamped_precise(), wu)] {
                if got != want { s.violation(&format!("Transition<X>::{}", name), "not-the-lerp-at-mapped-progress", json!({"progress": jx(p), "got": jx(got), "want": jx(want)})); }
            }
        }
        s.sample(json!({"T": "f32", "start": 0.1, "end": -7.3, "mapper": "x^2", "progress": 0.3, "current_unclamped": <f32 as Lerp<f32>>::lerp_unclamped(0.1, -7.3, 0.09), "current_unclamped_precise": <f32 as Lerp<f32>>::lerp_unclamped_precise(0.1, -7.3, 0.09)}));
    });

    // =================================================================================================
    // sections added by the second-pass audit (out/AUDIT2.md): special values, thresholds, family members
    // =================================================================================================
    rep.section("quaternion slerp / nlerp on an arc-length ladder: below, at and above the near-parallel threshold, narrow, nearly orthogonal (f64, f32)",
        "7 unit quaternions (identity, a single non-zero lane, general, w < 0) x up to 3 tangent directions x ~50 arc angles (thorough ~200: a 40-step sweep across the threshold, {1,2,5} x 10^-k and pi/2 +- those; 16 factors) (0; 0.1 .. 4 x the fallback threshold sqrt(2 eps) of the element type; the f32 threshold inside the f64 ladder; 1e-12 .. 0.5; pi/2 +- {1e-1 .. 1e-12}; up to 3.0) x both signs of `to` (so nearly antiparallel 4-vectors = nearly the same rotation occur) x 10 factors in [-0.5, 2]: reference from the rounded inputs (compensated dot product, one-rounding Gram-Schmidt, theta = atan2(|u|, |dot|)); slerp_unclamped within 64 eps (1+|f|)^2 of cos(f theta) a + sin(f theta) e2 and of unit length (bound explained in the code: the sin ratios are insensitive to the error of acos); pairs with |dot| <= 64 eps skipped (shorter arc undefined); trait/clamped slerp forms bit-identical; 8 nlerp forms: the normalized component interpolation within 16 eps (1+|f|)/|lerp| and unit within 3 eps (derived: 4u dot, sqrt, division); non-trivial: all", true, false, |s| {
        s.require_classes(&["arc below the fallback threshold", "arc within [0.95, 4] x threshold", "narrow arc (threshold x4 .. 0.05)", "nearly orthogonal pair (dot next to 0, both signs)", "ordinary arc", "nlerp on the ladder"]);
        quat_narrow!(s, f64); quat_narrow!(s, f32);
        s.sample(json!({"from": [0.0, 0.0, 0.0, 1.0], "to": "cos(t) from + sin(t) e, t = 1e-4", "law": "slerp_unclamped(from, to, f) = cos(f t) from + sin(f t) e within 64 eps (1+|f|)^2; a denominator sqrt(1 - cos^2) instead of sin(acos) is off by eps / t^2 = 2e-8 here"}));
    });

    rep.section("nlerp and the unnormalized quaternion lerp on floats: power-of-two scaling, mixed magnitudes (f64, f32)",
        "6x6 ordered pairs of unit quaternions x 7 factors: (1) scaling both endpoints by 2^e (e = +-40 for f32; +-40, +-400 for f64: every squared length representable) leaves the four nlerp forms bit-identical and scales the four *_unnormalized forms exactly (every intermediate scales exactly, so no tolerance); (2) the *_unnormalized family on floats: factor 0 -> from exactly, precise factor 1 -> to exactly also for endpoints 2^40 / 2^-40 apart in magnitude, clamped = unclamped at the clamped factor bitwise, lanes within 256 eps 2 max (1+|f|) of the exact rational value; (3) nlerp of endpoints scaled 2^40 and 2^-40: all 8 forms reach the direction of `from` at (clamped) factor 0, the precise forms the direction of `to` at factor 1, within 8 eps; non-trivial: all", true, false, |s| {
        s.require_classes(&["power-of-two scaling", "mixed-magnitude endpoints", "unnormalized family on floats"]);
        quat_scale!(s, f64, &[40, -40, 400, -400]); quat_scale!(s, f32, &[40, -40]);
    });

    rep.section("float Lerp (scalars and 13 vector types): nearly equal endpoints, factors next to 0 / 1 and far outside, special lanes, power-of-two scaling",
        "scalars f64/f32: (1) 9 values x to = from stepped +-1, 2, 3, 4097 ulps x both orders x 10 factors: both ends exact for BOTH formulas (to - from is exact), the exact value (rationals on the ulp lattice) whenever every intermediate is representable, otherwise within one (fast) / three (precise) roundings; (2) 8^2 endpoint pairs x 16 factors (-0.0, -MIN_POSITIVE, -eps, -1, -1e30, -MAX, next_up(1), 1+2eps, 2, 1e30, MAX, MIN_POSITIVE, eps, next_down(1), 0.5, next_up(0.5)): 6 clamped forms return from / to exactly (precise) or the fast value at the clamped factor, unclamped forms within the derived rounding bound of the exact rational value; (3) 8^2 pairs x 8 factors x scales 2^+-40, 2^+-500 (f32: 2^+-60): result scales exactly; vectors: 12 special lane pairs (0/0, equal, signed zero, 1e20 vs 0.1, adjacent floats, ...) rotated through every lane, single-non-zero-lane inputs, 12 forms: ends exact, equal ends fixed, lanes within the bound; 6 forms exactly covariant under scaling; non-trivial: all", true, false, |s| {
        s.require_classes(&["nearly equal endpoints", "nearly equal endpoints, every intermediate exact", "factor next to 0/1 or far outside", "power-of-two scaling (scalars)", "Vec2", "Vec3", "Vec4", "Vec8", "Vec16", "Vec32", "Vec64", "Extent2", "Extent3", "Rgb", "Rgba", "Uv", "Uvw"]);
        float_lerp_edges!(s, f64, 53, 500); float_lerp_edges!(s, f32, 24, 60);
        for_all_vecs!(V => { vec_lerp_edges!(s, V, f64, 500); vec_lerp_edges!(s, V, f32, 60); });
    });

    rep.section("integer Lerp, all 10 types: factors one ulp around rounding ties and around 0 / 1, factors far outside [0,1]",
        "i8..usize x {f32, f64} x ~40 endpoint pairs (0/1, 1/0, powers of two, small descending, negative, the range limits; thorough: + all pairs in [-12,12]^2 and (0, +-2^k), (2^k, 2^(k+1)) for every k) x 51 factors (thorough: + prev/next of j 2^-k, -j 2^-k, 1 + j 2^-k, j in {1,3,5,7}, k <= 12) (prev / exact / next float of 0.5, 0.25, 0.75, 0.125, 0.375, 1.5, 2.5, -0.5, -1.5, 1, 0, 2, -1, 1/6, 5/6; MIN_POSITIVE, eps, 1 +- eps, -0.0) x 8 forms: the factor is converted exactly; asserted whenever every intermediate of the float formula is representable (then it has no rounding at all and must give the exact value rounded half away from zero - e.g. lerp(0, 1, prev(0.5)) = 0); clamped forms additionally for every factor outside [0,1]; 6 clamped forms at factors +-3e9, +-1e30, +-MAX return the ends; non-trivial: asserted cases", true, false, |s| {
        s.require_classes(&["asserted: i8", "asserted: u8", "asserted: i16", "asserted: u16", "asserted: i32", "asserted: u32", "asserted: i64", "asserted: u64", "asserted: isize", "asserted: usize", "exact value within 2^-20 of a tie, not on it", "factor far outside [0,1]"]);
        macro_rules! one { ($T:ty) => {{ let mut acc = (0u64, 0u64, 0u64, 0u64); int_lerp_f!(s, $T, f32, 24, acc); int_lerp_f!(s, $T, f64, 53, acc);
            s.evals(acc.0 + acc.1, acc.1); s.class_n(concat!("asserted: ", stringify!($T)), acc.1); s.class_n("exact value within 2^-20 of a tie, not on it", acc.2); s.class_n("factor far outside [0,1]", acc.3); s.class_n("skipped(an intermediate of the float formula is not representable, or result outside the range)", acc.0); }} }
        one!(i8); one!(u8); one!(i16); one!(u16); one!(i32); one!(u32); one!(i64); one!(u64); one!(isize); one!(usize);
        s.sample(json!({"call": "<u8 as Lerp<f64>>::lerp_unclamped(0, 1, 0.49999999999999994)", "exact": "0.49999999999999994", "want": 0, "note": "x + 0.5 rounds to 1.0 in f64: truncating (x + 0.5) gives 1"}));
    });
    std::process::exit(rep.finish());
}
