//! C12 — lerp is affine with exact endpoints; nlerp/slerp stay on the unit sphere.
use rayon::prelude::*;
use vek::ops::{Lerp, Slerp};
use vek::{Quaternion, Transform, Transition, LinearTransition, ProgressMapperFn, Vec2, Vec3, Vec4};
use vx::lattice::*;
use vx::q::{angle_base_t, clear_inverse, register_inverse, Q};
use vx::term::Term;
use vx::vecs::VecN;
use vx::*;

// ---- generic vector lerp, decided lane by lane ---------------------------------------------------
/// `lane`: the term the real code produced for lane i when run on free generators
/// from_i = var(3i), to_i = var(3i+1), factor_i = var(3i+2) (or the shared var(9000) for scalar factors).
/// It must mention only its own lane's variables and equal `want` on every point of L(3,D).
fn lane_decides(s: &Section, site: &str, i: usize, lane: Term, fvar: u32, clamped: bool, d: u32) {
    let (vf, vt) = (3 * i as u32, 3 * i as u32 + 1);
    let allowed = [vf, vt, fvar];
    s.eval(true);
    if let Some(v) = lane.vars().into_iter().find(|v| !allowed.contains(v)) {
        s.violation(site, "lane-uses-foreign-element", json!({"lane": i, "term": jd(&lane), "foreign_variable": v}));
        return;
    }
    // factor grid: lattice point c gives factor (c-2)/2 so that values below 0 and above 1 occur
    lattice(3, d, |p| {
        let (from, to, f) = (qi(p[0] as i128 - 1), qi(2 * p[1] as i128 - 3), q(p[2] as i128 - 2, 2));
        let env = |v: u32| if v == vf { from } else if v == vt { to } else { f };
        let fc = if clamped { if f < qi(0) { qi(0) } else if f > qi(1) { qi(1) } else { f } } else { f };
        let want = from + fc * (to - from);
        match catch(|| lane.eval_x(&env)) {
            Ok(g) => if g != want { s.violation_w(site, "not-the-affine-interpolation", json!({"lane": i, "from": jx(from), "to": jx(to), "factor": jx(f), "got": jx(g), "want": jx(want), "term": jd(&lane)}), p.iter().sum::<i64>() as u64); },
            Err(e) => s.violation(site, "uninterpretable-lane", json!({"lane": i, "term": jd(&lane), "err": jd(&e)})),
        }
    });
}

macro_rules! vec_lerp_generic { ($s:expr, $V:ident, $d:expr) => {{
    let s: &Section = $s;
    let n = <$V<Term> as VecN<Term>>::N;
    let name = <$V<Term> as VecN<Term>>::NAME;
    let mk = |off: u32| -> $V<Term> { <$V<Term> as VecN<Term>>::from_elems((0..n as u32).map(|i| Term::var(3 * i + off)).collect()) };
    let (from, to, fv) = (mk(0), mk(1), mk(2));
    let fs = Term::var(9000);
    s.class(name);
    // (function label, result, per-lane factor variable?, clamped?)
    let runs: Vec<(&str, Result<$V<Term>, Caught>, bool, bool)> = vec![
        ("lerp_unclamped(vector factor)", catch(|| $V::lerp_unclamped(from, to, fv)), true, false),
        ("lerp_unclamped_precise(vector factor)", catch(|| $V::lerp_unclamped_precise(from, to, fv)), true, false),
        ("lerp_unclamped(scalar factor)", catch(|| $V::lerp_unclamped(from, to, fs)), false, false),
        ("lerp_unclamped_precise(scalar factor)", catch(|| $V::lerp_unclamped_precise(from, to, fs)), false, false),
        ("lerp(scalar factor)", catch(|| $V::lerp(from, to, fs)), false, true),
        ("lerp_precise(scalar factor)", catch(|| $V::lerp_precise(from, to, fs)), false, true),
        ("Lerp::lerp_unclamped", catch(|| <$V<Term> as Lerp<Term>>::lerp_unclamped(from, to, fs)), false, false),
        ("Lerp::lerp_unclamped_precise", catch(|| <$V<Term> as Lerp<Term>>::lerp_unclamped_precise(from, to, fs)), false, false),
        ("Lerp::lerp", catch(|| <$V<Term> as Lerp<Term>>::lerp(from, to, fs)), false, true),
        ("Lerp::lerp_precise", catch(|| <$V<Term> as Lerp<Term>>::lerp_precise(from, to, fs)), false, true),
        ("Lerp::lerp_unclamped_inclusive_range", catch(|| <$V<Term> as Lerp<Term>>::lerp_unclamped_inclusive_range(from..=to, fs)), false, false),
        ("Lerp::lerp_unclamped_precise_inclusive_range", catch(|| <$V<Term> as Lerp<Term>>::lerp_unclamped_precise_inclusive_range(from..=to, fs)), false, false),
        ("Lerp::lerp_inclusive_range", catch(|| <$V<Term> as Lerp<Term>>::lerp_inclusive_range(from..=to, fs)), false, true),
        ("Lerp::lerp_precise_inclusive_range", catch(|| <$V<Term> as Lerp<Term>>::lerp_precise_inclusive_range(from..=to, fs)), false, true),
        ("&Lerp::lerp_unclamped", catch(|| <&$V<Term> as Lerp<Term>>::lerp_unclamped(&from, &to, fs)), false, false),
        ("&Lerp::lerp_unclamped_precise", catch(|| <&$V<Term> as Lerp<Term>>::lerp_unclamped_precise(&from, &to, fs)), false, false),
        ("&Lerp::lerp", catch(|| <&$V<Term> as Lerp<Term>>::lerp(&from, &to, fs)), false, true),
        ("&Lerp::lerp_precise", catch(|| <&$V<Term> as Lerp<Term>>::lerp_precise(&from, &to, fs)), false, true),
    ];
    for (label, res, per_lane, clamped) in runs {
        let site = format!("{}::{}", name, label);
        match res {
            Ok(v) => { let lanes = v.into_elems(); for (i, t) in lanes.into_iter().enumerate() { lane_decides(s, &site, i, t, if per_lane { 3 * i as u32 + 2 } else { 9000 }, clamped, $d); } }
            Err(e) => s.violation(&site, "panic", json!({"err": jd(&e)})),
        }
    }
    if s.wants_sample() { if let Ok(v) = catch(|| $V::lerp_unclamped_precise(from, to, fs)) { s.sample(json!({"type": name, "call": "lerp_unclamped_precise(from, to, f) on free generators", "lane0": jd(&v.into_elems()[0]), "decided_on": "every point of L(3,D) per lane"})); } }
}} }

// ---- integer Lerp impls -------------------------------------------------------------------------
/// is the rational exactly representable with a `mant`-bit significand (and a sane exponent)?
fn fits(v: Q, mant: u32) -> bool {
    if v.n == 0 { return true; }
    if v.d & (v.d - 1) != 0 { return false; }
    let n = v.n.unsigned_abs();
    let bits = 128 - (n >> n.trailing_zeros()).leading_zeros();
    bits <= mant && v.d.trailing_zeros() < 100
}
fn round_half_away(v: Q) -> i128 { v.round().n }

macro_rules! int_lerp { ($s:expr, $T:ty, $F:ty, $mant:expr, $pairs:expr, $acc:expr) => {{
    let s: &Section = $s;
    let tname = stringify!($T); let fname = stringify!($F);
    let (tmin, tmax) = (<$T>::MIN as i128, <$T>::MAX as i128);
    for &(from, to) in $pairs.iter() {
        let (from, to): (i128, i128) = (from, to);
        for k in -8i32..=16 {
            let fq = Q::new(k as i128, 8);
            let f = k as $F / 8.0;
            let (a, b) = (from as $T, to as $T);
            let exact = Q::int(from).add(fq.mul(Q::int(to - from)));
            let want = round_half_away(exact);
            let fcl = if k < 0 { Q::ZERO } else if k > 8 { Q::ONE } else { fq };
            let want_cl = round_half_away(Q::int(from).add(fcl.mul(Q::int(to - from))));
            // exactness conditions of the float formulas (then the result must equal the oracle exactly)
            let m = $mant;
            let endpoints_exact = fits(Q::int(from), m) && fits(Q::int(to), m);
            let precise_exact = endpoints_exact && fits(Q::int(from).mul(Q::ONE.sub(fq)), m) && fits(Q::int(to).mul(fq), m) && fits(exact, m);
            let fast_exact = endpoints_exact && fits(Q::int(to - from), m) && fits(exact, m);
            let forms: [(&str, bool, i128, Result<$T, Caught>); 8] = [
                ("lerp_unclamped", fast_exact, want, catch(|| <$T as Lerp<$F>>::lerp_unclamped(a, b, f))),
                ("lerp_unclamped_precise", precise_exact, want, catch(|| <$T as Lerp<$F>>::lerp_unclamped_precise(a, b, f))),
                ("lerp", fast_exact, want_cl, catch(|| <$T as Lerp<$F>>::lerp(a, b, f))),
                ("lerp_precise", precise_exact, want_cl, catch(|| <$T as Lerp<$F>>::lerp_precise(a, b, f))),
                ("&lerp_unclamped", fast_exact, want, catch(|| <&$T as Lerp<$F>>::lerp_unclamped(&a, &b, f))),
                ("&lerp_unclamped_precise", precise_exact, want, catch(|| <&$T as Lerp<$F>>::lerp_unclamped_precise(&a, &b, f))),
                ("&lerp", fast_exact, want_cl, catch(|| <&$T as Lerp<$F>>::lerp(&a, &b, f))),
                ("&lerp_precise", precise_exact, want_cl, catch(|| <&$T as Lerp<$F>>::lerp_precise(&a, &b, f))),
            ];
            for (label, exact_ok, w, got) in forms {
                // the property: for endpoints the factor's float type represents exactly, and a
                // result inside the type's range
                if !exact_ok || w < tmin || w > tmax { $acc.0 += 1; continue; }
                $acc.1 += 1; if to < from { $acc.2 += 1; }
                let site = format!("Lerp<{}>::{} for {}", fname, label, tname);
                match got {
                    Ok(g) => if g as i128 != w { s.violation_w(&site, "wrong-value", json!({"from": from.to_string(), "to": to.to_string(), "factor": format!("{}/8", k), "got": (g as i128).to_string(), "want": w.to_string()}), (from.unsigned_abs() + to.unsigned_abs()).min(u64::MAX as u128) as u64) },
                    Err(Caught::Panic(m)) => s.violation_w(&site, if m.contains("overflow") { "overflow-panic" } else { "panic" }, json!({"from": from.to_string(), "to": to.to_string(), "factor": format!("{}/8", k), "want": w.to_string(), "panic": m}), (from.unsigned_abs() + to.unsigned_abs()).min(u64::MAX as u128) as u64),
                    Err(Caught::Unmodelled(u)) => s.unmodelled(u),
                }
            }
        }
    }
}} }

macro_rules! int_lerp_8bit { ($s:expr, $T:ty) => {{
    let s: &Section = $s;
    let all: Vec<i128> = (<$T>::MIN as i128..=<$T>::MAX as i128).collect();
    all.par_iter().for_each(|&from| {
        let pairs: Vec<(i128, i128)> = all.iter().map(|&to| (from, to)).collect();
        let mut acc = (0u64, 0u64, 0u64);
        int_lerp!(s, $T, f32, 24, pairs, acc);
        int_lerp!(s, $T, f64, 53, pairs, acc);
        s.evals(acc.1, acc.1); s.class_n("asserted", acc.1); s.class_n("to<from", acc.2); s.class_n("skipped(result outside the type's range)", acc.0);
    });
    s.sample(json!({"type": stringify!($T), "call": "lerp_unclamped(200u8, 100u8, 0.5f32)" , "want": 150, "pairs": "all 65536 (from,to)", "factors": "k/8, k=-8..16", "forms": 8, "factor_types": ["f32", "f64"]}));
}} }
macro_rules! int_lerp_wide { ($s:expr, $T:ty, $vals:expr) => {{
    let s: &Section = $s;
    let vals: Vec<i128> = $vals;
    let pairs: Vec<(i128, i128)> = vals.iter().flat_map(|&a| vals.iter().map(move |&b| (a, b))).collect();
    let mut acc = (0u64, 0u64, 0u64);
    int_lerp!(s, $T, f32, 24, pairs, acc);
    int_lerp!(s, $T, f64, 53, pairs, acc);
    s.evals(acc.1 + acc.0, acc.1); s.class_n("asserted", acc.1); s.class_n("to<from", acc.2); s.class_n("skipped(float formula inexact or result outside range)", acc.0);
}} }
fn alph(min: i128, max: i128) -> Vec<i128> {
    let mut v = vec![min, min + 1, min / 2, -256, -3, -1, 0, 1, 2, 3, 100, 255, 256, 4096, 1 << 20, 1 << 24, max / 2 + 1, max - 1, max];
    v.retain(|x| *x >= min && *x <= max); v.sort(); v.dedup(); v
}

// ---- floats --------------------------------------------------------------------------------------
macro_rules! float_lerp { ($s:expr, $F:ident) => {{
    let s: &Section = $s;
    let eps = $F::EPSILON as f64;
    let ends: [$F; 11] = [0.0, -0.0, 1.0, -1.0, 0.1, -7.3, 1e-20, 3.0e8, -2.5e8, 123.456, 1e20];
    for &a in &ends { for &b in &ends { for k in -32i32..=64 {
        let f = k as $F / 32.0;
        let fq = Q::new(k as i128, 32);
        let (fast, prec) = (<$F as Lerp<$F>>::lerp_unclamped(a, b, f), <$F as Lerp<$F>>::lerp_unclamped_precise(a, b, f));
        let (rfast, rprec) = (<&$F as Lerp<$F>>::lerp_unclamped(&a, &b, f), <&$F as Lerp<$F>>::lerp_unclamped_precise(&a, &b, f));
        let cl = if k < 0 { 0.0 } else if k > 32 { 1.0 } else { f };
        let (cfast, cprec) = (<$F as Lerp<$F>>::lerp(a, b, f), <$F as Lerp<$F>>::lerp_precise(a, b, f));
        s.evals(6, if k != 0 && k != 32 && a != b { 6 } else { 0 });
        let site = |n: &str| format!("Lerp<{0}>::{1} for {0}", stringify!($F), n);
        let inp = || json!({"from": a, "to": b, "factor": f});
        if k == 0 { s.class("factor-0"); if prec != a || fast != a { s.violation(&site("lerp_unclamped*"), "endpoint-0-not-exact", inp()); } }
        if k == 32 { s.class("factor-1"); if prec != b { s.violation(&site("lerp_unclamped_precise"), "endpoint-1-not-exact", inp()); } }
        if rfast.to_bits() != fast.to_bits() || rprec.to_bits() != prec.to_bits() { s.violation(&site("&lerp_unclamped*"), "reference-impl-differs", inp()); }
        if cfast.to_bits() != <$F as Lerp<$F>>::lerp_unclamped(a, b, cl).to_bits() || cprec.to_bits() != <$F as Lerp<$F>>::lerp_unclamped_precise(a, b, cl).to_bits() { s.violation(&site("lerp/lerp_precise"), "clamped-form-is-not-unclamped-of-clamped-factor", inp()); }
        // affine within the forward error bound (oracle in exact rationals)
        if let Ok(want) = catch(|| { let (aq, bq) = (vx::fl::qf(a as f64), vx::fl::qf(b as f64)); aq.add(fq.mul(bq.sub(aq))).to_f64() }) {
            let scale = (a.abs() as f64).max(b.abs() as f64) * (1.0 + (f.abs() as f64)) * 2.0;
            let tol = vx::fl::K * eps * scale;
            for (n, g) in [("lerp_unclamped", fast), ("lerp_unclamped_precise", prec)] {
                if ((g as f64) - want).abs() > tol { s.violation(&site(n), "not-affine-within-error-bound", json!({"from": a, "to": b, "factor": f, "got": g, "want": want, "tolerance": tol})); }
            }
        } else { s.unmodelled("rational overflow in the oracle"); }
    } } }
    s.sample(json!({"type": stringify!($F), "from": 0.1, "to": -7.3, "factor": "k/32, k=-32..64", "laws": ["f=0 -> from exactly", "precise f=1 -> to exactly", "fast ~ precise ~ exact rational value within 256 eps scale", "lerp == lerp_unclamped(clamp01 f)"]}));
}} }

fn main() {
    let rep = Report::start("C12", "exploration");
    let d = if rep.thorough() { 6 } else { 4 };

    rep.section("generic vector lerp (13 types, inherent + Lerp trait, value + reference, scalar + per-element factor)",
        "each of 18 function forms of each of the 13 vector types is run once on free term generators (operators and the scalar Lerp/Clamp impls are uninterpreted constructors); every lane's resulting term must mention only its own lane's from/to/factor and, interpreted exactly, equal from + clamp?(f)(to-from) on every point of L(3,D), D >= degree 2 (+2 quick, +4 thorough) with factors (c-2)/2 covering <0, 0, 1/2, 1, >1; non-trivial: all", true, true, |s| {
        s.require_classes(&["Vec2", "Vec3", "Vec4", "Vec8", "Vec16", "Vec32", "Vec64", "Extent2", "Extent3", "Rgb", "Rgba", "Uv", "Uvw"]);
        for_all_vecs!(V => { vec_lerp_generic!(s, V, d); });
    });

    rep.section("quaternion component lerp (unnormalized family) as a polynomial identity",
        "L(9, D): from, to in X^4 and factor: lerp_unclamped_unnormalized / lerp_unclamped_precise_unnormalized / lerp_unnormalized / lerp_precise_unnormalized equal the per-component affine interpolation; non-trivial: from != to", true, true, |s| {
        par_lattice(9, d, |p| {
            let c = |i: usize| qi(p[i] as i128);
            let from = Quaternion { x: c(0), y: c(1), z: c(2), w: c(3) - qi(1) };
            let to = Quaternion { x: c(4) - qi(2), y: c(5), z: c(6), w: c(7) };
            let f = q(p[8] as i128 - 2, 2);
            let fcl = if f < qi(0) { qi(0) } else if f > qi(1) { qi(1) } else { f };
            let want = |f: X| [from.x + f * (to.x - from.x), from.y + f * (to.y - from.y), from.z + f * (to.z - from.z), from.w + f * (to.w - from.w)];
            let dq = |r: Quaternion<X>| [r.x, r.y, r.z, r.w];
            let inp = || json!({"from": jxs(&dq(from)), "to": jxs(&dq(to)), "factor": jx(f)});
            for (name, got, w) in [
                ("lerp_unclamped_unnormalized", s.call("q", inp, || dq(Quaternion::lerp_unclamped_unnormalized(from, to, f))), want(f)),
                ("lerp_unclamped_precise_unnormalized", s.call("q", inp, || dq(Quaternion::lerp_unclamped_precise_unnormalized(from, to, f))), want(f)),
                ("lerp_unnormalized", s.call("q", inp, || dq(Quaternion::lerp_unnormalized(from, to, f))), want(fcl)),
                ("lerp_precise_unnormalized", s.call("q", inp, || dq(Quaternion::lerp_precise_unnormalized(from, to, f))), want(fcl)),
            ] {
                s.eval(dq(from) != dq(to));
                if let Some(g) = got { if g != w { s.violation_w(&format!("Quaternion::{}", name), "not-the-affine-interpolation", json!({"input": inp(), "got": jxs(&g), "want": jxs(&w)}), p.iter().sum::<i64>() as u64); } }
            }
            if s.wants_sample() && p.iter().sum::<i64>() == d as i64 { s.sample(json!({"input": inp(), "want": jxs(&want(f))})); }
        });
    });

    let r_int = "ALL 65536 (from,to) pairs of the 8-bit type x factors k/8 (k=-8..16) x factor types {f32,f64} x {fast, precise} x {by value, by reference} x {clamped, unclamped}; oracle: exact rational from + f(to-from) rounded half away from zero, asserted whenever it lies in the type's range (8-bit endpoints and 3-bit factors make the float formulas exact, so no tolerance); non-trivial: all asserted cases";
    rep.section("integer Lerp: i8 exhaustive", r_int, true, false, |s| { s.require_classes(&["asserted", "to<from"]); int_lerp_8bit!(s, i8); });
    rep.section("integer Lerp: u8 exhaustive", r_int, true, false, |s| { s.require_classes(&["asserted", "to<from"]); int_lerp_8bit!(s, u8); });
    rep.section("integer Lerp: wider types, boundary alphabets",
        "squares of boundary alphabets (range limits, halves, powers of two, small values) for i16,u16,i32,u32,i64,u64,isize,usize x the same factors/forms; a case is asserted only when the endpoints and every intermediate of the float formula are exactly representable in the factor's float type (checked in exact rationals), otherwise skipped and counted; non-trivial: asserted cases", true, false, |s| {
        s.require_classes(&["asserted", "to<from"]);
        int_lerp_wide!(s, i16, alph(i16::MIN as i128, i16::MAX as i128)); int_lerp_wide!(s, u16, alph(0, u16::MAX as i128));
        int_lerp_wide!(s, i32, alph(i32::MIN as i128, i32::MAX as i128)); int_lerp_wide!(s, u32, alph(0, u32::MAX as i128));
        int_lerp_wide!(s, i64, alph(i64::MIN as i128, i64::MAX as i128)); int_lerp_wide!(s, u64, alph(0, u64::MAX as i128));
        int_lerp_wide!(s, isize, alph(isize::MIN as i128, isize::MAX as i128)); int_lerp_wide!(s, usize, alph(0, usize::MAX as i128));
        s.sample(json!({"type": "i32", "call": "lerp_unclamped(i32::MIN, i32::MAX, 0.5f64)", "want": "0 (exact value -0.5 rounds half away from zero to -1? no: MIN + 0.5*(MAX-MIN) = -0.5 -> -1)"}));
    });

    let r_fl = "11^2 endpoint pairs (signed zeros, tiny, huge, mixed signs) x 97 factors k/32 in [-1,2] x {fast, precise} x {value, reference} x {clamped}: factor 0 returns from exactly, the precise form returns to exactly at 1, both forms are within 256 eps max(|from|,|to|)(1+|f|)2 of the exact rational interpolation, reference impls are bit-identical, clamped = unclamped on the clamped factor; non-trivial: from != to and 0 != f != 1";
    rep.section("float Lerp: f64", r_fl, true, false, |s| { s.require_classes(&["factor-0", "factor-1"]); float_lerp!(s, f64); });
    rep.section("float Lerp: f32", r_fl, true, false, |s| { s.require_classes(&["factor-0", "factor-1"]); float_lerp!(s, f32); });

    // ---- quaternion nlerp / slerp -------------------------------------------------------------------
    rep.section("quaternion slerp, exact (angle tokens)",
        "from = identity, to = +-(axis sin 4phi, cos 4phi) for unit axes {x,y,z,(1,2,2)/3,(2,3,6)/7} and 6 rational angle bases phi with 4phi < pi/2 (so that +-to exercises the sign-flip branch), factors j/4, j=-2..6: slerp_unclamped = (axis sin(j phi), cos(j phi)) exactly: unit, constant angular speed, shorter arc, far end up to sign; plus from == to (near-parallel fallback) and to == -from (same rotation: result +-from at every factor); Slerp trait for values and references and the clamped form; non-trivial: j not in {0,4}", true, false, |s| {
        s.require_classes(&["sign-flip-branch", "direct-branch", "parallel-fallback"]);
        let axes: [[X; 3]; 5] = [[qi(1), qi(0), qi(0)], [qi(0), qi(1), qi(0)], [qi(0), qi(0), qi(-1)], [q(1, 3), q(2, 3), q(2, 3)], [q(2, 7), q(-3, 7), q(6, 7)]];
        for (tn, td) in [(1, 8), (1, 10), (1, 12), (1, 16), (2, 21), (1, 20)] {
            let b = angle_base_t(tn, td);
            clear_inverse();
            register_inverse(X::tok(b, 4));
            for ax in &axes { for flip in [false, true] {
                let (s4, c4) = X::tok(b, 4).sin_cos_q();
                assert!(s4.n > 0 && c4.n > 0);
                let sg = if flip { qi(-1) } else { qi(1) };
                let from = Quaternion { x: qi(0), y: qi(0), z: qi(0), w: qi(1) };
                let to = Quaternion { x: sg * ax[0] * X::R(s4), y: sg * ax[1] * X::R(s4), z: sg * ax[2] * X::R(s4), w: sg * X::R(c4) };
                s.class(if flip { "sign-flip-branch" } else { "direct-branch" });
                for j in -2i128..=6 {
                    let f = q(j, 4);
                    let (sj, cj) = X::tok(b, j).sin_cos_q();
                    let want = [ax[0] * X::R(sj), ax[1] * X::R(sj), ax[2] * X::R(sj), X::R(cj)];
                    let dq = |r: Quaternion<X>| [r.x, r.y, r.z, r.w];
                    let inp = || json!({"to": jxs(&dq(to)), "factor": jx(f), "phi_base_t": format!("{}/{}", tn, td)});
                    let fc = if j < 0 { 0 } else if j > 4 { 4 } else { j };
                    let (sc, cc) = X::tok(b, fc).sin_cos_q();
                    let want_cl = [ax[0] * X::R(sc), ax[1] * X::R(sc), ax[2] * X::R(sc), X::R(cc)];
                    for (name, got, w) in [
                        ("Quaternion::slerp_unclamped", s.call("slerp", inp, || dq(Quaternion::slerp_unclamped(from, to, f))), want),
                        ("Slerp::slerp_unclamped for Quaternion", s.call("slerp", inp, || dq(<Quaternion<X> as Slerp<X>>::slerp_unclamped(from, to, f))), want),
                        ("Slerp::slerp_unclamped for &Quaternion", s.call("slerp", inp, || dq(<&Quaternion<X> as Slerp<X>>::slerp_unclamped(&from, &to, f))), want),
                        ("Quaternion::slerp", s.call("slerp", inp, || dq(Quaternion::slerp(from, to, f))), want_cl),
                        ("Slerp::slerp for &Quaternion", s.call("slerp", inp, || dq(<&Quaternion<X> as Slerp<X>>::slerp(&from, &to, f))), want_cl),
                    ] {
                        s.eval(j != 0 && j != 4);
                        if let Some(g) = got { if g != w { s.violation(name, "not-on-the-arc-at-constant-speed", json!({"input": inp(), "got": jxs(&g), "want": jxs(&w)})); } }
                    }
                    if s.wants_sample() && j == 1 && flip { s.sample(json!({"input": inp(), "want": jxs(&want)})); }
                }
            } }
        }
        // from == to: the near-parallel lerp fallback returns the same unit quaternion for every factor
        for ax in &axes {
            let qq = Quaternion { x: ax[0] * q(3, 5), y: ax[1] * q(3, 5), z: ax[2] * q(3, 5), w: q(4, 5) };
            for j in -2i128..=6 {
                s.eval(true); s.class("parallel-fallback");
                let dq = |r: Quaternion<X>| [r.x, r.y, r.z, r.w];
                if let Some(g) = s.call("slerp", || json!({"q": jxs(&dq(qq))}), || dq(Quaternion::slerp_unclamped(qq, qq, q(j, 4)))) {
                    if g != dq(qq) { s.violation("Quaternion::slerp_unclamped", "from==to-not-fixed", json!({"q": jxs(&dq(qq)), "factor": j, "got": jxs(&g)})); }
                }
                // to == -from denotes the same rotation: the shorter arc has length zero, so every factor yields +-from (a unit
                // quaternion for the same rotation); a division by zero / no value at all is a failure, not an unmodelled case
                s.eval(true); s.class("to-is-minus-from");
                let nq = Quaternion { x: -qq.x, y: -qq.y, z: -qq.z, w: -qq.w };
                for (site, r) in [("Quaternion::slerp_unclamped", catch(|| dq(Quaternion::slerp_unclamped(qq, nq, q(j, 4))))), ("Slerp::slerp_unclamped for &Quaternion", catch(|| dq(<&Quaternion<X> as Slerp<X>>::slerp_unclamped(&qq, &nq, q(j, 4)))))] {
                    match r {
                        Ok(g) => if g != dq(qq) && g != dq(nq) { s.violation(site, "to==-from-not-the-same-rotation", json!({"q": jxs(&dq(qq)), "factor/4": j, "got": jxs(&g)})); },
                        Err(e) => s.violation(site, "to==-from-yields-no-value", json!({"q": jxs(&dq(qq)), "factor/4": j, "error": format!("{:?}", e)})),
                    }
                }
            }
        }
    });

    rep.section("quaternion nlerp (Lerp trait) returns unit quaternions; slerp stays unit (f64)",
        "all ordered pairs of 26 unit quaternions (axis in 13 directions x 2 angles) x 9 factors in [-0.5,1.5] (f64): |Lerp result| = 1 within 64 eps for value/reference, fast/precise; |slerp| = 1, slerp(.,.,0) ~ from, slerp(.,.,1) ~ +-to, and for a common axis slerp is the rotation at the interpolated angle (constant angular speed) within 256 eps / sin(angle); pairs with |dot| < 1e-3 of antiparallel-in-4D excluded for nlerp (degenerate: lerp passes near zero); non-trivial: from != to", true, false, |s| {
        s.require_classes(&["common-axis", "general-pair", "to-is-minus-from"]);
        let dirs: Vec<[f64; 3]> = { let mut v = Vec::new(); for x in -1..=1 { for y in -1..=1 { for z in -1..=1 { if (x, y, z) > (0, 0, 0) { v.push([x as f64, y as f64, z as f64]); } } } } v };
        let mut qs: Vec<(usize, f64, Quaternion<f64>)> = Vec::new();
        for (ai, a) in dirs.iter().enumerate() { let n = (a[0] * a[0] + a[1] * a[1] + a[2] * a[2]).sqrt(); for ang in [0.7f64, 2.3] { let (sh, ch) = ((ang / 2.0).sin(), (ang / 2.0).cos()); qs.push((ai, ang, Quaternion { x: a[0] / n * sh, y: a[1] / n * sh, z: a[2] / n * sh, w: ch })); } }
        let norm = |r: Quaternion<f64>| (r.x * r.x + r.y * r.y + r.z * r.z + r.w * r.w).sqrt();
        for &(ai, aa, a) in &qs { for &(bi, ba, b) in &qs { for k in -2i32..=6 {
            let f = k as f64 / 4.0;
            let dot = a.x * b.x + a.y * b.y + a.z * b.z + a.w * b.w;
            s.eval(ai != bi || aa != ba);
            let inp = || json!({"from": [a.x, a.y, a.z, a.w], "to": [b.x, b.y, b.z, b.w], "factor": f});
            // nlerp
            let lerped_norm = { let l = [a.x + f * (b.x - a.x), a.y + f * (b.y - a.y), a.z + f * (b.z - a.z), a.w + f * (b.w - a.w)]; (l[0] * l[0] + l[1] * l[1] + l[2] * l[2] + l[3] * l[3]).sqrt() };
            if lerped_norm > 0.05 {
                for (name, r) in [("Lerp::lerp_unclamped", <Quaternion<f64> as Lerp<f64>>::lerp_unclamped(a, b, f)), ("Lerp::lerp_unclamped_precise", <Quaternion<f64> as Lerp<f64>>::lerp_unclamped_precise(a, b, f)),
                                  ("&Lerp::lerp_unclamped", <&Quaternion<f64> as Lerp<f64>>::lerp_unclamped(&a, &b, f)), ("Lerp::lerp", <Quaternion<f64> as Lerp<f64>>::lerp(a, b, f)),
                                  ("&Lerp::lerp_unclamped_precise", <&Quaternion<f64> as Lerp<f64>>::lerp_unclamped_precise(&a, &b, f)), ("&Lerp::lerp", <&Quaternion<f64> as Lerp<f64>>::lerp(&a, &b, f)),
                                  ("Lerp::lerp_precise", <Quaternion<f64> as Lerp<f64>>::lerp_precise(a, b, f)), ("&Lerp::lerp_precise", <&Quaternion<f64> as Lerp<f64>>::lerp_precise(&a, &b, f)),
                                  ("Quaternion::lerp_unclamped", Quaternion::lerp_unclamped(a, b, f)), ("Quaternion::lerp_unclamped_precise", Quaternion::lerp_unclamped_precise(a, b, f)),
                                  ("Quaternion::lerp", Quaternion::lerp(a, b, f)), ("Quaternion::lerp_precise", Quaternion::lerp_precise(a, b, f))] {
                    if (norm(r) - 1.0).abs() > 64.0 * f64::EPSILON { s.violation(&format!("{} for Quaternion<f64>", name), "not-unit", json!({"input": inp(), "norm": norm(r)})); }
                }
            }
            // slerp
            let r = Quaternion::slerp_unclamped(a, b, f);
            let ct = dot.abs().min(1.0);
            let ang = ct.acos();
            let cond = if ang > 1e-3 { 1.0 / ang.sin() } else { 1.0 };
            let tol = 256.0 * f64::EPSILON * cond * (1.0 + f.abs()) * 4.0;
            if (norm(r) - 1.0).abs() > tol && (0..=4).contains(&k) { s.violation("Quaternion::slerp_unclamped<f64>", "not-unit", json!({"input": inp(), "norm": norm(r), "tolerance": tol})); }
            let close = |p: Quaternion<f64>, q: [f64; 4], t: f64| (p.x - q[0]).abs() <= t && (p.y - q[1]).abs() <= t && (p.z - q[2]).abs() <= t && (p.w - q[3]).abs() <= t;
            if k == 0 && !close(r, [a.x, a.y, a.z, a.w], tol) { s.violation("Quaternion::slerp_unclamped<f64>", "factor-0-is-not-from", inp()); }
            let sg = if dot < 0.0 { -1.0 } else { 1.0 };
            if k == 4 && !close(r, [sg * b.x, sg * b.y, sg * b.z, sg * b.w], tol) { s.violation("Quaternion::slerp_unclamped<f64>", "factor-1-is-not-+-to", inp()); }
            if ai == bi {
                s.class("common-axis");
                // same axis: result is the rotation about it with the interpolated angle (shorter arc)
                let ax = dirs[ai]; let n = (ax[0] * ax[0] + ax[1] * ax[1] + ax[2] * ax[2]).sqrt();
                let (ha, mut hb) = (aa / 2.0, ba / 2.0);
                if dot < 0.0 { hb -= std::f64::consts::PI; }
                let h = ha + f * (hb - ha);
                let want = [ax[0] / n * h.sin(), ax[1] / n * h.sin(), ax[2] / n * h.sin(), h.cos()];
                if !close(r, want, tol) { s.violation("Quaternion::slerp_unclamped<f64>", "not-constant-angular-speed-on-the-shorter-arc", json!({"input": inp(), "got": [r.x, r.y, r.z, r.w], "want": want})); }
            } else { s.class("general-pair"); }
            if s.wants_sample() && k == 1 && ai != bi { s.sample(json!({"input": inp(), "slerp": [r.x, r.y, r.z, r.w]})); }
        } } }
        // to = -from (the same rotation): unit result equal to +-from at every factor, including 1/2 where a plain lerp passes through zero
        for &(_, _, a) in &qs { for k in -2i32..=6 {
            let f = k as f64 / 4.0;
            let b = Quaternion { x: -a.x, y: -a.y, z: -a.z, w: -a.w };
            s.eval(true); s.class("to-is-minus-from");
            for (site, r) in [("Quaternion::slerp_unclamped<f64>", Quaternion::slerp_unclamped(a, b, f)), ("Quaternion::slerp<f64>", Quaternion::slerp(a, b, f)), ("Slerp::slerp_unclamped for &Quaternion<f64>", <&Quaternion<f64> as Slerp<f64>>::slerp_unclamped(&a, &b, f))] {
                let t = 64.0 * f64::EPSILON;
                let same = |sg: f64| (r.x - sg * a.x).abs() <= t && (r.y - sg * a.y).abs() <= t && (r.z - sg * a.z).abs() <= t && (r.w - sg * a.w).abs() <= t;
                if !(same(1.0) || same(-1.0)) { s.violation(site, "to==-from-not-the-same-rotation", json!({"from": [a.x, a.y, a.z, a.w], "factor": f, "got": format!("{:?}", [r.x, r.y, r.z, r.w])})); }
            }
        } }
    });

    rep.section("Transform lerp = (lerp position, slerp orientation, lerp scale)",
        "6x6 ordered pairs of transforms (f64) x 5 factors, value and reference impls, fast and precise: each field is bit-identical to the corresponding part interpolation checked above (differential); non-trivial: all", true, false, |s| {
        let mk = |i: usize| -> Transform<f64, f64, f64> {
            let a = 0.3 + i as f64 * 0.45; let ax = [[1.0, 0.0, 0.0], [0.0, 1.0, 0.0], [0.6, 0.0, 0.8]][i % 3];
            Transform { position: Vec3 { x: i as f64, y: -2.0 * i as f64, z: 0.5 }, orientation: Quaternion { x: ax[0] * (a / 2.0).sin(), y: ax[1] * (a / 2.0).sin(), z: ax[2] * (a / 2.0).sin(), w: (a / 2.0).cos() }, scale: Vec3 { x: 1.0 + i as f64, y: 0.5, z: 2.0 - 0.25 * i as f64 } }
        };
        for i in 0..6 { for j in 0..6 { for k in [-1i32, 0, 1, 2, 3] {
            let (a, b, t) = (mk(i), mk(j), k as f64 / 2.0);
            let bits3 = |v: Vec3<f64>| [v.x.to_bits(), v.y.to_bits(), v.z.to_bits()];
            let bitsq = |q: Quaternion<f64>| [q.x.to_bits(), q.y.to_bits(), q.z.to_bits(), q.w.to_bits()];
            let so = Quaternion::slerp_unclamped(a.orientation, b.orientation, t);
            let cases = [
                ("Lerp::lerp_unclamped for Transform", <Transform<f64, f64, f64> as Lerp<f64>>::lerp_unclamped(a, b, t), false),
                ("Lerp::lerp_unclamped_precise for Transform", <Transform<f64, f64, f64> as Lerp<f64>>::lerp_unclamped_precise(a, b, t), true),
                ("Lerp::lerp_unclamped for &Transform", <&Transform<f64, f64, f64> as Lerp<f64>>::lerp_unclamped(&a, &b, t), false),
                ("Lerp::lerp_unclamped_precise for &Transform", <&Transform<f64, f64, f64> as Lerp<f64>>::lerp_unclamped_precise(&a, &b, t), true),
            ];
            for (name, r, precise) in cases {
                s.eval(true);
                let (wp, ws) = if precise { (<Vec3<f64> as Lerp<f64>>::lerp_unclamped_precise(a.position, b.position, t), <Vec3<f64> as Lerp<f64>>::lerp_unclamped_precise(a.scale, b.scale, t)) }
                               else { (<Vec3<f64> as Lerp<f64>>::lerp_unclamped(a.position, b.position, t), <Vec3<f64> as Lerp<f64>>::lerp_unclamped(a.scale, b.scale, t)) };
                if bits3(r.position) != bits3(wp) { s.violation(name, "position-is-not-the-lerp-of-positions", json!({"i": i, "j": j, "t": t})); }
                if bits3(r.scale) != bits3(ws) { s.violation(name, "scale-is-not-the-lerp-of-scales", json!({"i": i, "j": j, "t": t})); }
                if bitsq(r.orientation) != bitsq(so) { s.violation(name, "orientation-is-not-the-slerp-of-orientations", json!({"i": i, "j": j, "t": t})); }
            }
        } } }
        let d = Transform::<f64, f64, f64>::default();
        s.eval(true);
        if d.position != (Vec3 { x: 0.0, y: 0.0, z: 0.0 }) || d.scale != (Vec3 { x: 1.0, y: 1.0, z: 1.0 }) || d.orientation != (Quaternion { x: 0.0, y: 0.0, z: 0.0, w: 1.0 }) { s.violation("Transform::default", "not-identity", json!({})); }
        s.sample(json!({"pair": [0, 3], "t": 0.5, "law": "fields bit-identical to Lerp(position), Slerp(orientation), Lerp(scale)"}));
    });

    rep.section("Transition: current value = interpolation at the mapped progress",
        "12 accessors/constructors x mappers {identity, x^2, 1-x} x progress {-1/2,0,1/4,1/2,1,3/2} x element types {f32, Vec2<f32>, i32, X}: each accessor equals the direct Lerp call at the mapped (and, for clamped forms, clamped) progress; non-trivial: all", true, false, |s| {
        fn sq(x: f32) -> f32 { x * x }
        fn inv(x: f32) -> f32 { 1.0 - x }
        fn sqx(x: X) -> X { x * x }
        for p in [-0.5f32, 0.0, 0.25, 0.5, 1.0, 1.5] {
            for (mname, mf) in [("x^2", sq as fn(f32) -> f32), ("1-x", inv as fn(f32) -> f32)] {
                macro_rules! trans { ($T:ty, $a:expr, $b:expr) => {{
                    let (a, b): ($T, $T) = ($a, $b);
                    let t = Transition::<$T, ProgressMapperFn<f32>, f32>::with_mapper_and_progress(a, b, ProgressMapperFn(mf), p);
                    let m = mf(p);
                    let site = |n: &str| format!("Transition<{}, mapper {}>::{}", stringify!($T), mname, n);
                    s.evals(8, 8);
                    if t.into_current() != <$T as Lerp<f32>>::lerp(a, b, m) { s.violation(&site("into_current"), "not-the-lerp-at-mapped-progress", json!({"progress": p})); }
                    if t.into_current_unclamped() != <$T as Lerp<f32>>::lerp_unclamped(a, b, m) { s.violation(&site("into_current_unclamped"), "not-the-lerp-at-mapped-progress", json!({"progress": p})); }
                    if t.into_current_precise() != <$T as Lerp<f32>>::lerp_precise(a, b, m) { s.violation(&site("into_current_precise"), "not-the-lerp-at-mapped-progress", json!({"progress": p})); }
                    if t.into_current_unclamped_precise() != <$T as Lerp<f32>>::lerp_unclamped_precise(a, b, m) { s.violation(&site("into_current_unclamped_precise"), "not-the-lerp-at-mapped-progress", json!({"progress": p})); }
                    if t.current() != <$T as Lerp<f32>>::lerp(a, b, m) { s.violation(&site("current"), "not-the-lerp-at-mapped-progress", json!({"progress": p})); }
                    if t.current_unclamped() != <$T as Lerp<f32>>::lerp_unclamped(a, b, m) { s.violation(&site("current_unclamped"), "not-the-lerp-at-mapped-progress", json!({"progress": p})); }
                    if t.current_precise() != <$T as Lerp<f32>>::lerp_precise(a, b, m) { s.violation(&site("current_precise"), "not-the-lerp-at-mapped-progress", json!({"progress": p})); }
                    if t.current_unclamped_precise() != <$T as Lerp<f32>>::lerp_unclamped_precise(a, b, m) { s.violation(&site("current_unclamped_precise"), "not-the-lerp-at-mapped-progress", json!({"progress": p})); }
                    let r = t.into_range(); if r.start != a || r.end != b { s.violation(&site("into_range"), "endpoints-lost", json!({})); }
                }} }
                trans!(f32, 2.0, -6.0);
                trans!(Vec2<f32>, Vec2 { x: 1.0, y: 2.0 }, Vec2 { x: -3.0, y: 10.0 });
                trans!(i32, 10, 20);
                trans!(Vec4<f32>, Vec4 { x: 1.0, y: 2.0, z: 0.0, w: 1.0 }, Vec4 { x: -3.0, y: 10.0, z: 8.0, w: 1.0 });
            }
            // identity mapper / linear transition / constructors
            let lt = LinearTransition::<f32, f32>::with_progress(2.0, -6.0, p);
            s.evals(4, 4);
            if lt.into_current_unclamped() != <f32 as Lerp<f32>>::lerp_unclamped(2.0, -6.0, p) { s.violation("LinearTransition::with_progress", "not-the-lerp-at-progress", json!({"progress": p})); }
            let n = LinearTransition::<f32, f32>::new(2.0, -6.0);
            if n.progress != 0.0 || n.into_current() != 2.0 { s.violation("LinearTransition::new", "does-not-start-at-start", json!({})); }
            let w = Transition::<f32, ProgressMapperFn<f32>, f32>::with_mapper(2.0, -6.0, ProgressMapperFn(sq));
            if w.progress != 0.0 || w.start != 2.0 || w.end != -6.0 { s.violation("Transition::with_mapper", "wrong-fields", json!({})); }
            // the mapper objects themselves: identity maps every progress to itself, the function wrapper applies its function
            s.evals(3, 3);
            if vek::ProgressMapper::<f32>::map_progress(&vek::IdentityProgressMapper, p) != p { s.violation("IdentityProgressMapper::map_progress", "not-the-identity", json!({"progress": p})); }
            if vek::ProgressMapper::<f32>::map_progress(&ProgressMapperFn(sq as fn(f32) -> f32), p) != sq(p) || vek::ProgressMapper::<f32>::map_progress(&ProgressMapperFn(inv as fn(f32) -> f32), p) != inv(p) { s.violation("ProgressMapperFn::map_progress", "not-the-wrapped-function", json!({"progress": p})); }
            // every accessor of a linear transition (identity mapper)
            for (name, got, want) in [("into_current", lt.into_current(), <f32 as Lerp<f32>>::lerp(2.0, -6.0, p)), ("into_current_precise", lt.into_current_precise(), <f32 as Lerp<f32>>::lerp_precise(2.0, -6.0, p)),
                ("into_current_unclamped_precise", lt.into_current_unclamped_precise(), <f32 as Lerp<f32>>::lerp_unclamped_precise(2.0, -6.0, p)), ("current", lt.current(), <f32 as Lerp<f32>>::lerp(2.0, -6.0, p)),
                ("current_unclamped", lt.current_unclamped(), <f32 as Lerp<f32>>::lerp_unclamped(2.0, -6.0, p)), ("current_precise", lt.current_precise(), <f32 as Lerp<f32>>::lerp_precise(2.0, -6.0, p)),
                ("current_unclamped_precise", lt.current_unclamped_precise(), <f32 as Lerp<f32>>::lerp_unclamped_precise(2.0, -6.0, p))] {
                s.evals(1, 1);
                if got != want { s.violation(&format!("LinearTransition::{}", name), "not-the-lerp-at-progress", json!({"progress": p, "got": got, "want": want})); }
            }
            let fr: LinearTransition<f32, f32> = (2.0f32..-6.0f32).into();
            if fr.start != 2.0 || fr.end != -6.0 || fr.progress != 0.0 { s.violation("Transition::from(Range)", "wrong-fields", json!({})); }
        }
        // exact element type with an exact progress
        for pn in [-1i128, 0, 1, 2, 4, 6] {
            let p = q(pn, 4);
            let t = Transition::<X, ProgressMapperFn<X>, X>::with_mapper_and_progress(qi(3), qi(-5), ProgressMapperFn(sqx as fn(X) -> X), p);
            let m = p * p; let mc = if m > qi(1) { qi(1) } else { m };
            s.evals(2, 2);
            if t.into_current_unclamped() != qi(3) + m * qi(-8) { s.violation("Transition<X>::into_current_unclamped", "not-the-lerp-at-mapped-progress", json!({"progress": jx(p)})); }
            if t.into_current() != qi(3) + mc * qi(-8) { s.violation("Transition<X>::into_current", "not-the-lerp-at-mapped-progress", json!({"progress": jx(p)})); }
        }
        s.sample(json!({"T": "f32", "start": 2.0, "end": -6.0, "mapper": "x^2", "progress": 0.5, "current": <f32 as Lerp<f32>>::lerp(2.0, -6.0, 0.25)}));
    });
    std::process::exit(rep.finish());
}
